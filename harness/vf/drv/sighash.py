"""Driver + projection for pycoin's signature-hash code (C04).

Only three things happen here (DEVGUIDE: what Python may do):
  (a) evaluate the uninterpreted hash nodes of a blob printed by Sighash.tla (`ev`),
  (b) concretize the abstract transaction of the spec into pycoin objects (`mk_tx`),
  (c) drive pycoin's SolutionChecker and project what it returns (`observe`).
Nothing in this file knows how a signature hash is put together.
"""
from __future__ import annotations

import hashlib
import importlib

COINS = ("BTC", "LTC", "BCH", "BTG", "GRS")
_NET = {}


def network(coin):
    if coin not in _NET:
        _NET[coin] = importlib.import_module("pycoin.symbols." + coin.lower()).network
    return _NET[coin]


# ---------------------------------------------------------------- (a) blobs

def sym(n):
    """the n-th symbolic 32-byte previous-transaction id (fixed, seed-free table)"""
    return hashlib.sha256(b"verif C04 symbolic txid %d" % n).digest()


def ev(blob, tab=None):
    """bytes denoted by a blob (list of chunks {k, v, x}); `tab` optionally collects
    (function, input, output) of every hash node evaluated"""
    out = []
    for c in blob:
        k = c["k"]
        if k == "b":
            out.append(bytes(c["v"]))
        elif k == "sym":
            out.append(sym(c["v"][0]))
        elif k == "sha256":
            x = ev(c["x"], tab)
            d = hashlib.sha256(x).digest()
            if tab is not None:
                tab.append(("sha256", x, d))
            out.append(d)
        elif k == "sha256d":
            x = ev(c["x"], tab)
            d = hashlib.sha256(hashlib.sha256(x).digest()).digest()
            if tab is not None:
                tab.append(("sha256d", x, d))
            out.append(d)
        else:
            raise ValueError("not a byte-denoting chunk: %r" % (k,))
    return b"".join(out)


def expected(d):
    """('digest', int) | ('refuse',) | ('any',) from the one-chunk blob Digest() returns"""
    k = d[0]["k"]
    if k == "refuse":
        return ("refuse",)
    if k == "any":
        return ("any",)
    b = ev(d)
    if len(b) != 32:
        raise ValueError("digest blob does not denote 32 bytes")
    return ("digest", int.from_bytes(b, "big"))


# ---------------------------------------------------------------- (b) concretize

def _le(bs):
    return int.from_bytes(bytes(bs), "little")


def _prev(p):
    """prev field: a blob (symbolic or literal chunk) or a plain 32-byte list"""
    if p and isinstance(p[0], dict):
        return ev(p)
    return bytes(p)


def other_amount(amount, j, i):
    """amount of the coin spent by input j when input i spends `amount` (all distinct)"""
    return (amount + 7919 * (j - i)) % (1 << 64)


def mk_tx(coin, ver, ins, outs, lock, i, amount, witness=False):
    """ins: [{prev, idx, script, seq}], outs: [{val, script}] with byte lists as in the spec;
    i: 0-based index of the input being signed, amount: int value of the coin it spends"""
    Tx = network(coin).tx
    txs_in = []
    for k, x in enumerate(ins):
        t = Tx.TxIn(_prev(x["prev"]), _le(x["idx"]), bytes(x["script"]), _le(x["seq"]))
        if witness:
            t.witness = _witness_of(k)
        txs_in.append(t)
    txs_out = [Tx.TxOut(_le(o["val"]), bytes(o["script"])) for o in outs]
    unspents = [Tx.TxOut(other_amount(amount, j, i), b"\x51" * (j + 1)) for j in range(len(ins))]
    return Tx(_le(ver), txs_in, txs_out, _le(lock), unspents=unspents)


def _witness_of(k):
    return (b"\x30" * 9, bytes([2 + (k & 1)]) * 33)


def apply_edit(coin, tx, e, after, style=0):
    """One edit of the LIVE transaction object between two requests.  e = {f, j} names the field
    as the spec does; the new value is read from `after`, the fields the spec prints for the
    state after the edit (ShowT).  style 0 assigns the attribute of the existing TxIn / TxOut
    object, style 1 puts a new TxIn / TxOut object in its place; appends and removals work on
    the object's own lists."""
    Tx = network(coin).tx
    f, j = e["f"], e["j"] - 1

    def new_in(k):
        x = after["ins"][k]
        t = Tx.TxIn(_prev(x["prev"]), _le(x["idx"]), bytes(x["script"]), _le(x["seq"]))
        if k < len(tx.txs_in):
            t.witness = tx.txs_in[k].witness
        return t

    def new_out(k):
        return Tx.TxOut(_le(after["outs"][k]["val"]), bytes(after["outs"][k]["script"]))
    if f == "ver":
        tx.version = _le(after["ver"])
    elif f == "lock":
        tx.lock_time = _le(after["lock"])
    elif f == "amount":
        if style:
            tx.unspents[j] = Tx.TxOut(_le(after["amts"][j]), tx.unspents[j].script)
        else:
            tx.unspents[j].coin_value = _le(after["amts"][j])
    elif f in ("in.prev", "in.idx", "in.sigscript", "in.seq"):
        if style:
            tx.txs_in[j] = new_in(j)
        else:
            x = after["ins"][j]
            setattr(tx.txs_in[j], {"in.prev": "previous_hash", "in.idx": "previous_index", "in.sigscript": "script",
                                   "in.seq": "sequence"}[f],
                    {"in.prev": lambda: _prev(x["prev"]), "in.idx": lambda: _le(x["idx"]),
                     "in.sigscript": lambda: bytes(x["script"]), "in.seq": lambda: _le(x["seq"])}[f]())
    elif f in ("out.val", "out.script"):
        if style:
            tx.txs_out[j] = new_out(j)
        elif f == "out.val":
            tx.txs_out[j].coin_value = _le(after["outs"][j]["val"])
        else:
            tx.txs_out[j].script = bytes(after["outs"][j]["script"])
    elif f == "ins.append":
        k = len(tx.txs_in)
        t = new_in(k)
        if any(x.witness for x in tx.txs_in):
            t.witness = _witness_of(k)
        tx.txs_in.append(t)
        tx.unspents.append(Tx.TxOut(_le(after["amts"][k]), b"\x51" * (k + 1)))
    elif f == "outs.append":
        tx.txs_out.append(new_out(len(tx.txs_out)))
    elif f == "outs.droplast":
        tx.txs_out.pop()
    else:
        raise ValueError("unknown edit %r" % (e,))


def project(tx):
    """every field of the transaction object a signature hash could have touched"""
    return (tx.version,
            tuple((t.previous_hash, t.previous_index, t.script, t.sequence, tuple(t.witness)) for t in tx.txs_in),
            tuple((o.coin_value, o.script) for o in tx.txs_out),
            tx.lock_time,
            tuple((u.coin_value, u.script) for u in tx.unspents),
            tx.as_bin())


# ---------------------------------------------------------------- (c) drive pycoin

class FakeVM(object):
    """what the sighash closures read from the VM: the executing script and the offset
    after the most recently executed OP_CODESEPARATOR"""

    def __init__(self, script, begin):
        self.script = script
        self.begin_code_hash = begin


def _call(f, *a):
    try:
        v = f(*a)
    except Exception as e:   # noqa: any exception = the request was refused
        return ("raised", type(e).__name__)
    if isinstance(v, bool) or not isinstance(v, int):
        return ("value", repr(v))
    return ("digest", v)


def observe(checker, sv, i, script, begin, sigs, ht):
    """All the ways pycoin exposes the digest for this request (they must agree):
    the closure the VM calls at OP_CHECKSIG (with the signatures to remove) and, when
    nothing has to be removed, the method named in the property's anchors."""
    script = bytes(script)
    sigs = [bytes(s) for s in sigs]
    vm = FakeVM(script, begin)
    obs = []
    if sv == "base":
        obs.append(("closure", _call(checker._make_sighash_f(i), ht, sigs, vm)))
        if not sigs:
            obs.append(("_signature_hash", _call(checker._signature_hash, script[begin:], i, ht)))
    else:
        obs.append(("closure", _call(checker._make_witness_sighash_f(i), ht, sigs, vm)))
        obs.append(("_signature_for_hash_type_segwit",
                    _call(checker._signature_for_hash_type_segwit, script[begin:], i, ht)))
    return obs


def judge(exp, obs):
    """None if every observation is allowed by the expectation, else a short reason"""
    for name, o in obs:
        if exp[0] == "any":
            continue
        if exp[0] == "refuse":
            if o[0] != "raised":
                return "not-refused", name, o
        elif o[0] == "raised":
            return "raised", name, o
        elif o != exp:
            return "digest", name, o
    return None


# ---------------------------------------------------------------- projection to the spec's JSON vocabulary

def _b(x):
    return list(x)


def tx_json(tx):
    """the abstract transaction record of SighashIO.tla (byte strings as lists of ints)"""
    amts = []
    for j in range(len(tx.txs_in)):
        u = tx.unspents[j] if j < len(tx.unspents) else None
        amts.append(_b(((u.coin_value if u is not None else 0) % (1 << 64)).to_bytes(8, "little")))
    return {"ver": _b((tx.version % (1 << 32)).to_bytes(4, "little")),
            "ins": [{"prev": _b(t.previous_hash), "idx": _b(t.previous_index.to_bytes(4, "little")),
                     "script": _b(t.script), "seq": _b((t.sequence % (1 << 32)).to_bytes(4, "little"))}
                    for t in tx.txs_in],
            "outs": [{"val": _b((o.coin_value % (1 << 64)).to_bytes(8, "little")), "script": _b(o.script)}
                     for o in tx.txs_out],
            "lock": _b((tx.lock_time % (1 << 32)).to_bytes(4, "little")),
            "amts": amts,
            # not read by the rule book, but part of the object that must not change
            "wit": [[_b(w) for w in t.witness] for t in tx.txs_in],
            "uscripts": [_b(u.script) if u is not None else [] for u in tx.unspents]}


def tx_from_json(coin, t):
    """inverse of tx_json"""
    Tx = network(coin).tx
    txs_in = []
    for k, x in enumerate(t["ins"]):
        ti = Tx.TxIn(bytes(x["prev"]), _le(x["idx"]), bytes(x["script"]), _le(x["seq"]))
        w = t.get("wit", [])
        if k < len(w) and w[k]:
            ti.witness = tuple(bytes(b) for b in w[k])
        txs_in.append(ti)
    txs_out = [Tx.TxOut(_le(o["val"]), bytes(o["script"])) for o in t["outs"]]
    us = t.get("uscripts", [])
    unspents = [Tx.TxOut(_le(a), bytes(us[k]) if k < len(us) else b"") for k, a in enumerate(t["amts"])]
    return Tx(_le(t["ver"]), txs_in, txs_out, _le(t["lock"]), unspents=unspents)


def request_json(coin, sv, i, script, begin, sigs, ht):
    return {"coin": coin, "sv": sv, "i": i + 1, "script": _b(script), "begin": begin,
            "sigs": [_b(s) for s in sigs], "ht": ht}


# ---------------------------------------------------------------- ground truth: signature checks of real transactions

def collect_signature_checks(coin, tx, flags):
    """Validate every input of `tx` with pycoin and return the signature checks it made:
    [{sv, i, script, begin, sigs, ht, val (digest pycoin used), public_pair, sig (r, s), ok}].
    pycoin is used only to LOCATE (script code, signatures, hash type, key) - whether the
    digest is right is decided by verifying the signature on the spec's digest."""
    from pycoin.ecdsa.secp256k1 import secp256k1_generator as gen
    checker = tx.SolutionChecker(tx)
    hashes = []     # sighash closure calls, in order
    checks = []

    def wrap(mk, sv):
        def mk2(idx):
            f = mk(idx)

            def g(hash_type, sig_blobs, vm):
                v = f(hash_type, sig_blobs, vm)
                hashes.append({"sv": sv, "i": idx, "script": bytes(vm.script), "begin": vm.begin_code_hash,
                               "sigs": [bytes(s) for s in sig_blobs], "ht": hash_type, "val": v})
                return v
            return g
        return mk2
    checker._make_sighash_f = wrap(checker._make_sighash_f, "base")
    checker._make_witness_sighash_f = wrap(checker._make_witness_sighash_f, "witness_v0")
    orig_verify = gen.verify

    def verify(public_pair, val, sig):
        ok = orig_verify(public_pair, val, sig)
        for h in reversed(hashes):
            if h["val"] == val:
                checks.append(dict(h, public_pair=(int(public_pair[0]), int(public_pair[1])),
                                   sig=(int(sig[0]), int(sig[1])), ok=bool(ok)))
                break
        return ok
    gen.verify = verify
    verdicts = []
    try:
        for idx in range(len(tx.txs_in)):
            try:
                checker.check_solution(checker.tx_context_for_idx(idx), flags)
                verdicts.append(True)
            except Exception:
                verdicts.append(False)
    finally:
        del gen.verify
    return checks, verdicts


def verify_digest(public_pair, digest_int, sig):
    from pycoin.ecdsa.secp256k1 import secp256k1_generator as gen
    try:
        return bool(gen.verify(public_pair, digest_int, sig))
    except Exception:
        return False


# ---------------------------------------------------------------- traces: seeded requests on one transaction object

class Session(object):
    """The long-lived objects of one script evaluation / one validation run: ONE transaction
    object, ONE SolutionChecker and ONE sighash closure per (signature version, input), each
    created the first time it is needed and then reused for every later request - as the VM
    does with vm.signature_for_hash_type_f while it evaluates a script with several
    signature checks."""

    def __init__(self, tx):
        self.tx = tx
        self.checker = tx.SolutionChecker(tx)
        self.closures = {}

    def ask(self, sv, i, script, begin, sigs, ht):
        k = (sv, i)
        if k not in self.closures:
            mk = self.checker._make_sighash_f if sv == "base" else self.checker._make_witness_sighash_f
            self.closures[k] = mk(i)
        return _call(self.closures[k], ht, [bytes(x) for x in sigs], FakeVM(bytes(script), begin))


def random_edit(rnd, coin, tx):
    """The owner of the object changes it between two requests (seeded; any public attribute or
    list of the Tx / TxIn / TxOut objects, by assignment, by replacing the element, by rebinding
    the list).  Returns the name of what was changed."""
    Tx = network(coin).tx
    nin, nout = len(tx.txs_in), len(tx.txs_out)
    kinds = ["version", "lock_time", "in.sequence", "in.previous_index", "in.previous_hash", "in.script", "in.witness",
             "unspent.coin_value", "ins.append", "outs.append", "outs.rebind"]
    if nout:
        kinds += ["out.coin_value", "out.script", "out.replace", "outs.pop"] * 2
    kind = rnd.choice(kinds)
    j, o = rnd.randrange(nin), rnd.randrange(nout) if nout else 0
    val = rnd.choice((0, 1, 546, (1 << 63) - 1, (1 << 64) - 1, rnd.randrange(1 << 64)))
    u32 = rnd.choice((0, 1, 0xFFFFFFFE, 0xFFFFFFFF, rnd.randrange(1 << 32)))
    scr = rnd.randbytes(rnd.choice((0, 1, 22, 25, 34, 253)))
    if kind == "version":
        tx.version = u32
    elif kind == "lock_time":
        tx.lock_time = u32
    elif kind == "in.sequence":
        tx.txs_in[j].sequence = u32
    elif kind == "in.previous_index":
        tx.txs_in[j].previous_index = u32
    elif kind == "in.previous_hash":
        tx.txs_in[j].previous_hash = rnd.randbytes(32)
    elif kind == "in.script":
        tx.txs_in[j].script = scr
    elif kind == "in.witness":
        tx.txs_in[j].witness = (scr, b"\x02" * 33) if rnd.random() < 0.7 else ()
    elif kind == "unspent.coin_value":
        if rnd.random() < 0.5:
            tx.unspents[j].coin_value = val
        else:
            tx.unspents[j] = Tx.TxOut(val, tx.unspents[j].script)
    elif kind == "ins.append":
        tx.txs_in.append(Tx.TxIn(rnd.randbytes(32), u32 % 7, scr, rnd.choice((0, 0xFFFFFFFF))))
        tx.unspents.append(Tx.TxOut(val, b"\x51"))
    elif kind == "outs.append":
        tx.txs_out.append(Tx.TxOut(val, scr))
    elif kind == "outs.rebind":
        tx.txs_out = [Tx.TxOut(t.coin_value, t.script) for t in tx.txs_out] + [Tx.TxOut(val, scr)]
    elif kind == "out.coin_value":
        tx.txs_out[o].coin_value = val
    elif kind == "out.script":
        tx.txs_out[o].script = scr
    elif kind == "out.replace":
        tx.txs_out[o] = Tx.TxOut(val, scr)
    elif kind == "outs.pop":
        tx.txs_out.pop(o)
    return kind


def run_trace(coin, tx, steps):
    """steps: [("ask", sv, i, script, begin, sigs, ht) | ("edit", seed)].  One Session (checker +
    closures) and one transaction object for the whole trace.  Returns the events
    {k: "ask", r, raised, res, after} (res = 32 digest bytes as a list) / {k: "edit", what, after}."""
    import random
    session = Session(tx)
    evs = []
    for st in steps:
        if st[0] == "edit":
            what = random_edit(random.Random(st[1]), coin, tx)
            evs.append({"k": "edit", "what": what, "after": tx_json(tx)})
            continue
        sv, i, script, begin, sigs, ht = st[1:]
        pbefore = project(tx)
        o = session.ask(sv, i, script, begin, sigs, ht)
        ev_ = {"k": "ask", "r": request_json(coin, sv, i, script, begin, sigs, ht),
               "py_unchanged": project(tx) == pbefore, "nouts": len(tx.txs_out),
               "raised": 1 if o[0] == "raised" else 0,
               "res": _b(o[1].to_bytes(32, "big")) if o[0] == "digest" and 0 <= o[1] < (1 << 256) else [],
               "bad_value": o[1] if o[0] == "value" else None,
               "after": tx_json(tx)}
        evs.append(ev_)
    return evs
