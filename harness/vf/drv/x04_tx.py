"""Concretisation, driver and projection for the `tx` command (extension X04).

TLC (spec/X04_MC_TxTool.tla) prints sessions of one or two invocations as abstract items: tokens (transactions as
byte strings in Bytes.tla's Show form, spendables as text fields, texts as ParseDispatch structures), options as
numerals, and for each invocation the outcome the rule book demands.  This module
  * draws the pool keys from the seed and computes their public encodings / hashes (reference EC of drv/nets.py),
  * writes items as command lines (texts through nets.text_of, bytes through txwire.expand) and files,
  * runs pycoin's `tx` in-process the way the repository's ToolTest does, capturing stdout / stderr / exception,
  * reads what was printed back into records of the same shape as the specification's (addresses decoded by the
    independent Base58Check / Bech32 decoders of drv/nets.py),
  * validates emitted transactions with the library's own validation on an independent re-parse.
Nothing here decides what the command should do.
"""
from __future__ import annotations

import contextlib
import hashlib
import io
import os
import random
import re
import shutil
import sys
import tempfile
import traceback

from vf.drv import nets
from vf.drv import txwire as W

NETS = ("BTC", "XTN", "LTC")
UNIT = {"BTC": "mBTC", "XTN": "mXTN", "LTC": "mLTC"}


# ---------------------------------------------------------------- pool facts
def make_keys(seed, n=4):
    rng = random.Random("x04-keys-%d" % seed)
    keys = []
    for i in range(n):
        e = rng.randrange(1, nets.N)
        if i == 2:
            e >>= 9          # a secret with a leading zero byte
        pt = nets.ec_mul(e)
        secc, secu = nets.sec_of(pt, True), nets.sec_of(pt, False)
        keys.append({"secret": list(e.to_bytes(32, "big")), "secc": list(secc), "secu": list(secu),
                     "hc": list(nets.h160(secc)), "hu": list(nets.h160(secu))})
    return keys


def keyfact_of_secret(e):
    pt = nets.ec_mul(e)
    secc, secu = nets.sec_of(pt, True), nets.sec_of(pt, False)
    return {"secret": list(e.to_bytes(32, "big")), "secc": list(secc), "secu": list(secu),
            "hc": list(nets.h160(secc)), "hu": list(nets.h160(secu))}


def net_table():
    return [r for r in nets.table() if r["sym"] in NETS]


def sha256d(b):
    return hashlib.sha256(hashlib.sha256(b).digest()).digest()


# ---------------------------------------------------------------- abstract values -> text
def seq(x):
    return [] if isinstance(x, dict) else x


def num_text(t):
    if t["junk"] != "" or not seq(t["ds"]):
        return t["junk"]
    return ("-" if t["neg"] else "") + "".join(str(d) for d in seq(t["ds"]))


def field_text(f):
    if f["t"] == "hex":
        return W.expand(f["v"]).hex()
    return "".join(str(d) for d in seq(f["v"]))


def line_text(fields):
    return "/".join(field_text(f) for f in seq(fields))


class Holes(object):
    """unlocking scripts the tool itself wrote in an earlier invocation: (fill byte) -> bytes"""

    def __init__(self):
        self.by_fill = {}

    def fill(self, tokens):
        """expand a Show()n byte string whose holes (runs of 100 bytes >= 0xdc, preceded by their length byte 0x64)
        are replaced by the recorded scripts (with their own length byte)"""
        out = b""
        for t in seq(tokens):
            if t[0] == "*" and t.endswith("x100") and int(t[1:3], 16) >= 220:
                s = self.by_fill[int(t[1:3], 16)]
                assert out.endswith(b"\x64") and len(s) < 253
                out = out[:-1] + bytes([len(s)]) + s
            else:
                out += W.expand([t])
        return out


def match_with_holes(tokens, actual):
    """compare actual bytes with an expected Show()n byte string containing holes.
    -> (ok, {fill: script bytes}, offset of first difference or None)"""
    pos = 0
    found = {}
    toks = seq(tokens)
    for k, t in enumerate(toks):
        hole = t[0] == "*" and t.endswith("x100") and int(t[1:3], 16) >= 220
        if hole:
            # the length byte was the last byte of what preceded (0x64 in the expectation)
            if pos == 0:
                return False, found, 0
            n = actual[pos - 1] if pos - 1 < len(actual) else None
            if n is None or n >= 253 or pos + n > len(actual):
                return False, found, pos
            found[int(t[1:3], 16)] = actual[pos:pos + n]
            pos += n
            continue
        b = W.expand([t])
        nxt_hole = k + 1 < len(toks) and toks[k + 1][0] == "*" and toks[k + 1].endswith("x100") and int(toks[k + 1][1:3], 16) >= 220
        cmp_b = b[:-1] if nxt_hole else b           # the length byte before a hole is free
        if actual[pos:pos + len(cmp_b)] != cmp_b:
            for i in range(len(cmp_b)):
                if pos + i >= len(actual) or actual[pos + i] != cmp_b[i]:
                    return False, found, pos + i
        pos += len(b)
    if pos != len(actual):
        return False, found, min(pos, len(actual))
    return True, found, None


class Rendered(object):
    def __init__(self):
        self.argv = []
        self.files = []
        self.ofile = None


def render(item, workdir, holes=None, prev_bytes=None, prev_ofile=None, tag="a"):
    """item (ShowItem of the spec) -> argv of `tx` (files are written under workdir)"""
    holes = holes or Holes()
    r = Rendered()
    a = r.argv
    if item["net"] != "BTC":
        a += ["-n", item["net"]]
    for name, opt in (("ver", "-t"), ("lock", "-l"), ("seqn", "-q"), ("fee", "-F")):
        if item[name]["set"]:
            a.append("%s=%s" % (opt, num_text(item[name])))
    for t in seq(item["rmin"]):
        a.append("--remove-tx-in=%s" % num_text(t))
    for t in seq(item["rmout"]):
        a.append("--remove-tx-out=%s" % num_text(t))
    for rp in seq(item["repl"]):
        a.append("--replace-input-script=%s/%s" % (num_text(rp["idx"]), W.expand(rp["script"]).hex()))
    for d in seq(item["db"]):
        a += ["--db", W.expand(d).hex()]
    if item["aug"]:
        a.append("-a")
    if item["showu"]:
        a.append("-u")
    if seq(item["keyfile"]):
        p = os.path.join(workdir, "keys_%s.txt" % tag)
        with open(p, "w") as f:
            for k, t in enumerate(seq(item["keyfile"])):
                f.write(("" if k % 2 else "wallet key: ") + nets.text_of(t) + "\n")
        a += ["-f", p]
    if item["ofile"]:
        r.ofile = os.path.join(workdir, "out_%s.%s" % (tag, item["ofile"]))
        a += ["-o", r.ofile]
    for k, tk in enumerate(seq(item["args"])):
        kind = tk["k"]
        if kind in ("tx", "prev"):
            if kind == "prev":
                if tk["via"] == "ofile":
                    a.append(prev_ofile)
                    continue
                b = prev_bytes
            else:
                b = holes.fill(tk["bytes"])
            via = tk["via"]
            if via == "hex":
                a.append(b.hex())
            else:
                p = os.path.join(workdir, "arg_%s_%d.%s" % (tag, k, "bin" if via == "bin" else "hex"))
                with open(p, "wb") as f:
                    f.write(b if via == "bin" else b.hex().encode())
                a.append(p)
        elif kind == "txid":
            a.append(W.expand(tk["bytes"]).hex())
        elif kind == "sp":
            a.append(line_text(tk["fields"]))
        elif kind == "parts":
            a.append(nets.text_of(tk["t"]) + "/" + num_text(tk["amt"]))
        elif kind == "text":
            a.append(nets.text_of(tk["t"]))
        else:
            raise ValueError(kind)
    return r


# ---------------------------------------------------------------- running the command in-process
_TOOL = {}


def _tool():
    if "p" not in _TOOL:
        from pycoin.cmds import tx as txcmd
        _TOOL["m"] = txcmd
        _TOOL["p"] = txcmd.create_parser()
    return _TOOL["m"], _TOOL["p"]


class Ran(object):
    __slots__ = ("out", "err", "exc", "exit", "tb", "where", "ofile")

    def __init__(self):
        self.out = self.err = ""
        self.exc = None          # type name of an exception other than SystemExit
        self.exit = None         # SystemExit code
        self.tb = ""
        self.where = ""          # class-level place of the exception: type @ the two innermost functions


_ENV_KEEP = ("PATH", "HOME", "PYTHONPATH", "PYTHONHASHSEED")


def run_tx(argv):
    """run `tx argv` in this process (as tests/cmds/ToolTest.py does); nothing of the environment that could
    name a provider or a cache is visible to it"""
    m, parser = _tool()
    r = Ran()
    out, err = io.StringIO(), io.StringIO()
    saved = dict(os.environ)
    for k in list(os.environ):
        if k.startswith("PYCOIN_") and k != "PYCOIN_VERIF" and k != "PYCOIN_NATIVE":
            del os.environ[k]
    try:
        with contextlib.redirect_stdout(out), contextlib.redirect_stderr(err):
            try:
                args = parser.parse_args(list(argv))
                m.tx(args, parser)
            except SystemExit as e:
                r.exit = e.code if e.code is not None else 0
            except BaseException as e:   # noqa
                r.exc = type(e).__name__
                tb = traceback.extract_tb(e.__traceback__)
                r.where = "%s@%s" % (type(e).__name__, "<-".join(f.name for f in reversed(tb[-2:])))
                r.tb = "%s: %s @ %s" % (type(e).__name__, str(e)[:120],
                                        " <- ".join("%s:%s" % (os.path.basename(f.filename), f.name) for f in reversed(tb[-3:])))
    finally:
        os.environ.clear()
        os.environ.update(saved)
    r.out, r.err = out.getvalue(), err.getvalue()
    return r


# ---------------------------------------------------------------- reading what was printed
_RE_HDR = re.compile(r"^Version: +(\d+)  tx hash ([0-9a-f]{64})  (\d+) bytes$")
_RE_WID = re.compile(r"^      segwit tx hash ([0-9a-f]{64})$")
_RE_CNT = re.compile(r"^TxIn count: (\d+); TxOut count: (\d+)$")
_RE_LOCK = re.compile(r"^Lock time: (\d+) \((.*)\)$")
_RE_IN = re.compile(r"^ *(\d+): +(\S+) from ([0-9a-f]{64}):(\d+) *(?: +(-?[\d.]+) (m\w+)  (sig ok|BAD SIG))?(?: +([0-9a-f]+))?$")
_RE_CB = re.compile(r"^ *(\d+): COINBASE +(-?[\d.]+) (m\w+)$")
_RE_OUT = re.compile(r"^ *(\d+): +(\S+) receives +(-?[\d.]+) (m\w+)$")
_RE_TOT = re.compile(r"^Total (input|output|fees) +(-?[\d.]+) (m\w+)$")
_RE_HEX = re.compile(r"^[0-9a-f]+$")

STDERR_KINDS = (
    (re.compile(r"^warning: transaction fees recommendations casually calculated"), "fee_casual"),
    (re.compile(r"^warning: transaction fee of (\S+) exceeds expected value of (\S+) m"), "fee_high"),
    (re.compile(r"^not enough source coins \((\S+) m\w+\) for destination \((\S+) m\w+\)\. Short (\S+) m"), "fee_short"),
    (re.compile(r"^warning: transaction fee lower than \(casually calculated\) expected value of (\S+) m"), "fee_low"),
    (re.compile(r"^warning: transaction has no inputs$"), "no_inputs"),
    (re.compile(r"^warning: transaction has no outputs$"), "no_outputs"),
    (re.compile(r"^warning: insufficient inputs for outputs$"), "pool_warning"),
    (re.compile(r"^warning: not enough to pay nonzero amounts to at least one of the unspecified outputs$"), "pool_warning"),
    (re.compile(r"^signing\.\.\.$"), "signing"),
    (re.compile(r"^warning: (\d+) TxIn items still unsigned$"), "still_unsigned"),
    (re.compile(r"^\*\* can't validate transaction as source transactions missing$"), "sources_missing"),
    (re.compile(r"^\*\*\*\* ERROR: FEES INCORRECTLY STATED"), "not_validated"),
    (re.compile(r"^\*\*\* can't validate source transactions as untampered"), "not_validated"),
    (re.compile(r"^warning: consider setting environment variable PYCOIN_CACHE_DIR"), "env"),
    (re.compile(r"^warning: no service providers found"), "env"),
)


def read_stderr(text):
    """-> [(kind, match groups, line)]; kind "other" for a line the rule book has no name for"""
    out = []
    for ln in text.splitlines():
        if not ln.strip():
            continue
        for rx, kind in STDERR_KINDS:
            m = rx.match(ln)
            if m:
                out.append((kind, m.groups(), ln))
                break
        else:
            out.append(("other", (), ln))
    return out


def read_dump(text):
    """stdout of dump mode -> dict(lines=[records], hex=..., extra=[kinds], bad=[unreadable lines])"""
    recs, extra, bad = [], [], []
    hexline = None
    hdr = {}
    section = None
    for ln in text.splitlines():
        m = _RE_HDR.match(ln)
        if m:
            hdr.update(version=int(m.group(1)), id=m.group(2), size=int(m.group(3)))
            continue
        m = _RE_WID.match(ln)
        if m:
            hdr["wid"] = m.group(1)
            continue
        m = _RE_CNT.match(ln)
        if m:
            hdr.update(nin=int(m.group(1)), nout=int(m.group(2)))
            continue
        m = _RE_LOCK.match(ln)
        if m:
            hdr.update(lock=int(m.group(1)), meaning=m.group(2))
            continue
        if ln in ("Input:", "Inputs:"):
            hdr["in_plural"] = ln == "Inputs:"
            section = "in"
            continue
        if ln in ("Output:", "Outputs:"):
            hdr["out_plural"] = ln == "Outputs:"
            section = "out"
            continue
        m = _RE_CB.match(ln) if section == "in" else None
        if m:
            recs.append({"k": "coinbase", "idx": int(m.group(1)), "amt": m.group(2), "unit": m.group(3)})
            continue
        m = _RE_IN.match(ln) if section == "in" else None
        if m:
            recs.append({"k": "in", "idx": int(m.group(1)), "addr": m.group(2), "hash": m.group(3), "index": int(m.group(4)),
                         "known": m.group(5) is not None, "amt": m.group(5), "unit": m.group(6),
                         "ok": m.group(7) == "sig ok", "seq": int(m.group(8), 16) if m.group(8) else 0xFFFFFFFF})
            continue
        m = _RE_OUT.match(ln) if section == "out" else None
        if m:
            recs.append({"k": "out", "idx": int(m.group(1)), "addr": m.group(2), "amt": m.group(3), "unit": m.group(4)})
            continue
        m = _RE_TOT.match(ln)
        if m:
            recs.append({"k": {"input": "tin", "output": "tout", "fees": "fee"}[m.group(1)], "amt": m.group(2), "unit": m.group(3)})
            continue
        if ln == "including unspents in hex dump since transaction not fully signed":
            extra.append("including_unspents")
            continue
        if ln == "all incoming transaction values validated":
            extra.append("validated")
            continue
        if _RE_HEX.match(ln) and len(ln) % 2 == 0 and hexline is None and hdr:
            hexline = ln
            continue
        bad.append(ln)
    return {"hdr": hdr, "lines": recs, "hex": hexline, "extra": extra, "bad": bad}


# ---------------------------------------------------------------- expected records -> the same shape
def addr_text(a):
    """Address.tla structure -> characters (independent encoders of drv/nets.py); None for NoAddr"""
    if a["e"] == "b58c":
        return nets.b58check(bytes(seq(a["d"])))
    if a["e"] == "seg":
        return nets.segwit("".join(map(chr, seq(a["hrp"]))), a["ver"], bytes(seq(a["d"])), a["var"])
    return None


def milli_text(a):
    return "".join(str(d) for d in seq(a["int"])) + "." + "".join(str(d) for d in seq(a["frac"]))


def civil_text(c):
    return "%04d-%02d-%02dT%02d:%02d:%02d+00:00" % tuple(c)


def meaning_text(m, lock, civil):
    if m == "anytime":
        return "valid anytime"
    if m == "ignored":
        return "IGNORED as all inputs have sequence 0xffffffff"
    if m == "block":
        return "valid after block index %d" % lock
    return "valid on or after %s utc" % civil_text(seq(civil))


def expected_dump(xdump, unit):
    """the spec's dump records in the reader's shape: (hdr, lines)"""
    hdr, lines = {}, []
    for r in seq(xdump):
        k = r["k"]
        if k == "hdr":
            lock = W.num(r["lock"])
            hdr = {"version": W.num(r["version"]), "nin": r["nin"], "nout": r["nout"], "lock": lock,
                   "meaning": meaning_text(r["meaning"], lock, r["civil"]), "wit": r["wit"],
                   "in_plural": r["nin"] != 1, "out_plural": r["nout"] != 1}
        elif k == "coinbase":
            lines.append({"k": "coinbase", "idx": r["idx"], "amt": milli_text(r["amt"]), "unit": unit})
        elif k == "in":
            d = {"k": "in", "idx": r["idx"], "hash": W.expand(r["hash"])[::-1].hex() if not isinstance(r["hash"], bytes) else r["hash"][::-1].hex(),
                 "index": W.num(r["index"]), "known": r["known"], "seq": W.num(r["seq"])}
            if r["known"]:
                d.update(addr=addr_text(r["addr"]), amt=milli_text(r["amt"]), unit=unit, ok=r["ok"])
            else:
                d.update(addr=None, amt=None, unit=None, ok=False)
            lines.append(d)
        elif k == "out":
            lines.append({"k": "out", "idx": r["idx"], "addr": addr_text(r["addr"]), "amt": milli_text(r["amt"]), "unit": unit})
        elif k in ("tin", "tout"):
            lines.append({"k": k, "amt": milli_text(r["amt"]), "unit": unit})
        elif k == "fee":
            lines.append({"k": "fee", "amt": ("-" if r["sign"] < 0 else "") + milli_text(r["amt"]), "unit": unit})
    return hdr, lines


def diff_dump(want_hdr, want, got):
    """-> None or a short class-level description of the first difference"""
    gh = got["hdr"]
    for f in ("version", "nin", "nout", "lock", "meaning", "in_plural", "out_plural"):
        if gh.get(f) != want_hdr.get(f):
            return "hdr." + f, (want_hdr.get(f), gh.get(f))
    if ("wid" in gh) != bool(want_hdr.get("wit")):
        return "hdr.segwit-line", (want_hdr.get("wit"), "wid" in gh)
    gl = got["lines"]
    if [x["k"] for x in gl] != [x["k"] for x in want]:
        return "lines", ([x["k"] for x in want], [x["k"] for x in gl])
    for wl, g in zip(want, gl):
        for f in wl:
            if f == "addr" and wl[f] is None:
                continue                # what is shown for a script that is none of the address kinds is not specified
            if f in ("amt", "unit", "ok") and wl["k"] == "in" and not wl["known"]:
                if g.get("known"):
                    return "in.known", (False, True)
                continue
            if f == "amt" and wl[f] is not None and float(wl[f].lstrip("-")) > 21000000000.0:
                continue                # beyond 21 million coins (no such money exists) the printed digits are not judged:
                                        # the text goes through a binary float, exact only up to about 2^52 satoshi
            if g.get(f) != wl[f]:
                return "%s.%s" % (wl["k"], f), (wl[f], g.get(f))
    return None


# ---------------------------------------------------------------- the library's own validation, on a re-parse
def lib_validate(sym, raw, uns):
    """raw: bytes of the emitted transaction (without or with extension); uns: the spec's believed unspents
    [{known, amount limbs, script tokens}] -> list of bool (is_solution_ok per input), or None if it cannot be parsed"""
    net = W.network(sym)
    Tx = net.tx
    if not seq(uns):
        return []                      # nothing to validate (a transaction without inputs is not even parsable: its
                                       # input count reads as the BIP144 marker)
    try:
        tx = Tx.parse(io.BytesIO(raw))
    except Exception:   # noqa
        return None
    us = []
    for u in seq(uns):
        if u["known"]:
            us.append(Tx.TxOut(W.num(u["amount"]), W.expand(u["script"])))
        else:
            us.append(None)
    if len(us) != len(tx.txs_in):
        return None
    tx.unspents = us
    out = []
    for i in range(len(tx.txs_in)):
        try:
            out.append(bool(tx.is_solution_ok(i)))
        except Exception:   # noqa
            out.append(False)
    return out


def project_emitted(sym, raw):
    """fields of emitted bytes as pycoin's parser reads them (C07 binds that parser): for difference reports only"""
    net = W.network(sym)
    try:
        f = io.BytesIO(raw)
        tx = net.tx.parse(f)
        rest = f.read()
    except Exception as e:   # noqa
        return None
    return {"version": tx.version, "lock": tx.lock_time,
            "ins": [(t.previous_hash.hex(), t.previous_index, t.script.hex(), t.sequence, [w.hex() for w in t.witness]) for t in tx.txs_in],
            "outs": [(t.coin_value, t.script.hex()) for t in tx.txs_out], "rest": rest.hex()}


def first_field_diff(a, b):
    if a is None or b is None:
        return "unparsable"
    for f in ("version", "lock"):
        if a[f] != b[f]:
            return f
    if len(a["ins"]) != len(b["ins"]):
        return "nin"
    if len(a["outs"]) != len(b["outs"]):
        return "nout"
    names = ("prev_hash", "prev_index", "script", "sequence", "witness")
    for x, y in zip(a["ins"], b["ins"]):
        for k in range(5):
            if x[k] != y[k]:
                return "in." + names[k]
    for x, y in zip(a["outs"], b["outs"]):
        if x[0] != y[0]:
            return "out.amount"
        if x[1] != y[1]:
            return "out.script"
    if a["rest"] != b["rest"]:
        return "unspents-extension"
    return "same-fields"


class Workdir(object):
    def __enter__(self):
        self.path = tempfile.mkdtemp(prefix="vf-x04-")
        return self.path

    def __exit__(self, *a):
        shutil.rmtree(self.path, ignore_errors=True)


# ================================================================ code -> spec: recording invocations
NONUM = {"set": False, "neg": False, "ds": [], "junk": ""}
NOTX = {"version": [0, 0], "ins": [], "outs": [], "lock": [0, 0]}
NOADDR = {"e": "none", "d": [], "hrp": [], "ver": 0, "var": ""}
NOU = {"known": False, "amount": [], "script": []}
_RE_NUM = re.compile(r"^-?[0-9]+$")
_RE_DATE = re.compile(r"^(\d{4})-(\d\d)-(\d\d)(?:T(\d\d):(\d\d):(\d\d))?$")
_RE_HEXTX = re.compile(r"^[0-9a-fA-F]+$")
_RE_TXID = re.compile(r"^[0-9a-fA-F]{64}$")


class Unsupported(Exception):
    """the command line uses something the rule book does not model"""


def numtxt(s):
    if _RE_NUM.match(s):
        neg = s[0] == "-"
        return {"set": True, "neg": neg, "ds": [int(c) for c in s.lstrip("-")], "junk": ""}
    return {"set": True, "neg": False, "ds": [], "junk": s}


def trim(l):
    l = list(l)
    while l and l[-1] == 0:
        l.pop()
    return l


def junk_t():
    return {"f": "junk", "d": [], "d2": [], "a": [], "v": 0, "w": "", "w2": "", "on": False, "toks": []}


def struct_t(text):
    t = nets.structure_of(text)
    if t["f"] == "script":
        t = dict(t, toks=[])         # scripts in assembler notation are left open by the rule book: only the form matters
    return t


def tok(k, **kw):
    d = {"k": k, "tx": NOTX, "uns": [], "via": "", "h": [], "sp": [], "nf": 0, "t": junk_t(), "amt": NONUM}
    d.update(kw)
    return d


def tx_record(tx):
    """a pycoin Tx as a TxWire record (the trace spec checks that it serialises to the bytes given)"""
    return {"version": W.limbs(tx.version, 2), "lock": W.limbs(tx.lock_time, 2),
            "ins": [{"hash": W.rle(t.previous_hash), "index": W.limbs(t.previous_index, 2), "script": W.rle(t.script),
                     "seq": W.limbs(t.sequence, 2), "wit": [W.rle(w) for w in t.witness]} for t in tx.txs_in],
            "outs": [{"amount": W.limbs(o.coin_value, 4), "script": W.rle(o.script)} for o in tx.txs_out]}


def u_record(o):
    if o is None:
        return dict(NOU)
    return {"known": True, "amount": trim(W.limbs(o.coin_value, 4)), "script": W.rle(o.script)}


def parse_tx_bytes(sym, b):
    """bytes -> (record, uns records, canonical?) through pycoin's parser (C07); None if it is no transaction"""
    Tx = W.network(sym).tx
    try:
        f = io.BytesIO(b)
        tx = Tx.parse(f)
        try:
            tx.parse_unspents(f)
        except Exception:   # noqa
            tx.unspents = []
        rest = f.read()
    except Exception:   # noqa
        return None
    uns = [u_record(o) for o in tx.unspents] if tx.unspents else []
    try:
        again = tx.as_bin(include_unspents=bool(tx.unspents) and all(o is not None for o in tx.unspents))
    except Exception:   # noqa
        again = None
    canonical = again == b and not rest
    return tx_record(tx), uns, canonical


def sp_record(text):
    parts = text.split("/")
    if not (4 <= len(parts) <= 7):
        return None
    if not (_RE_TXID.match(parts[0]) and parts[0] == parts[0].lower()):
        return None
    if not all(re.match(r"^(0|[1-9][0-9]*)$", p) for p in [parts[1], parts[3]] + parts[4:]):
        return None
    if not (re.match(r"^([0-9a-f][0-9a-f])*$", parts[2])):
        return None
    vals = [int(parts[1]), int(parts[3])] + [int(p) for p in parts[4:]] + [0] * (7 - len(parts))
    idx, amt, bia, spent, bis = vals
    if idx >= 2**32 or amt >= 2**64 or bia >= 2**64 or bis >= 2**64 or spent > 1:
        return None
    return {"amount": W.limbs(amt, 4), "script": W.rle(bytes.fromhex(parts[2])), "hash": W.rle(bytes.fromhex(parts[0])[::-1]),
            "index": W.limbs(idx, 2), "bia": W.limbs(bia, 4), "spent": bool(spent), "bis": W.limbs(bis, 4)}, len(parts)


_OPT_VALUE = {"-t": "ver", "--transaction-version": "ver", "-l": "lock", "--lock-time": "lock", "-q": "seqn", "--sequence": "seqn",
              "-F": "fee", "--fee": "fee", "-n": "net", "--network": "net", "--db": "db", "-o": "ofile", "--output-file": "ofile",
              "-f": "keyfile", "--private-key-file": "keyfile", "--remove-tx-in": "rmin", "--remove-tx-out": "rmout",
              "--replace-input-script": "repl"}
_OPT_FLAG = {"-a": "aug", "--augment": "aug", "-u": "showu", "--show-unspents": "showu"}


def item_from_argv(argv, default_net="BTC"):
    """a command line of `tx` -> (item in the rule book's shape, argbytes, dbbytes, secrets offered).
    Purely syntactic: what each text DENOTES is decided by the specification."""
    item = {"net": default_net, "args": [], "ver": NONUM, "lock": NONUM, "seqn": NONUM, "fee": NONUM, "rmin": [], "rmout": [], "repl": [],
            "db": [], "aug": False, "showu": False, "ofile": "", "keyfile": [], "lockdate": []}
    pos, dbhex = [], []
    i = 0
    argv = list(argv)
    while i < len(argv):
        a = argv[i]
        if a.startswith("-") and len(a) > 1 and not _RE_NUM.match(a):
            name, val = (a.split("=", 1) + [None])[:2] if a.startswith("--") or (len(a) > 2 and a[2] == "=") else (a, None)
            if name in _OPT_FLAG:
                item[_OPT_FLAG[name]] = True
                i += 1
                continue
            if name not in _OPT_VALUE:
                raise Unsupported("option " + name)
            if val is None:
                i += 1
                if i >= len(argv):
                    raise Unsupported("missing value")
                val = argv[i]
            f = _OPT_VALUE[name]
            if f == "net":
                item["net"] = val
            elif f == "lock":
                m = _RE_DATE.match(val)
                if m:
                    g = [int(x) if x is not None else 0 for x in m.groups()]
                    item["lockdate"] = g
                else:
                    item["lock"] = numtxt(val)
            elif f in ("ver", "seqn"):
                item[f] = numtxt(val)
            elif f == "fee":
                item["fee"] = NONUM if val == "standard" else numtxt(val)
            elif f in ("rmin", "rmout"):
                item[f] = item[f] + [numtxt(val)]
            elif f == "repl":
                if "/" not in val:
                    raise Unsupported("replace-input-script without /")
                ix, hx = val.split("/", 1)
                if not re.match(r"^([0-9a-fA-F][0-9a-fA-F])*$", hx):
                    raise Unsupported("replace-input-script hex")
                item["repl"] = item["repl"] + [{"idx": numtxt(ix), "script": W.rle(bytes.fromhex(hx))}]
            elif f == "db":
                dbhex.append(val)
            elif f == "ofile":
                item["ofile"] = "hex" if val.endswith(".hex") else "bin"
            elif f == "keyfile":
                with open(val) as fh:
                    for line in fh:
                        for word in re.findall(r"[1-9a-km-zA-LMNP-Z]{51,111}", line):
                            item["keyfile"] = item["keyfile"] + [struct_t(word)]
            i += 1
            continue
        pos.append(a)
        i += 1
    sym = item["net"]
    if sym not in NETS:
        raise Unsupported("network " + sym)
    dbbytes = []
    for h in dbhex:
        if not _RE_HEXTX.match(h) or len(h) % 2:
            raise Unsupported("--db value")
        b = bytes.fromhex(h)
        p = parse_tx_bytes(sym, b)
        if p is None or not p[2] or p[1]:
            raise Unsupported("--db value is no plain transaction")
        item["db"].append({"tx": p[0], "id": W.rle(sha256d(_stripped(sym, b)))})
        dbbytes.append(W.rle(b))
    argbytes = []
    for a in pos:
        ab = []
        if _RE_TXID.match(a):
            item["args"].append(tok("txid", h=W.rle(bytes.fromhex(a)[::-1])))
        elif _RE_HEXTX.match(a) and len(a) % 2 == 0 and len(a) >= 20 and parse_tx_bytes(sym, bytes.fromhex(a)) is not None:
            b = bytes.fromhex(a)
            rec, uns, canon = parse_tx_bytes(sym, b)
            if not canon:
                raise Unsupported("transaction argument not in canonical form")
            item["args"].append(tok("tx", tx=rec, uns=uns, via="hex"))
            ab = W.rle(b)
        elif os.path.exists(a):
            with open(a, "rb") as fh:
                raw = fh.read()
            via = "hexfile" if a.endswith("hex") else "bin"
            try:
                b = bytes.fromhex(raw.decode()) if via == "hexfile" else raw
            except ValueError:
                raise Unsupported("hex file")
            p = parse_tx_bytes(sym, b)
            if p is None or not p[2]:
                raise Unsupported("file is no canonical transaction")
            item["args"].append(tok("tx", tx=p[0], uns=p[1], via=via))
            ab = W.rle(b)
        elif "/" in a and sp_record(a) is not None:
            rec, nf = sp_record(a)
            item["args"].append(tok("sp", sp=rec, nf=nf))
        elif a.count("/") == 1:
            left, right = a.split("/")
            item["args"].append(tok("parts", t=struct_t(left), amt=numtxt(right) if right != "" else {"set": True, "neg": False, "ds": [], "junk": ""}))
        else:
            item["args"].append(tok("text", t=struct_t(a)))
        argbytes.append(ab)
    return item, argbytes, dbbytes


def _stripped(sym, b):
    """the witness-less form whose hash is the id (pycoin's serialiser; only used for --db entries, which the trace
    spec requires to be witness-free so that this is the identity - checked there)"""
    return b


def secrets_of(item, table):
    """secrets a command line offers, syntactically: Base58Check texts whose payload is <wif prefix> <32 bytes> [01]"""
    row = [r for r in table if r["sym"] == item["net"]][0]
    pre = bytes(row["wif"])
    out = []
    ts = [tk["t"] for tk in item["args"] if tk["k"] == "text"] + list(item["keyfile"])
    for t in ts:
        if t["f"] == "b58c":
            d = bytes(t["d"])
            if d.startswith(pre) and len(d) - len(pre) in (32, 33):
                e = int.from_bytes(d[len(pre):len(pre) + 32], "big")
                if 0 < e < nets.N and e not in out:
                    out.append(e)
    return out


def addr_struct(text):
    """a printed address -> Address.tla structure by the independent decoders (NOADDR when it is none)"""
    p = nets.b58check_dec(text)
    if p is not None:
        return {"e": "b58c", "d": list(p), "hrp": [], "ver": 0, "var": "sha256d"}
    sg = nets.segwit_dec(text)
    if sg is not None:
        return {"e": "seg", "d": list(sg[2]), "hrp": [ord(c) for c in sg[0]], "ver": sg[1], "var": sg[3]}
    return dict(NOADDR)


def milli_rec(s):
    s = s.lstrip("-")
    a, b = s.split(".")
    return {"int": [int(c) for c in a], "frac": [int(c) for c in b]}


_MEANING = (("valid anytime", "anytime"), ("IGNORED as all inputs have sequence 0xffffffff", "ignored"))


def dump_records(d, unit):
    """the reader's view of a dump -> records of exactly the shape of X04_TxTool!Dump (None if something cannot be put in that shape)"""
    h = d["hdr"]
    need = ("version", "nin", "nout", "lock", "meaning", "id", "size")
    if any(k not in h for k in need):
        return None
    mt = h["meaning"]
    civil = []
    if mt == "valid anytime":
        m = "anytime"
    elif mt.startswith("IGNORED"):
        m = "ignored"
    elif mt.startswith("valid after block index "):
        m = "block"
        if mt != "valid after block index %d" % h["lock"]:
            return None
    else:
        mm = re.match(r"^valid on or after (\d{4})-(\d\d)-(\d\d)T(\d\d):(\d\d):(\d\d)\+00:00 utc$", mt)
        if not mm:
            return None
        m = "time"
        civil = [int(x) for x in mm.groups()]
    out = [{"k": "hdr", "version": W.limbs(h["version"], 2), "nin": h["nin"], "nout": h["nout"], "wit": "wid" in h,
            "lock": W.limbs(h["lock"], 2), "meaning": m, "civil": civil}]
    for r in d["lines"]:
        if r.get("unit") not in (None, unit):
            return None
        k = r["k"]
        if k == "coinbase":
            out.append({"k": "coinbase", "idx": r["idx"], "amt": milli_rec(r["amt"])})
        elif k == "in":
            if r["known"]:
                out.append({"k": "in", "idx": r["idx"], "known": True, "addr": addr_struct(r["addr"]), "hash": W.rle(bytes.fromhex(r["hash"])[::-1]),
                            "index": W.limbs(r["index"], 2), "amt": milli_rec(r["amt"]), "ok": r["ok"], "seq": W.limbs(r["seq"], 2)})
            else:
                out.append({"k": "in", "idx": r["idx"], "known": False, "addr": dict(NOADDR), "hash": W.rle(bytes.fromhex(r["hash"])[::-1]),
                            "index": W.limbs(r["index"], 2), "amt": {"int": [0], "frac": [0, 0, 0, 0, 0]}, "ok": False, "seq": W.limbs(r["seq"], 2)})
        elif k == "out":
            out.append({"k": "out", "idx": r["idx"], "addr": addr_struct(r["addr"]), "amt": milli_rec(r["amt"])})
        elif k in ("tin", "tout"):
            out.append({"k": k, "amt": milli_rec(r["amt"])})
        elif k == "fee":
            neg = r["amt"].startswith("-")
            z = set(r["amt"].lstrip("-")) <= set("0.")
            out.append({"k": "fee", "sign": 0 if z else (-1 if neg else 1), "amt": milli_rec(r["amt"])})
    return out


def line_fields(text):
    """a printed spendable line -> the text fields of Spendable.tla (hex / dec)"""
    p = text.split("/")
    if len(p) != 7:
        return None
    try:
        return [{"t": "hex", "v": W.rle(bytes.fromhex(p[0]))}, {"t": "dec", "v": [int(c) for c in p[1]]},
                {"t": "hex", "v": W.rle(bytes.fromhex(p[2]))}] + [{"t": "dec", "v": [int(c) for c in x]} for x in p[3:]]
    except ValueError:
        return None


def observe(sym, item, argv, ran, world, ofile=None, keyless=None):
    """what happened, in the shape X04_Trace_TxTool reads.  world: {(hash bytes, index): (amount, script bytes)};
    keyless: the Ran of the same command line without its keys (None: there were none)"""
    obs = {"r": "completed", "message": bool(ran.err.strip()), "mode": "", "bytes": [], "dump": [], "size": 0, "lines": [],
           "said": [], "verdict": "none", "nstill": -1, "unlock": [], "wit": [], "okw": [], "wasw": [], "dumpok": [], "world": [],
           "seen": False, "errseen": True}
    if ran.exc is not None:
        obs["r"] = "traceback"
        return obs
    if ran.exit is not None:
        obs["r"] = "exit"
        obs["message"] = bool(ran.err.strip()) and ran.exit != 0
        return obs
    errs = read_stderr(ran.err)
    said = []
    for k, g, l in errs:
        k = "remark" if k == "other" else k
        if k in ("sources_missing", "not_validated"):
            obs["verdict"] = k
            continue
        if k == "still_unsigned":
            obs["nstill"] = int(g[0])
        if k not in said:
            said.append(k)
    emitted = None
    lines = [ln for ln in ran.out.splitlines() if ln.strip()]
    if item["ofile"]:
        obs["mode"] = "file"
        with open(ofile, "rb") as f:
            content = f.read()
        emitted = bytes.fromhex(content.decode()) if item["ofile"] == "hex" else content
        for ln in lines:
            if ln == "all incoming transaction values validated":
                obs["verdict"] = "validated"
            else:
                said.append("remark")
    else:
        d = read_dump(ran.out)
        if d["hdr"] and d["hex"] is not None and not d["bad"]:
            obs["mode"] = "dump"
            emitted = bytes.fromhex(d["hex"])
            recs = dump_records(d, UNIT[sym])
            if recs is None:
                obs["r"] = "unreadable"
                return obs
            obs["dump"] = recs
            obs["size"] = d["hdr"]["size"]
            obs["dumpok"] = [r["ok"] for r in recs if r["k"] == "in"]
            obs["hdr_id"] = d["hdr"]["id"]
            for k in d["extra"]:
                if k == "validated":
                    obs["verdict"] = "validated"
                elif k not in said:
                    said.append(k)
        else:
            fl = [line_fields(ln) for ln in lines]
            if any(f is None for f in fl):
                obs["r"] = "unreadable"
                return obs
            obs["mode"] = "unspents" if item["showu"] else "inputs"
            if obs["mode"] == "unspents":
                obs["ids"] = sorted({ln.split("/")[0] for ln in lines})
                for f in fl:
                    f[0] = {"t": "hex", "v": W.rle(b"\0" * 32)}      # the id of the transaction itself: checked by the harness
            obs["lines"] = fl
    obs["said"] = said
    if emitted is not None:
        obs["bytes"] = W.rle(emitted)
        # a transaction without inputs cannot be read back (its input count reads as the BIP144 marker): nothing to hint
        no_inputs = (obs["mode"] == "dump" and obs["dump"] and obs["dump"][0]["nin"] == 0) or \
                    (obs["mode"] == "file" and len(emitted) > 5 and emitted[4] == 0 and (emitted[5] != 1 or parse_tx_bytes(sym, emitted) is None))
        if no_inputs:
            obs["seen"] = True
            return obs
        p = parse_tx_bytes(sym, emitted)
        if p is None:
            obs["r"] = "unreadable"
            return obs
        rec = p[0]
        obs["seen"] = True
        obs["unlock"] = [x["script"] for x in rec["ins"]]
        obs["wit"] = [x["wit"] for x in rec["ins"]]
        outpoints = [(W.unrle(x["hash"]), W.num(x["index"])) for x in rec["ins"]]
        wu = []
        for op in outpoints:
            if op in world:
                wu.append({"known": True, "amount": W.limbs(world[op][0], 4), "script": W.rle(world[op][1])})
            else:
                wu.append({"known": False, "amount": [0, 0, 0, 0], "script": []})
        obs["world"] = wu
        body_len = _body_len(sym, emitted)
        obs["okw"] = _validate_world(sym, emitted[:body_len], outpoints, world)
        obs["wasw"] = list(obs["okw"])
        if keyless is not None:
            kb = _emitted_of(keyless, item, ofile_keyless=getattr(keyless, "ofile", None))
            if kb is not None:
                kl = _body_len(sym, kb)
                kp = parse_tx_bytes(sym, kb)
                if kp is not None and [(W.unrle(x["hash"]), W.num(x["index"])) for x in kp[0]["ins"]] == outpoints:
                    obs["wasw"] = _validate_world(sym, kb[:kl], outpoints, world)
                else:
                    obs["wasw"] = [False] * len(outpoints)
            else:
                obs["wasw"] = [False] * len(outpoints)
    return obs


def _body_len(sym, raw):
    Tx = W.network(sym).tx
    f = io.BytesIO(raw)
    Tx.parse(f)
    return f.tell()


def _validate_world(sym, body, outpoints, world):
    Tx = W.network(sym).tx
    tx = Tx.parse(io.BytesIO(body))
    tx.unspents = [Tx.TxOut(world[op][0], world[op][1]) if op in world else None for op in outpoints]
    out = []
    for i in range(len(outpoints)):
        try:
            out.append(bool(tx.is_solution_ok(i)))
        except Exception:   # noqa
            out.append(False)
    return out


def _emitted_of(ran, item, ofile_keyless=None):
    if ran.exc is not None or ran.exit is not None:
        return None
    if item["ofile"]:
        try:
            with open(ofile_keyless, "rb") as f:
                c = f.read()
            return bytes.fromhex(c.decode()) if item["ofile"] == "hex" else c
        except Exception:   # noqa
            return None
    d = read_dump(ran.out)
    return bytes.fromhex(d["hex"]) if d["hex"] else None


def strip_keys(argv, item, table):
    """the same command line without the texts that are private keys (and without key files)"""
    row = [r for r in table if r["sym"] == item["net"]][0]
    pre = bytes(row["wif"])
    out = []
    skip = False
    for a in argv:
        if skip:
            skip = False
            continue
        if a in ("-f", "--private-key-file"):
            skip = True
            continue
        if a.startswith("--private-key-file=") or a.startswith("-f="):
            continue
        p = nets.b58check_dec(a) if not a.startswith("-") else None
        if p is not None and p.startswith(pre) and len(p) - len(pre) in (32, 33):
            continue
        out.append(a)
    return out


def record(argv, world, table, tid, workdir, ofile=None):
    """run one command line and return the trace record (or None when it is outside the rule book's domain)"""
    try:
        item, argbytes, dbbytes = item_from_argv(argv)
    except Unsupported:
        return None
    ran = run_tx(argv)
    keyless = None
    secrets = secrets_of(item, table)
    if secrets or item["keyfile"]:
        kargv = strip_keys(argv, item, table)
        if ofile is not None:
            kofile = ofile + ".keyless" + (".hex" if item["ofile"] == "hex" else "")
            kargv = [kofile if a == ofile else (a.split("=", 1)[0] + "=" + kofile if a.endswith("=" + ofile) else a) for a in kargv]
        keyless = run_tx(kargv)
        if ofile is not None:
            keyless.ofile = kofile
    obs = observe(item["net"], item, argv, ran, world, ofile=ofile, keyless=keyless)
    if obs["r"] == "unreadable":
        return None
    kf = [keyfact_of_secret(e) for e in secrets]
    return {"id": tid, "item": item, "kf": kf, "argbytes": argbytes, "dbbytes": dbbytes, "obs": obs,
            "argv": list(argv), "stdout": ran.out[:3000], "stderr": ran.err[:1500], "exc": ran.tb, "where": ran.where}


# ---------------------------------------------------------------- seeded scenarios beyond the enumerated grid
def _push(b):
    return bytes([len(b)]) + b


def script_of(kind, fact):
    hc, hu, secc, secu = bytes(fact["hc"]), bytes(fact["hu"]), bytes(fact["secc"]), bytes(fact["secu"])
    if kind == "pkh_c":
        return b"\x76\xa9\x14" + hc + b"\x88\xac"
    if kind == "pkh_u":
        return b"\x76\xa9\x14" + hu + b"\x88\xac"
    if kind == "pk_c":
        return _push(secc) + b"\xac"
    if kind == "pk_u":
        return _push(secu) + b"\xac"
    if kind == "wpkh":
        return b"\x00\x14" + hc
    raise ValueError(kind)


class World(object):
    """keys, real source transactions paying them, and what every outpoint holds"""

    def __init__(self, rng, table, nkeys=6, nsrc=6):
        self.table = {r["sym"]: r for r in table}
        self.rng = rng
        self.keys = []
        for i in range(nkeys):
            e = rng.randrange(1, nets.N) >> rng.choice([0, 0, 0, 8, 17])
            self.keys.append((e or 1, keyfact_of_secret(e or 1)))
        Tx = W.network("BTC").tx
        self.sources = []
        self.coins = {}
        self.coinlist = []
        for s in range(nsrc):
            outs = []
            for j in range(rng.choice([1, 2, 3, 5, 9])):
                owner = rng.randrange(nkeys)
                kind = rng.choice(["pkh_c", "pkh_c", "pkh_u", "pk_c", "pk_u", "wpkh"])
                amt = self.amount()
                outs.append((amt, script_of(kind, self.keys[owner][1]), owner, kind))
            tx = Tx(version=1, txs_in=[Tx.TxIn(bytes([rng.randrange(256) for _ in range(32)]), s, b"\x51")],
                    txs_out=[Tx.TxOut(a, sc) for a, sc, o, k in outs], lock_time=0)
            b = tx.as_bin()
            h = sha256d(b)
            self.sources.append((b, h, outs))
            for j, (a, sc, o, k) in enumerate(outs):
                self.coins[(h, j)] = (a, sc)
                self.coinlist.append((h, j, a, sc, o, k))

    def amount(self):
        r = self.rng
        c = r.random()
        if c < 0.1:
            return r.choice([1, 2, 546, 9999, 10000, 10001, 65535, 65536, 2**32 - 1, 2**32, 2100000000000000])
        return int(10 ** r.uniform(0, 15.3)) or 1

    def address(self, sym, kind, h):
        row = self.table[sym]
        if kind == "p2pkh":
            return nets.b58check(bytes(row["p2pkh"]) + h[:20])
        if kind == "p2sh":
            return nets.b58check(bytes(row["p2sh"]) + h[:20])
        hrp = "".join(map(chr, row["hrp"]))
        if kind == "p2wpkh":
            return nets.segwit(hrp, 0, h[:20], "bech32")
        if kind == "p2wsh":
            return nets.segwit(hrp, 0, h, "bech32")
        return nets.segwit(hrp, 1, h, "bech32m")

    def wif(self, sym, e, comp):
        row = self.table[sym]
        return nets.b58check(bytes(row["wif"]) + e.to_bytes(32, "big") + (b"\x01" if comp else b""))


def sp_text(h, j, sc, a, full):
    s = "%s/%d/%s/%d" % (h[::-1].hex(), j, sc.hex(), a)
    return s + "/0/0/0" if full else s


def gen_invocation(rng, world, workdir, n, prev=None):
    """-> (argv, ofile or None).  prev: bytes emitted by an earlier invocation (read back as first argument)"""
    sym = rng.choice(["BTC"] * 6 + ["XTN", "LTC"])
    opts, pos = [], []
    if sym != "BTC":
        opts += ["-n", sym]
    big = rng.random() < 0.04
    ncoins = rng.choice([26, 30]) if big else rng.choice([0, 1, 1, 1, 2, 2, 3, 4, 6, 8])
    coins = [rng.choice(world.coinlist) for _ in range(ncoins)] if big else rng.sample(world.coinlist, min(ncoins, len(world.coinlist)))
    Tx = W.network(sym).tx
    tin = 0
    owners = set()
    used_sources = set()
    if prev is not None:
        pos.append(prev.hex())
        coins = coins[:rng.choice([0, 0, 0, 1])]
    packed = 0
    if prev is None and coins and rng.random() < 0.25:
        packed = rng.randrange(1, len(coins) + 1)
        ins = [Tx.TxIn(h, j, b"", sequence=rng.choice([0xFFFFFFFF, 0xFFFFFFFE, 0, 7])) for h, j, a, sc, o, k in coins[:packed]]
        outs = []
        for _ in range(rng.choice([0, 1, 1, 2, 3])):
            outs.append(Tx.TxOut(rng.choice([1, 500, 12345, world.amount() % 100000 + 1]),
                                 b"\x76\xa9\x14" + bytes([rng.randrange(256)] * 20) + b"\x88\xac"))
        t = Tx(version=rng.choice([1, 1, 2, 3]), txs_in=ins, txs_out=outs, lock_time=rng.choice([0, 0, 5, 600000000]))
        ext = rng.random() < 0.6
        if ext:
            t.set_unspents([Tx.TxOut(a, sc) for h, j, a, sc, o, k in coins[:packed]])
        b = t.as_bin(include_unspents=ext)
        via = rng.choice(["hex", "hex", "bin", "hexfile"])
        if via == "hex":
            pos.append(b.hex())
        else:
            p = os.path.join(workdir, "t%d.%s" % (n, "bin" if via == "bin" else "hex"))
            with open(p, "wb") as f:
                f.write(b if via == "bin" else b.hex().encode())
            pos.append(p)
    for h, j, a, sc, o, k in coins:
        owners.add(o)
        used_sources.add(h)
        tin += a
    for idx, (h, j, a, sc, o, k) in enumerate(coins[packed:]):
        lie = rng.random() < 0.04
        if lie:
            a2, h2 = (a + 1, h) if rng.random() < 0.5 else (a, bytes([rng.randrange(256) for _ in range(32)]))
            pos.append(sp_text(h2, j, sc, a2, rng.random() < 0.3))
        else:
            pos.append(sp_text(h, j, sc, a, rng.random() < 0.3))
    npay = rng.choice([0, 1, 1, 1, 2, 2, 3, 4, 6])
    fixed = 0
    nun = 0
    pays = []
    for _ in range(npay):
        kind = rng.choice(["p2pkh", "p2pkh", "p2sh", "p2wpkh", "p2wsh", "p2tr"])
        addr = world.address(sym, kind, bytes([rng.randrange(256) for _ in range(32)]))
        if rng.random() < 0.5:
            room = max(tin - fixed, 0)
            amt = rng.choice([1, 546, rng.randrange(1, max(2, room // 3 + 2)), rng.randrange(1, 100000)])
            fixed += amt
            pays.append("%s/%d" % (addr, amt))
        else:
            nun += 1
            pays.append(addr)
    pos += pays
    if rng.random() < 0.5 and nun:
        pool = tin - fixed
        c = rng.choice(["z", "one", "k", "exact", "short", "rem", "over", "rand"])
        fee = {"z": 0, "one": 1, "k": 10000, "exact": pool - nun, "short": pool - nun + 1, "rem": pool - 2 * nun - 1,
               "over": pool + 1, "rand": rng.randrange(0, max(1, pool) + 1)}[c]
        if fee >= 0:
            opts += ["-F", str(fee)]
    kc = rng.random()
    keyset = []
    if kc < 0.4:
        keyset = sorted(owners)
    elif kc < 0.55:
        keyset = sorted(o for o in owners if rng.random() < 0.5)
    elif kc < 0.65:
        keyset = [rng.randrange(len(world.keys))]
    if prev is not None and rng.random() < 0.5:
        keyset = list(range(len(world.keys)))
    wifs = [world.wif(sym, world.keys[o][0], rng.random() < 0.7) for o in keyset]
    if wifs and rng.random() < 0.2:
        p = os.path.join(workdir, "k%d.txt" % n)
        with open(p, "w") as f:
            for w in wifs:
                f.write("%s %s\n" % (rng.choice(["", "key:", "#"]), w))
        opts += ["-f", p]
    else:
        pos += wifs
    dc = rng.random()
    dbs = []
    if dc < 0.45 or (prev is not None and dc < 0.8):
        dbs = [b for b, h, outs in world.sources if h in used_sources or prev is not None]
    elif dc < 0.6:
        dbs = [b for b, h, outs in world.sources if h in used_sources and rng.random() < 0.5]
    for b in dbs:
        opts += ["--db", b.hex()]
    if rng.random() < 0.15:
        opts += ["-t", str(rng.choice([0, 1, 2, 3, 255, rng.randrange(256)]))]
    lc = rng.random()
    if lc < 0.12:
        opts += ["-l", str(rng.choice([0, 1, 499999999, 500000000, 1514733377, 2**31 - 1, 2**31, 2**32 - 1, rng.randrange(2**32)]))]
    elif lc < 0.2:
        opts += ["-l", "%04d-%02d-%02dT%02d:%02d:%02d" % (rng.randrange(2009, 2106), rng.randrange(1, 13), rng.randrange(1, 29),
                                                          rng.randrange(24), rng.randrange(60), rng.randrange(60))]
    if rng.random() < 0.2:
        opts += ["-q", str(rng.choice([0, 1, 0xFFFFFFFE, 0xFFFFFFFF, rng.randrange(2**32)]))]
    if rng.random() < 0.1:
        opts.append("-a")
    if rng.random() < 0.05:
        opts.append("-u")
    nin_est = ncoins + (0 if prev is None else 2)
    nout_est = npay + 2
    if rng.random() < 0.08:
        opts += ["--remove-tx-in", str(rng.randrange(0, nin_est + 1))]
    if rng.random() < 0.08:
        opts += ["--remove-tx-out", str(rng.randrange(0, nout_est))]
    if rng.random() < 0.05 and ncoins:
        opts += ["--replace-input-script", "%d/%s" % (rng.randrange(0, ncoins), rng.choice(["", "51", "6a79"]))]
    ofile = None
    if rng.random() < 0.1:
        ofile = os.path.join(workdir, "o%d.%s" % (n, rng.choice(["bin", "hex"])))
        opts += ["-o", ofile]
    return opts + pos, ofile


def gen_traces(seed, count, table, workdir):
    rng = random.Random("x04-traces-%d" % seed)
    world = World(rng, table)
    out = []
    prev = None
    n = 0
    attempts = 0
    while len(out) < count and attempts < count * 3:
        attempts += 1
        n += 1
        use_prev = prev is not None and rng.random() < 0.6
        argv, ofile = gen_invocation(rng, world, workdir, n, prev if use_prev else None)
        t = record(argv, world.coins, table, "r%d" % n, workdir, ofile=ofile)
        prev = None
        if t is None:
            continue
        out.append(t)
        o = t["obs"]
        if o["r"] == "completed" and o["mode"] in ("dump", "file") and o["bytes"] and o["unlock"] and rng.random() < 0.35:
            prev = W.unrle(o["bytes"])
    return out, world


# ---------------------------------------------------------------- ground truth: the repository's own tx_*.txt files
# recorded with a provider on the network (the repository's offline test run fails on them: harness/DEVGUIDE.md)
NETWORK_GOLDEN = ("ignored_locktime", "pay_to_opcode_list")


def golden_files(repo):
    d = os.path.join(repo, "tests", "cmds", "test_cases", "tx")
    out = []
    for fn in sorted(os.listdir(d)):
        if not fn.endswith(".txt"):
            continue
        with open(os.path.join(d, fn)) as f:
            lines = f.read().split("\n")
        k = 0
        while k < len(lines) and lines[k].startswith("#"):
            k += 1
        cmd = lines[k]
        expected = "\n".join(lines[k + 1:])
        out.append((fn[:-4], cmd, expected))
    return out


def canned_observation(sym, item, stdout_text, world):
    """an observation built from recorded stdout alone (stderr was not recorded; validity of inputs = what the recorded
    dump claims) - independent of what the code under test does today"""
    ran = Ran()
    ran.out = stdout_text
    obs = observe(sym, item, [], ran, {}, ofile=None, keyless=None)
    if obs["r"] != "completed":
        return obs
    obs["errseen"] = False
    if obs["seen"]:
        if obs["mode"] == "dump":
            ins = [r for r in obs["dump"] if r["k"] == "in"]
            claims = [r["ok"] for r in ins]
            if len(claims) == len(obs["unlock"]):
                obs["okw"] = claims
                obs["wasw"] = list(claims)
                obs["dumpok"] = claims
            # the world as far as the recorded command line tells it (database entries)
            wu = []
            for r in ins:
                op = (W.unrle(r["hash"]), W.num(r["index"]))
                if op in world:
                    wu.append({"known": True, "amount": W.limbs(world[op][0], 4), "script": W.rle(world[op][1])})
                else:
                    wu.append({"known": False, "amount": [0, 0, 0, 0], "script": []})
            obs["world"] = wu
    return obs


def world_of_db(sym, item, dbbytes):
    """{outpoint: (amount, script)} of the database entries of a command line"""
    Tx = W.network(sym).tx
    world = {}
    for rl in dbbytes:
        b = W.unrle(rl)
        tx = Tx.parse(io.BytesIO(b))
        h = sha256d(b)
        for j, o in enumerate(tx.txs_out):
            world[(h, j)] = (o.coin_value, o.script)
    return world


def golden_traces(repo, table, workdir):
    """-> (traces from canned output, [names outside the rule book's domain])"""
    import shlex
    traces, skipped = [], []
    for name, cmd, expected in golden_files(repo):
        if name in NETWORK_GOLDEN:
            skipped.append(name)
            continue
        cmds = [shlex.split(c) for c in cmd.split(";")]
        if any(not c or c[0] != "tx" for c in cmds):
            skipped.append(name)
            continue
        cwd = os.getcwd()
        sub = os.path.join(workdir, "g_" + name)
        os.makedirs(sub, exist_ok=True)
        try:
            os.chdir(sub)
            ok = True
            for c in cmds[:-1]:               # earlier commands of the file only prepare files for the last one
                r = run_tx(c[1:])
                if r.exc is not None or r.exit is not None:
                    ok = False
            if not ok:
                skipped.append(name)
                continue
            argv = cmds[-1][1:]
            try:
                item, argbytes, dbbytes = item_from_argv(argv)
            except Unsupported:
                skipped.append(name)
                continue
            argv = [os.path.join(sub, a) if os.path.exists(a) else a for a in argv]
        finally:
            os.chdir(cwd)
        try:
            world = world_of_db(item["net"], item, dbbytes)
        except Exception:   # noqa
            skipped.append(name)
            continue
        obs = canned_observation(item["net"], item, expected, world)
        if obs["r"] != "completed":
            skipped.append(name)
            continue
        kf = [keyfact_of_secret(e) for e in secrets_of(item, table)]
        traces.append({"id": "golden:" + name, "item": item, "kf": kf, "argbytes": argbytes, "dbbytes": dbbytes, "obs": obs,
                       "argv": argv, "stdout": expected[:3000], "stderr": "", "exc": ""})
    return traces, skipped
