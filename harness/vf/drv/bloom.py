"""Driver + projection for pycoin.bloomfilter (C19): murmur3 and BloomFilter.

Abstract calls come from spec/MC_BloomReplay.tla (or from the seeded recorder):
  {"op": "add_item" | "add_hash160" | "add_address" | "add_spendable", "b": [bytes], "i": [4 bytes LE] | []}
They are concretized here (an address string is built around the 20-byte hash,
a Spendable object around the outpoint) and executed on a real BloomFilter; the
projection after each call is the filter's wire form (all bytes) and answers of
check_bit.  No expected value is computed here.
"""
from __future__ import annotations


def limbs_to_int(ls):
    return sum(int(v) << (16 * i) for i, v in enumerate(ls))


def int_to_limbs(n):
    out = []
    while True:
        out.append(n & 0xFFFF)
        n >>= 16
        if n == 0:
            return out


def sparse(fb):
    return [[k, v] for k, v in enumerate(fb) if v]


_SP = []


def _spendable_cls():
    if not _SP:
        from pycoin.symbols.btc import network
        _SP.append(network.tx.Spendable)
    return _SP[0]


def call(bf, op):
    """execute one abstract call on the BloomFilter bf"""
    name = op["op"]
    b = bytes(op["b"])
    if name == "add_item":
        bf.add_item(b)
    elif name == "add_hash160":
        bf.add_hash160(b)
    elif name == "add_address":
        from pycoin.encoding.b58 import b2a_hashed_base58
        # BIP37 inserts the hash160 whatever the address version byte is
        bf.add_address(b2a_hashed_base58(bytes([op.get("ver", 0)]) + b))
    elif name == "add_spendable":
        idx = int.from_bytes(bytes(op["i"]), "little")
        bf.add_spendable(_spendable_cls()(coin_value=1000, script=b"\x51", tx_hash=b, tx_out_index=idx))
    else:
        raise ValueError(name)


def run_history(size, nfuncs, tweak, ops, probes=None):
    """returns one projection per call: {"fb": bytes, "cb": {pos: bool}, "params_ok": bool} or {"exc": str}
    probes: per call, the positions on which to ask check_bit (None: none)"""
    from pycoin.bloomfilter import BloomFilter
    out = []
    try:
        bf = BloomFilter(size, hash_function_count=nfuncs, tweak=tweak)
    except Exception as e:
        return [{"exc": "BloomFilter(): %s: %s" % (type(e).__name__, e)}]
    for k, op in enumerate(ops):
        try:
            call(bf, op)
            fb, nf, tw = bf.filter_load_params()
            proj = {"fb": bytes(bf.filter_bytes),
                    "params_ok": bytes(fb) == bytes(bf.filter_bytes) and nf == nfuncs and tw == tweak and len(fb) == size}
            if probes is not None:
                proj["cb"] = {p: bool(bf.check_bit(p)) for p in probes[k]}
        except Exception as e:
            proj = {"exc": "%s: %s: %s" % (op["op"], type(e).__name__, str(e)[:80])}
            out.append(proj)
            break
        out.append(proj)
    return out


def murmur(data, seed):
    from pycoin.bloomfilter import murmur3
    try:
        r = murmur3(bytes(data), seed=seed)
    except Exception as e:
        return {"exc": "%s: %s" % (type(e).__name__, str(e)[:80])}
    if not isinstance(r, int) or isinstance(r, bool):
        return {"exc": "result is %s" % type(r).__name__}
    return {"h": r}
