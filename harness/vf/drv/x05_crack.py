"""X05 driver: pycoin.crack.ecdsa / pycoin.crack.bip32 on toy curves and on secp256k1.

(a) a reference of X05_Crack.tla Part 1 on big numbers (ref_outcome, ref_from_k).  It is replayed against every row TLC
    prints on the toy curves before it is used as a guard on secp256k1 (where the expectations themselves are the class
    outcomes TLC prints, concretised: the expected nonce / key of a case are the case's own k and d).
(b) drivers: judge one call against an outcome; toy BIP32 node classes with the HMAC standing in as an oracle
    (the left half of every HMAC-SHA512 is reduced mod M so that valid and invalid indices both occur; a table forces
    the left half of chosen calls to the value TLC enumerates).
(c) `python -m vf.drv.x05_crack prod <in.json> <out.json>`: the secp256k1 cases in a fresh process (PYCOIN_NATIVE is read
    at import).
"""
from __future__ import annotations

import hashlib
import hmac as _hmac
import json
import struct
import sys

from vf.ecutil import CURVES
from vf.refec import RefCurve

SECP_N = 0xFFFFFFFFFFFFFFFFFFFFFFFFFFFFFFFEBAAEDCE6AF48A03BBFD25E8CD0364141
SECP_P = 2 ** 256 - 2 ** 32 - 977
SECP_G = (0x79BE667EF9DCBBAC55A06295CE870B07029BFCDB2DCE28D959F2815B16F81798,
          0x483ADA7726A3C4655DA4FBFC0E1108A8FD17B448A68554199C47D08FFB10D4B8)


_TOY = {}


def toy_generator(name):
    """pycoin's generic Generator on a toy curve.  Its fixed-base multiplication (256 additions whatever the order) is replaced
    by a table look-up, the way pycoin's own OpenSSL / libsecp256k1 classes replace it: the helpers under test call it once per
    candidate, and the group law itself is C02's subject (the table comes from the reference curve C02 validates)."""
    if name in _TOY:
        return _TOY[name]
    from pycoin.ecdsa.Generator import Generator
    p, a, b, G, n = CURVES[name]
    ref = RefCurve(p, a, b, G, n)
    table, pt = [()], ()
    for _ in range(n - 1):
        pt = ref.add(pt, ref.G)
        table.append(pt)

    class TableGenerator(Generator):
        _x05_table = table

        def raw_mul(self, e):
            q = self._x05_table[e % n]
            return self._infinity if q == () else self.Point(*q)
    g = TableGenerator(p, a, b, G, n)
    if tuple(Generator.raw_mul(g, 5)) != tuple(g.raw_mul(5)) or tuple(Generator.raw_mul(g, n - 1)) != tuple(g.raw_mul(-1)):
        raise RuntimeError("table multiplication differs from the generator's own")
    _TOY[name] = g
    return g


def ref_curve(name):
    if name == "secp256k1":
        return RefCurve(SECP_P, 0, 7, SECP_G, SECP_N)
    return RefCurve(*CURVES[name])


# ------------------------------------------------------------------ (a) reference of Part 1
_XR_MEMO = {}


def ref_xr(ref, k):
    """x(kG) mod n (None for the neutral element); memoised per curve"""
    key = (ref.p, ref.n, k % ref.n)
    v = _XR_MEMO.get(key, 0)
    if v == 0:
        if ref.n == SECP_N:
            from vf.drv.bip32 import mul_g          # C09's table-driven reference multiplication (4x fewer additions)
            R = mul_g(k)
            R = () if R is None else R
        else:
            R = ref.mul(k, ref.G)
        v = _XR_MEMO[key] = None if R == () else R[0] % ref.n
    return v


def ref_sig(ref, d, z, k):
    r = ref_xr(ref, k)
    return r, pow(k, -1, ref.n) * ((z % ref.n) + r * d) % ref.n


def ref_cands(ref, r, s1, z1, s2, z2):
    """Cands of X05_Crack.tla: full-rank sign patterns, k # 0, r = x(kG) mod n"""
    n = ref.n
    out = set()
    for f1 in (1, -1):
        for f2 in (1, -1):
            den = (f1 * s1 - f2 * s2) % n
            if den == 0:
                continue
            k = (z1 - z2) * pow(den, -1, n) % n
            if k != 0 and ref_xr(ref, k) == r % n:
                out.add((k, (f1 * s1 * k - z1) * pow(r, -1, n) % n))
    return out


def ref_outcome(ref, r1, s1, z1, r2, s2, z2):
    n = ref.n
    if r1 != r2:
        return 0, set()
    den = (s1 - s2) % n
    must = 0
    if den:
        k = (z1 - z2) * pow(den, -1, n) % n
        if k != 0 and ref_xr(ref, k) == r1 % n:
            must = k
    return must, {c[0] for c in ref_cands(ref, r1, s1, z1 % n, s2, z2 % n)}


def ref_from_k(n, r, s, z, k):
    return (s * k - z) * pow(r, -1, n) % n


# ------------------------------------------------------------------ (b) judging one call
def call(f, *a):
    try:
        return ("ret", f(*a))
    except Exception as e:        # noqa: any exception is a refusal (R1); a MemoryError etc. would also land here
        return ("exc", type(e).__name__)


def judge_k(got, must, may):
    """-> None (fine) or (expected-class, got-class)"""
    if must:
        if got == ("ret", must):
            return None
        return "the-shared-nonce", ("refusal" if got[0] == "exc" else "another-number")
    if got[0] == "exc" or (got[0] == "ret" and got[1] in may):
        return None
    # (the allowed answers: a nonce consistent with a low-s reading, if there is one, or a refusal)
    return "not-this-number", "a-number"


ORIGIN = {"same": "same-key-same-nonce", "otherkey": "other-key-same-nonce", "othernonce": "same-key-other-nonce", "copy": "copied-signature"}


def input_class(origin, same_digest, e1, e2):
    """class-level description of how a pair of signatures came about (the low-s pattern matters only where a key is determined)"""
    if same_digest:
        return origin + "|same-digest"
    if origin == "same-key-same-nonce":
        return origin + "|" + ("as-signed" if (e1, e2) == (1, 1) else "both-normalised" if (e1, e2) == (-1, -1) else "one-normalised")
    return origin


def describe_number(xr, n, r, v):
    """what kind of number came back: does it even reproduce r?"""
    if not isinstance(v, int):
        return "not-an-int"
    if v % n == 0:
        return "is-zero"
    return "reproduces-r" if xr(v % n) == r % n else "does-not-reproduce-r"


# ------------------------------------------------------------------ toy BIP32 with the HMAC as an oracle
class HmacOracle:
    """stands in for hmac.HMAC / hmac.new / hmac.digest while active.  digest = (IL mod M) as 32 bytes || IR of the real
    HMAC-SHA512; `force` maps (key, msg) to the IL to use instead.  Every call is logged."""

    def __init__(self, M, force=None):
        self.M = M
        self.force = dict(force or {})
        self.calls = []
        self._saved = None

    def value(self, key, msg):
        real = _REAL_HMAC(key, msg, hashlib.sha512).digest()
        il = self.force.get((bytes(key), bytes(msg)))
        if il is None:
            il = int.from_bytes(real[:32], "big") % self.M
        out = il.to_bytes(32, "big") + real[32:]
        self.calls.append((bytes(key), bytes(msg), out))
        return out

    def __enter__(self):
        oracle = self

        class FakeHMAC:
            def __init__(self, key, msg=None, digestmod=""):
                self._key, self._msg = bytes(key), bytes(msg or b"")

            def update(self, m):
                self._msg += bytes(m)

            def digest(self):
                return oracle.value(self._key, self._msg)

            def hexdigest(self):
                return self.digest().hex()

        self._saved = (_hmac.HMAC, _hmac.new, _hmac.digest)
        _hmac.HMAC = FakeHMAC
        _hmac.new = lambda key, msg=None, digestmod="": FakeHMAC(key, msg, digestmod)
        _hmac.digest = lambda key, msg, digest: oracle.value(key, msg)
        return self

    def __exit__(self, *a):
        _hmac.HMAC, _hmac.new, _hmac.digest = self._saved
        return False


_REAL_HMAC = _hmac.HMAC


def toy_node_class(gen, netsym="BTC"):
    from pycoin.key.BIP32Node import BIP32Node
    from pycoin.networks.registry import network_for_netcode
    return BIP32Node.make_subclass("TOY", network_for_netcode(netsym), gen)


def ser32(i):
    return struct.pack(">L", i)


def sec_of(pair):
    return bytes([2 + (pair[1] & 1)]) + int(pair[0]).to_bytes(32, "big")


# ------------------------------------------------------------------ (c) secp256k1 cases in a fresh process
def residues(seed):
    import random
    rnd = random.Random(seed * 7919 + 5)
    n = SECP_N
    h = (n - 1) // 2
    v = {"0": 0, "1": 1, "2": 2, "n-1": n - 1, "n-2": n - 2, "h": h, "h+1": h + 1, "top": (1 << 256) - 1 - n}
    for nm in ("ra", "rb", "rc", "za", "zb"):
        while True:
            x = rnd.randrange(3, n - 2)
            if x not in v.values():
                v[nm] = x
                break
    return v


def zval(res, z):
    return res[z["res"]] + z["lift"] * SECP_N


def _flip(s, e):
    return s if e == 1 else (SECP_N - s) % SECP_N


def prod_worker(job):
    """job: {"seed", "items": [sigcases records]} -> {"fails": [[key, what, detail]], "n": calls, "classes": [...]}"""
    from pycoin.ecdsa.secp256k1 import secp256k1_generator as g
    from pycoin.crack.ecdsa import crack_k_from_sigs, crack_secret_exponent_from_k
    import os
    backend = "secp256k1/" + (os.environ.get("PYCOIN_NATIVE") or "default")
    ref = ref_curve("secp256k1")
    n = SECP_N
    res = residues(job["seed"])
    fails, ncalls, classes = [], 0, set()
    sigcache = {}

    def sign(d, z, k):
        key = (d, z, k)
        if key not in sigcache:
            got = call(g.sign, d, z, lambda *a: k)
            want = ref_sig(ref, d, z, k)
            if got != ("ret", want):
                fails.append(["X05|sign|%s|forced nonce|differs from SigOf" % backend,
                              "sign(d, z, gen_k -> k) is not (x(kG) mod n, (z + r d)/k): d=%x z=%x k=%x got %r" % (d, z, k, got), None])
            sigcache[key] = want        # the crack inputs are the spec's signatures whatever the library's sign returned
        return sigcache[key]

    def xr(k):
        return ref_xr(ref, k)

    # the zero denominator itself: "n where a * n == 1 (mod order)" does not exist for a = 0 (mod order)
    for nm, a in (("0", 0), ("n", n), ("2n", 2 * n)):
        got = call(g.inverse, a)
        ncalls += 1
        classes.add("inverse|" + nm)
        if got[0] != "exc":
            fails.append(["X05|inverse|%s|zero-mod-n|expected=refusal|got=a-number" % backend,
                          "generator.inverse(%s) returned %r: no number is the inverse of 0 modulo the order" % (nm, got[1]), None])
    for item in job["items"]:
        d, k = res[item["d"]], res[item["kk"]]
        for c in item["cases"]:
            z1, z2 = zval(res, c["z1"]), zval(res, c["z2"])
            r, s1 = sign(d, z1, k)
            sec = c["second"]
            if sec == "same":
                r2, s2 = sign(d, z2, k)
            elif sec == "otherkey":
                r2, s2 = sign(res[c["d2"]], z2, k)
            elif sec == "othernonce":
                r2, s2 = sign(d, z2, res[c["k2"]])
            else:
                r2, s2 = r, s1
            s1o, s2o = _flip(s1, c["e1"]), _flip(s2, c["e2"])
            out = c["out"]
            if out["kind"] == "must":
                must, may = (out["sign"] * k) % n, {k, n - k}
            elif out["kind"] == "may":
                must, may = 0, {k, n - k}
            else:
                must, may = 0, set()
            # guard (R2): the class analysis must be what the computed analysis gives on these numbers
            rm, ry = ref_outcome(ref, r, s1o, z1, r2, s2o, z2)
            if (rm, ry) != (must, may):
                return {"machinery": "class outcome %r differs from the computed outcome (%x, %r) - a 256-bit coincidence?" % (out, rm, ry)}
            cls = input_class(ORIGIN[sec], c["z1"]["res"] == c["z2"]["res"], c["e1"], c["e2"])
            classes.add("crack_k|%s|%d%d|%s" % (cls, c["e1"], c["e2"], out["kind"]))
            got = call(crack_k_from_sigs, g, (r, s1o), z1, (r2, s2o), z2)
            ncalls += 1
            j = judge_k(got, must, may)
            if j:
                kind = j[1] if got[0] == "exc" else "a-number-that-" + describe_number(xr, n, r, got[1])
                fails.append(["X05|crack_k|%s|%s|expected=%s|got=%s" % (backend, cls, j[0], kind),
                              "crack_k_from_sigs: d=%s k=%s z1=%s z2=%s pattern (%d,%d): %r" % (
                                  item["d"], item["kk"], c["z1"], c["z2"], c["e1"], c["e2"], got if got[0] == "exc" else hex(got[1])),
                              {"d": hex(d), "k": hex(k), "z1": hex(z1), "z2": hex(z2), "sig1": [hex(r), hex(s1o)], "sig2": [hex(r2), hex(s2o)]}])
            elif must and got[0] == "ret":
                # the key from the recovered nonce and either signature
                for (ss, zz) in ((s1o, z1), (s2o, z2)):
                    gd = call(crack_secret_exponent_from_k, g, zz, (r, ss), got[1])
                    ncalls += 1
                    if gd != ("ret", d):
                        fails.append(["X05|from_k|%s|after crack_k|expected=the-key|got=%s" % (backend, "refusal" if gd[0] == "exc" else "another-number"),
                                      "key from the recovered nonce: %r" % (gd,), None])
        for c in item["fromk"]:
            z = zval(res, c["z"])
            r, s = sign(d, z, k)
            so, ko = _flip(s, c["e"]), (k if c["e"] == 1 else n - k)
            rf = {"r": r, "r+n": r + n, "0": 0, "n": n}[c["rform"]]
            got = call(crack_secret_exponent_from_k, g, z, (rf, so), ko)
            ncalls += 1
            classes.add("from_k|r-form=%s|%s" % (c["rform"], c["out"]))
            ok = (got == ("ret", d)) if c["out"] == "key" else (got[0] == "exc" or got == ("ret", d)) if c["out"] == "key-or-refuse" \
                else got[0] == "exc"
            if not ok:
                fails.append(["X05|from_k|%s|r-form=%s|expected=%s|got=%s" % (
                    backend, c["rform"], c["out"], "refusal" if got[0] == "exc" else "a-number" if c["out"] == "refuse" else "another-number"),
                    "crack_secret_exponent_from_k(z, (%s, s), k): %r" % (c["rform"], got if got[0] == "exc" else hex(got[1])), None])
    return {"fails": fails, "n": ncalls, "classes": sorted(classes), "backend": backend}


def main(argv):
    if argv[0] == "prod":
        job = json.load(open(argv[1]))
        out = prod_worker(job)
        json.dump(out, open(argv[2], "w"))
        return 0
    return 2


if __name__ == "__main__":
    sys.exit(main(sys.argv[1:]))
