"""X06 (3): driver and projection for the offline configuration part of pycoin.services: environment variables,
provider descriptor strings, per-thread default providers, and the TxDb that get_tx_db() builds from them.
No provider is ever called: lists set by a thread hold fake provider objects, lists parsed from the environment
hold real provider objects that are only looked at (class, which methods they offer).
Expected answers come from spec/X06_MC_Config.tla.
"""
from __future__ import annotations

import os
import queue
import threading
import warnings

BASE = "/tmp/x06"
WORD = {"bci": "blockchain.info", "bcy": "blockcypher.com", "bex": "blockexplorer.com", "cso": "chain.so",
        "ins": "insight:https://insight.example.invalid/api", "btg": "btgexp.com",
        "junk": "no-such-provider.example", "junk2": "ftp://nowhere"}
UNWORD = {v: k for k, v in WORD.items()}
ENVVARS = ("PYCOIN_CACHE_DIR", "PYCOIN_TX_DB_DIRS", "PYCOIN_BTC_PROVIDERS", "PYCOIN_XTN_PROVIDERS")


def seq(x):
    return [] if isinstance(x, dict) else list(x)


class Fake(object):
    """a provider that is never called"""

    def __init__(self, rec, calls):
        self.rec = {"id": rec["id"], "kind": "fake", "tx": bool(rec["tx"]), "sp": bool(rec["sp"])}
        if rec["tx"]:
            def tx_for_tx_hash(h, _id=rec["id"]):
                calls.append(_id)
                return None
            self.tx_for_tx_hash = tx_for_tx_hash
        if rec["sp"]:
            self.spendables_for_address = lambda a: []


def project_provider(p):
    if isinstance(p, Fake):
        return dict(p.rec)
    return {"id": 0, "kind": type(p).__name__, "tx": callable(getattr(p, "tx_for_tx_hash", None)),
            "sp": callable(getattr(p, "spendables_for_address", None))}


class Worker(threading.Thread):
    """a real thread executing calls one at a time (the default providers are thread-local)"""

    def __init__(self):
        threading.Thread.__init__(self)
        self.daemon = True
        self.q = queue.Queue()
        self.r = queue.Queue()
        self.start()

    def run(self):
        while True:
            f = self.q.get()
            if f is None:
                return
            try:
                self.r.put(("ok", f()))
            except BaseException as e:                  # noqa
                self.r.put(("raise", e))

    def do(self, f):
        self.q.put(f)
        k, v = self.r.get()
        if k == "raise":
            raise v
        return v

    def stop(self):
        self.q.put(None)


class Session(object):
    def __init__(self, tag, salt=0, threads=("T1", "T2")):
        self.root = os.path.join(BASE, tag)
        os.makedirs(self.root, exist_ok=True)
        self.salt = salt
        self.k = 0
        for v in ENVVARS:
            os.environ.pop(v, None)
        self.th = {t: Worker() for t in threads}
        self.set_lists = {}        # (th, net) -> the list object handed to set_default_providers_for_netcode
        self.calls = []
        from pycoin.services import providers
        self.P = providers

    def close(self):
        for w in self.th.values():
            w.stop()
        for v in ENVVARS:
            os.environ.pop(v, None)

    def _blank(self):
        self.k += 1
        return (" ", "  ", "\t", " \n ")[(self.salt + self.k) % 4]

    def path(self, piece):
        return os.path.join(self.root, piece)

    # ---- steps
    def setcache(self, c):
        if c == "":
            # (unset; a variable set to the empty string also yields a store without cache directory, but then
            #  message_about_tx_cache_env() keeps quiet - noted in ext/X06.md, not judged)
            os.environ.pop("PYCOIN_CACHE_DIR", None)
        else:
            os.environ["PYCOIN_CACHE_DIR"] = self.path(c)

    def setdirs(self, dl):
        os.environ["PYCOIN_TX_DB_DIRS"] = ":".join(self.path(p) if p else "" for p in dl)

    def setprov(self, net, ws):
        pad = self._blank() if (self.salt + self.k) % 3 == 0 else ""
        os.environ["PYCOIN_%s_PROVIDERS" % net] = pad + self._blank().join(WORD[w] for w in ws) + pad

    def setdefault(self, th, net, lst):
        objs = [Fake(r, self.calls) for r in lst]
        self.set_lists[(th, net)] = objs
        self.th[th].do(lambda: self.P.set_default_providers_for_netcode(net, objs))

    def getdefault(self, th, net):
        def f():
            with warnings.catch_warnings(record=True) as ws:
                warnings.simplefilter("always")
                got = self.P.get_default_providers_for_netcode(net)
            return got, [str(w.message) for w in ws]
        got, ws = self.th[th].do(f)
        warned = len(ws)                                  # (how the warning is worded is not part of the rule)
        mine = self.set_lists.get((th, net))
        same = mine is not None and len(got) == len(mine) and all(a is b for a, b in zip(got, mine))
        return {"lst": [project_provider(p) for p in got], "same": same, "warned": warned}

    def makedb(self, th, net, univ_tx=None):
        """build the store in thread th and look at its layers through public names only"""
        def f():
            with warnings.catch_warnings():
                warnings.simplefilter("ignore")
                db = self.P.get_tx_db(net)
                return (db, self.P.message_about_tx_cache_env(), self.P.message_about_tx_for_tx_hash_env(net),
                        self.P.message_about_spendables_for_address_env(net))
        db, m_cache, m_tx, m_sp = self.th[th].do(f)
        cache = os.environ.get("PYCOIN_CACHE_DIR") or ""
        wdir = os.path.join(cache, "txs") if cache else None
        ro = [p for p in db.read_only_paths if p != wdir] if wdir else list(db.read_only_paths)
        lookups = []
        for m in db.lookup_methods:
            owner = getattr(m, "__self__", None)
            if owner is None:                          # a fake's lookup is a plain function: find its owner
                owner = next((o for o in sum(self.set_lists.values(), []) if getattr(o, "tx_for_tx_hash", None) is m), None)
            lookups.append(project_provider(owner) if owner is not None else {"id": -1, "kind": "?", "tx": True, "sp": False})
        store = {"nro": len(ro), "w": db.writable_cache_path is not None and db.writable_cache_path != "",
                 "nl": len(db.lookup_methods),
                 "ro": [os.path.relpath(p, self.root) if p.startswith(self.root) else p for p in ro], "lookups": lookups}
        out = {"store": store, "msg_cache": m_cache is not None, "msg_tx": m_tx is not None, "msg_sp": m_sp is not None,
               "wdir_ok": (db.writable_cache_path or None) == wdir, "db": db}
        return out


def run_behaviour(rec, tag, salt=0, probe=None):
    """-> None or (key, what, detail)"""
    ses = Session(tag, salt)
    hist = []
    try:
        for l in seq(rec["acts"]):
            op = l["op"]
            hist.append(l)
            if op == "setcache":
                ses.setcache(l["c"])
            elif op == "setdirs":
                ses.setdirs(seq(l["dl"]))
            elif op == "setprov":
                ses.setprov(l["net"], seq(l["ws"]))
            elif op == "setdefault":
                ses.setdefault(l["th"], l["net"], seq(l["lst"]))
            elif op == "getdefault":
                try:
                    o = ses.getdefault(l["th"], l["net"])
                except Exception as e:                  # noqa
                    return ("X06|config|get_default_providers|raises=%s" % type(e).__name__, "get_default_providers_for_netcode raised", {"history": hist})
                want = {"lst": seq(l["lst"]), "same": l["same"], "warned": len(seq(l["warned"]))}
                if o != want:
                    diff = sorted(k for k in want if want[k] != o[k])
                    return ("X06|config|get_default_providers|%s" % ",".join(diff), "the default provider list differs from the rule",
                            {"history": hist, "want": want, "got": o})
            elif op == "makedb":
                try:
                    o = ses.makedb(l["th"], l["net"])
                except Exception as e:                  # noqa
                    return ("X06|config|get_tx_db|raises=%s" % type(e).__name__, "get_tx_db raised", {"history": hist})
                db = o.pop("db")
                st = l["store"]
                want = {"store": {"nro": st["nro"], "w": st["w"], "nl": st["nl"], "ro": seq(st["ro"]), "lookups": seq(st["lookups"])},
                        "msg_cache": l["msg_cache"], "msg_tx": l["msg_tx"], "msg_sp": l["msg_sp"], "wdir_ok": True}
                if o != want:
                    diff = sorted(k for k in want if want[k] != o[k])
                    if "store" in diff:
                        diff += ["store." + k for k in want["store"] if want["store"][k] != o["store"][k]]
                    return ("X06|config|get_tx_db|%s" % ",".join(diff), "the store built from the configuration differs from the rule",
                            {"history": hist, "want": want, "got": o})
                if probe is not None:
                    bad = probe(ses, db, st)
                    if bad:
                        return (bad, "the store built from the configuration does not behave like the layered store of its shape", {"history": hist})
            else:
                raise AssertionError(op)
        return None
    finally:
        ses.close()
