"""X05 (c) driver: pycoin.convention (unit conversion), pycoin.convention.tx_fee, create_tx(fee="standard").

Concretises the digit sequences / transaction shapes printed by X05_MC_Units into texts, Decimals, Tx objects; executes
pycoin; projects results back to exact texts.  Nothing here decides what is right.
"""
from __future__ import annotations

import decimal
import hashlib
from fractions import Fraction

from pycoin import convention
from pycoin.convention import tx_fee
from pycoin.coins import tx_utils as core_tx_utils
from pycoin.symbols.btc import network

Tx = network.tx
TO_SAT = {8: convention.btc_to_satoshi, 5: convention.mbtc_to_satoshi}
FROM_SAT = {8: convention.satoshi_to_btc, 5: convention.satoshi_to_mbtc}


def call(f, *a):
    try:
        return ("ret", f(*a))
    except Exception as e:          # noqa
        return ("exc", type(e).__name__)


def text_of(neg, int_digits, frac_digits, point="auto"):
    s = ("-" if neg else "") + "".join(int_digits)
    if frac_digits or point == "always":
        s += "." + "".join(frac_digits)
    return s


def exact_fraction(v):
    """the exact value of what a conversion returned (Decimal, int, float, Fraction) or None"""
    if isinstance(v, bool):
        return None
    if isinstance(v, decimal.Decimal):
        if not v.is_finite():
            return None
        return Fraction(v)
    if isinstance(v, (int, float, Fraction)):
        return Fraction(v)
    return None


def count_of(c):
    """{"neg", "mag": chars} -> int"""
    return (-1 if c["neg"] else 1) * int("".join(c["mag"]))


def float_digits(x):
    """the exact decimal expansion of a finite float: (neg, int digits, frac digits)"""
    fr = Fraction(abs(x))
    neg = x < 0 or (x == 0 and str(x).startswith("-"))
    ip = fr.numerator // fr.denominator
    rest = fr - ip
    frac = []
    while rest:
        rest *= 10
        d = rest.numerator // rest.denominator
        frac.append(d)
        rest -= d
    return neg, [int(ch) for ch in str(ip)], frac


# ------------------------------------------------------------------ transaction shapes
def _h160(i):
    return hashlib.sha256(b"x05-h160-%d" % i).digest()[:20]


def script_of_len(n, salt=0):
    """an output script of the given length: the standard templates where one has that length, else filler"""
    if n == 25:
        return network.contract.for_p2pkh(_h160(salt))
    if n == 23:
        return network.contract.for_p2sh(_h160(salt))
    if n == 22:
        return network.contract.for_p2pkh_wit(_h160(salt))
    if n == 34:
        return network.contract.for_p2sh_wit(hashlib.sha256(b"x05-%d" % salt).digest())
    return bytes([0x6a]) + bytes((salt + j) & 0xff for j in range(n - 1)) if n else b""


def address_of_len(n, salt=0):
    if n == 25:
        return network.address.for_p2pkh(_h160(salt))
    if n == 23:
        return network.address.for_p2sh(_h160(salt))
    if n == 22:
        return network.address.for_p2pkh_wit(_h160(salt))
    if n == 34:
        return network.address.for_p2sh_wit(hashlib.sha256(b"x05-%d" % salt).digest())
    raise ValueError("no address kind with a %d-byte script" % n)


def shape_tx(ins, outs):
    """ins: [{"script": L, "wit": [lengths]}], outs: [script lengths] -> Tx"""
    txs_in = []
    for i, x in enumerate(ins):
        ti = Tx.TxIn(bytes([7]) * 32, i + 1, bytes([0x51]) * x["script"], 0xffffffff)
        if x["wit"]:
            ti.witness = [bytes([2]) * w for w in x["wit"]]
        txs_in.append(ti)
    txs_out = [Tx.TxOut(0, script_of_len(n, j) if n in (22, 23, 25, 34) else bytes([0x6a]) * n) for j, n in enumerate(outs)]
    return Tx(1, txs_in, txs_out, 0)


def std_build(case, entry):
    """one "standard"-fee request -> ({"exc": name} | {"outs": [...], "fee", "size", "tin", "tout"})"""
    sps = [Tx.Spendable(s["amt"], script_of_len(25, 100 + s["src"]), hashlib.sha256(b"x05-src-%d" % s["src"]).digest(), s["idx"])
           for s in case["sps"]]
    pays = []
    for p, n in zip(case["pays"], case["scripts"]):
        a = address_of_len(n, p["to"])
        pays.append(a if p["amt"] == 0 and p["to"] % 2 else (a, p["amt"]))
    try:
        if entry == "network":
            tx = network.tx_utils.create_tx(sps, pays, fee="standard")
        elif entry == "core":
            tx = core_tx_utils.create_tx(network, sps, pays)            # "standard" is the default
        else:
            tx = Tx(1, [s.tx_in() for s in sps], [Tx.TxOut(p["amt"], network.contract.for_address(address_of_len(n, p["to"])))
                                                    for p, n in zip(case["pays"], case["scripts"])])
            tx.set_unspents(sps)
            core_tx_utils.distribute_from_split_pool(tx, "standard")
    except Exception as e:      # noqa
        return {"exc": type(e).__name__}
    return {"outs": [o.coin_value for o in tx.txs_out], "scripts": [len(o.script) for o in tx.txs_out], "fee": tx.fee(),
            "size": len(tx.as_bin()), "tin": tx.total_in(), "tout": tx.total_out(),
            "rec": tx_fee.recommended_fee_for_tx(tx)}
