"""Drivers, oracles and concretization for C03 (script evaluation).

* parse_core_script: Bitcoin Core's test-script text format (core_read.cpp ParseScript)
* hash / signature oracles the TLA+ spec asks for (status "need")
* run_spend / run_eval: execute a case on pycoin and project verdict (+ final stack)
"""
from __future__ import annotations

import hashlib
import json
import os
import re

OPNAMES = {
    "OP_0": 0, "OP_PUSHDATA1": 76, "OP_PUSHDATA2": 77, "OP_PUSHDATA4": 78, "OP_1NEGATE": 79, "OP_RESERVED": 80,
    "OP_NOP": 97, "OP_VER": 98, "OP_IF": 99, "OP_NOTIF": 100, "OP_VERIF": 101, "OP_VERNOTIF": 102, "OP_ELSE": 103,
    "OP_ENDIF": 104, "OP_VERIFY": 105, "OP_RETURN": 106, "OP_TOALTSTACK": 107, "OP_FROMALTSTACK": 108,
    "OP_2DROP": 109, "OP_2DUP": 110, "OP_3DUP": 111, "OP_2OVER": 112, "OP_2ROT": 113, "OP_2SWAP": 114,
    "OP_IFDUP": 115, "OP_DEPTH": 116, "OP_DROP": 117, "OP_DUP": 118, "OP_NIP": 119, "OP_OVER": 120, "OP_PICK": 121,
    "OP_ROLL": 122, "OP_ROT": 123, "OP_SWAP": 124, "OP_TUCK": 125, "OP_CAT": 126, "OP_SUBSTR": 127, "OP_LEFT": 128,
    "OP_RIGHT": 129, "OP_SIZE": 130, "OP_INVERT": 131, "OP_AND": 132, "OP_OR": 133, "OP_XOR": 134, "OP_EQUAL": 135,
    "OP_EQUALVERIFY": 136, "OP_RESERVED1": 137, "OP_RESERVED2": 138, "OP_1ADD": 139, "OP_1SUB": 140, "OP_2MUL": 141,
    "OP_2DIV": 142, "OP_NEGATE": 143, "OP_ABS": 144, "OP_NOT": 145, "OP_0NOTEQUAL": 146, "OP_ADD": 147, "OP_SUB": 148,
    "OP_MUL": 149, "OP_DIV": 150, "OP_MOD": 151, "OP_LSHIFT": 152, "OP_RSHIFT": 153, "OP_BOOLAND": 154,
    "OP_BOOLOR": 155, "OP_NUMEQUAL": 156, "OP_NUMEQUALVERIFY": 157, "OP_NUMNOTEQUAL": 158, "OP_LESSTHAN": 159,
    "OP_GREATERTHAN": 160, "OP_LESSTHANOREQUAL": 161, "OP_GREATERTHANOREQUAL": 162, "OP_MIN": 163, "OP_MAX": 164,
    "OP_WITHIN": 165, "OP_RIPEMD160": 166, "OP_SHA1": 167, "OP_SHA256": 168, "OP_HASH160": 169, "OP_HASH256": 170,
    "OP_CODESEPARATOR": 171, "OP_CHECKSIG": 172, "OP_CHECKSIGVERIFY": 173, "OP_CHECKMULTISIG": 174,
    "OP_CHECKMULTISIGVERIFY": 175, "OP_NOP1": 176, "OP_CHECKLOCKTIMEVERIFY": 177, "OP_NOP2": 177,
    "OP_CHECKSEQUENCEVERIFY": 178, "OP_NOP3": 178, "OP_NOP4": 179, "OP_NOP5": 180, "OP_NOP6": 181, "OP_NOP7": 182,
    "OP_NOP8": 183, "OP_NOP9": 184, "OP_NOP10": 185, "OP_INVALIDOPCODE": 255,
}
for _i in range(1, 17):
    OPNAMES["OP_%d" % _i] = 80 + _i
OPNAMES["OP_TRUE"] = 81
OPNAMES["OP_FALSE"] = 0

ALL_FLAGS = ["P2SH", "STRICTENC", "DERSIG", "LOW_S", "NULLDUMMY", "SIGPUSHONLY", "MINIMALDATA",
             "DISCOURAGE_UPGRADABLE_NOPS", "CLEANSTACK", "CHECKLOCKTIMEVERIFY", "CHECKSEQUENCEVERIFY", "WITNESS",
             "DISCOURAGE_UPGRADABLE_WITNESS_PROGRAM", "MINIMALIF", "NULLFAIL", "WITNESS_PUBKEYTYPE"]


def scriptnum(n):
    if n == 0:
        return b""
    neg = n < 0
    a = abs(n)
    out = bytearray()
    while a:
        out.append(a & 0xFF)
        a >>= 8
    if out[-1] & 0x80:
        out.append(0x80 if neg else 0)
    elif neg:
        out[-1] |= 0x80
    return bytes(out)


def push_enc(data):
    """`CScript() << vector`: never minimalised to OP_n"""
    n = len(data)
    if n < 76:
        return bytes([n]) + data
    if n <= 0xFF:
        return bytes([76, n]) + data
    if n <= 0xFFFF:
        return bytes([77, n & 0xFF, n >> 8]) + data
    return bytes([78]) + n.to_bytes(4, "little") + data


def push_int(n):
    """CScript::push_int64"""
    if n == -1 or 1 <= n <= 16:
        return bytes([n + 80])
    if n == 0:
        return b"\x00"
    return push_enc(scriptnum(n))


def parse_core_script(text):
    out = bytearray()
    for w in text.split():
        if re.fullmatch(r"-?[0-9]+", w):
            out += push_int(int(w))
        elif w.startswith("0x") and len(w) > 2:
            out += bytes.fromhex(w[2:])
        elif len(w) >= 2 and w[0] == "'" and w[-1] == "'":
            out += push_enc(w[1:-1].encode())
        elif w in OPNAMES and (w == "OP_RESERVED" or OPNAMES[w] >= 97):
            out.append(OPNAMES[w])
        elif "OP_" + w in OPNAMES and ("OP_" + w == "OP_RESERVED" or OPNAMES["OP_" + w] >= 97):
            out.append(OPNAMES["OP_" + w])
        else:
            raise ValueError("script parse error: %r" % w)
    return bytes(out)


# --------------------------------------------------------------------------- oracles

def hash_oracle(op, data):
    if op == 166:
        return hashlib.new("ripemd160", data).digest()
    if op == 167:
        return hashlib.sha1(data).digest()
    if op == 168:
        return hashlib.sha256(data).digest()
    if op == 169:
        return hashlib.new("ripemd160", hashlib.sha256(data).digest()).digest()
    if op == 170:
        return hashlib.sha256(hashlib.sha256(data).digest()).digest()
    raise ValueError(op)


P = 0xFFFFFFFFFFFFFFFFFFFFFFFFFFFFFFFFFFFFFFFFFFFFFFFFFFFFFFFEFFFFFC2F
N = 0xFFFFFFFFFFFFFFFFFFFFFFFFFFFFFFFEBAAEDCE6AF48A03BBFD25E8CD0364141


def parse_pubkey_ref(k):
    """CPubKey + secp256k1_ec_pubkey_parse; returns (x, y) or None"""
    if len(k) == 33 and k[0] in (2, 3):
        x = int.from_bytes(k[1:], "big")
        if x >= P:
            return None
        y2 = (pow(x, 3, P) + 7) % P
        y = pow(y2, (P + 1) // 4, P)
        if y * y % P != y2:
            return None
        if (y & 1) != (k[0] & 1):
            y = P - y
        return (x, y)
    if len(k) == 65 and k[0] in (4, 6, 7):
        x = int.from_bytes(k[1:33], "big")
        y = int.from_bytes(k[33:], "big")
        if x >= P or y >= P:
            return None
        if (y * y - pow(x, 3, P) - 7) % P != 0:
            return None
        if k[0] in (6, 7) and (y & 1) != (k[0] & 1):
            return None
        return (x, y)
    return None


def parse_der_lax(sig):
    """ecdsa_signature_parse_der_lax (Core pubkey.cpp). Returns (r, s) - (0, 0) on overflow - or None."""
    ln = len(sig)
    pos = 0
    if pos == ln or sig[pos] != 0x30:
        return None
    pos += 1
    if pos == ln:
        return None
    lenbyte = sig[pos]
    pos += 1
    if lenbyte & 0x80:
        lenbyte -= 0x80
        if lenbyte > ln - pos:
            return None
        pos += lenbyte
    vals = []
    for _ in range(2):
        if pos == ln or sig[pos] != 0x02:
            return None
        pos += 1
        if pos == ln:
            return None
        lenbyte = sig[pos]
        pos += 1
        if lenbyte & 0x80:
            lenbyte -= 0x80
            if lenbyte > ln - pos:
                return None
            while lenbyte > 0 and sig[pos] == 0:
                pos += 1
                lenbyte -= 1
            if lenbyte >= 8:
                return None
            xlen = 0
            while lenbyte > 0:
                xlen = (xlen << 8) + sig[pos]
                pos += 1
                lenbyte -= 1
        else:
            xlen = lenbyte
        if xlen > ln - pos:
            return None
        vals.append(sig[pos:pos + xlen])
        pos += xlen
    out = []
    overflow = False
    for v in vals:
        v = v.lstrip(b"\x00")
        if len(v) > 32:
            overflow = True
        out.append(int.from_bytes(v, "big") if v else 0)
    if not overflow and (out[0] >= N or out[1] >= N):
        overflow = True
    if overflow:
        return (0, 0)
    return tuple(out)


def ecdsa_verify_ref(pub, z, r, s):
    from pycoin.ecdsa.secp256k1 import secp256k1_generator as g
    if not (1 <= r < N and 1 <= s < N):
        return False
    try:
        return bool(g.verify(pub, z, (r, s)))
    except TypeError:
        # u1*G + u2*Q is the point at infinity
        return False


def sig_oracle_fixed(sig, key, z):
    """does blob `sig` (with hash-type byte) verify for `key` over the pinned digest z"""
    pub = parse_pubkey_ref(key)
    if pub is None or not sig:
        return False
    rs = parse_der_lax(sig[:-1])
    if rs is None:
        return False
    r, s = rs
    if s > N // 2:
        s = N - s
    return ecdsa_verify_ref(pub, z, r, s)


def sig_oracle_tx(sig, key, code, sv, tx, idx=0):
    pub = parse_pubkey_ref(key)
    if pub is None or not sig:
        return False
    rs = parse_der_lax(sig[:-1])
    if rs is None:
        return False
    r, s = rs
    if s > N // 2:
        s = N - s
    ht = sig[-1]
    from pycoin.symbols.btc import network
    sc = network.tx.SolutionChecker(tx)
    before = tx.as_bin()
    if sv == "wit":
        z = sc._signature_for_hash_type_segwit(code, idx, ht)
    else:
        z = sc._signature_hash(code, idx, ht)
    assert tx.as_bin() == before
    return ecdsa_verify_ref(pub, z, r, s)


# --------------------------------------------------------------------------- pycoin drivers

class Hang(Exception):
    pass


class time_limit(object):
    """a pycoin call that does not return within `secs` is reported as an exception ("hang"), so a change
    that makes the interpreter loop ends as a violation of the case, not as a stuck check"""

    def __init__(self, secs=30):
        self.secs = secs

    def _alarm(self, *a):
        raise Hang("no result after %s s" % self.secs)

    def __enter__(self):
        import signal
        import threading
        self.on = threading.current_thread() is threading.main_thread()
        if self.on:
            self.old = signal.signal(signal.SIGALRM, self._alarm)
            signal.setitimer(signal.ITIMER_REAL, self.secs)

    def __exit__(self, *a):
        if self.on:
            import signal
            signal.setitimer(signal.ITIMER_REAL, 0)
            signal.signal(signal.SIGALRM, self.old)
        return False


def _flagbits(names):
    from pycoin.satoshi import flags as F
    v = 0
    for f in names:
        v |= getattr(F, "VERIFY_" + f)
    return v


def build_txs(script_sig, script_pk, witness, amount=0, version=1, locktime=0, sequence=0xFFFFFFFF):
    from pycoin.symbols.btc import network
    Tx = network.tx
    credit = Tx(1, [Tx.TxIn(b"\0" * 32, 4294967295, b"\0\0", sequence=4294967295)], [Tx.TxOut(amount, script_pk)])
    spend = Tx(version, [Tx.TxIn(credit.hash(), 0, script_sig, sequence=sequence)], [Tx.TxOut(amount, b"")],
               lock_time=locktime, unspents=credit.tx_outs_as_spendable())
    spend.txs_in[0].witness = list(witness)
    return credit, spend


def real_tx(case):
    """the transaction of a case that carries a real one (Core's tx_valid / tx_invalid vectors)"""
    from pycoin.symbols.btc import network
    t = case["tx"]
    tx = network.tx.from_hex(t["hex"])
    tx.set_unspents([network.tx.Spendable(coin_value=a, script=bytes.fromhex(sc), tx_hash=tx.txs_in[i].previous_hash,
                                          tx_out_index=tx.txs_in[i].previous_index)
                     for i, (sc, a) in enumerate(t["prevouts"])])
    return tx, t["idx"]


def spend_tx_of(case):
    if "tx" in case:
        return real_tx(case)
    return build_txs(bytes(case["sig"]), bytes(case["pk"]), [bytes(w) for w in case["wit"]], case.get("amount", 0),
                     case["ctx"]["version"], int.from_bytes(bytes(case["ctx"]["locktime"]), "little"),
                     int.from_bytes(bytes(case["ctx"]["sequence"]), "little"))[1], 0


def run_spend(case):
    """-> ("ok",) | ("fail", errname) | ("exc", repr)"""
    from pycoin.symbols.btc import network
    ScriptError = network.validator.ScriptError
    if "tx" in case:
        spend, idx = real_tx(case)
        try:
            with time_limit():
                spend.check_solution(idx, flags=_flagbits(case["flags"]))
            return ("ok",)
        except ScriptError as e:
            return ("fail", str(e.args[0]) if e.args else "")
        except Exception as e:  # noqa
            return ("exc", "%s: %s" % (type(e).__name__, e))
    _, spend = build_txs(bytes(case["sig"]), bytes(case["pk"]), [bytes(w) for w in case["wit"]],
                         case.get("amount", 0), case["ctx"]["version"],
                         int.from_bytes(bytes(case["ctx"]["locktime"]), "little"),
                         int.from_bytes(bytes(case["ctx"]["sequence"]), "little"))
    try:
        with time_limit():
            spend.check_solution(0, flags=_flagbits(case["flags"]))
        return ("ok",)
    except ScriptError as e:
        return ("fail", str(e.args[0]) if e.args else "")
    except Exception as e:  # noqa
        return ("exc", "%s: %s" % (type(e).__name__, e))


class _Ctx(object):
    pass


def run_eval(case, z=None, trace=None):
    """evaluate one script on an initial stack with BitcoinVM.
    -> ("ok", [stack items]) | ("fail", msg) | ("exc", repr)"""
    from pycoin.coins.bitcoin.VM import BitcoinVM
    from pycoin.coins.SolutionChecker import ScriptError
    from pycoin.satoshi import flags as F
    fl = _flagbits(case["flags"])
    if case["sv"] != "wit":
        # this is how BitcoinSolutionChecker drives the VM for base scripts
        fl &= ~(F.VERIFY_MINIMALIF | F.VERIFY_WITNESS_PUBKEYTYPE)
    ctx = _Ctx()
    ctx.version = case["ctx"]["version"]
    ctx.lock_time = int.from_bytes(bytes(case["ctx"]["locktime"]), "little")
    ctx.sequence = int.from_bytes(bytes(case["ctx"]["sequence"]), "little")
    zz = z if z is not None else 0

    def sighash_f(signature_type, blobs_to_delete, vm):
        return zz
    vm = BitcoinVM(bytes(case["pk"]), ctx, sighash_f, fl, initial_stack=[bytes(x) for x in case["stack"]])
    if trace is not None:
        def tb(opcode, data, pc, vm_):
            trace.append({"pc": vm_.pc, "op": opcode, "stack": [list(x) for x in vm_.stack],
                          "alt": [list(x) for x in vm_.altstack]})
            return None
        vm.traceback_f = tb
    try:
        with time_limit():
            st = vm.eval_script()
        return ("ok", [bytes(x) for x in st])
    except ScriptError as e:
        return ("fail", str(e.args[0]) if e.args else "")
    except Exception as e:  # noqa
        return ("exc", "%s: %s" % (type(e).__name__, e))


def mk_case(kind="spend", sig=b"", pk=b"", wit=(), stack=(), sv="base", flags=(), version=1, locktime=0,
            sequence=0xFFFFFFFF, sigmode="tx", amount=0, **extra):
    c = {"kind": kind, "sig": list(sig), "pk": list(pk), "wit": [list(w) for w in wit], "stack": [list(x) for x in stack],
         "sv": sv, "flags": list(flags),
         "ctx": {"version": version, "locktime": list(locktime.to_bytes(4, "little")),
                 "sequence": list(sequence.to_bytes(4, "little"))},
         "hashes": [], "sigs": [], "sigmode": sigmode, "amount": amount}
    c.update(extra)
    return c


def load_core_script_tests(path):
    """-> list of (case, expected_error_name, comment)"""
    out = []
    for t in json.load(open(path)):
        if len(t) < 4:
            continue
        wit, amount = [], 0
        if isinstance(t[0], list):
            wit = [bytes.fromhex(x) for x in t[0][:-1]]
            amount = int(round(t[0][-1] * 100000000))
            t = t[1:]
        sig_s, pk_s, fl, exp = t[0], t[1], t[2], t[3]
        comment = t[4] if len(t) > 4 else ""
        flags = [f for f in fl.split(",") if f]
        c = mk_case("spend", parse_core_script(sig_s), parse_core_script(pk_s), wit, flags=flags, amount=amount,
                    text=[sig_s, pk_s, fl])
        out.append((c, exp, comment))
    return out


# --------------------------------------------------------------------------- signature table (MC_SigEnum)

Z_FIXED = int.from_bytes(hashlib.sha256(b"vf-c03-fixed-digest").digest(), "big")


def der_int(v, pad=0):
    b = v.to_bytes((v.bit_length() + 7) // 8 or 1, "big")
    if b[0] & 0x80:
        b = b"\x00" + b
    b = b"\x00" * pad + b
    return b"\x02" + bytes([len(b)]) + b


def der_sig(r, s, ht=1, pad_r=0):
    body = der_int(r, pad_r) + der_int(s)
    return b"\x30" + bytes([len(body)]) + body + bytes([ht])


def make_sig_table(small=False):
    from pycoin.ecdsa.secp256k1 import secp256k1_generator as g
    ds = [0x1111111111111111111111111111111111111111111111111111111111111111 + i for i in range(3)]
    pubs = [g * d for d in ds]

    def sec(pt, compressed=True):
        x, y = pt
        if compressed:
            return bytes([2 + (y & 1)]) + x.to_bytes(32, "big")
        return b"\x04" + x.to_bytes(32, "big") + y.to_bytes(32, "big")
    K = [sec(p) for p in pubs]
    x1, y1 = pubs[0]
    K1u = sec(pubs[0], False)
    K1hyb = bytes([6 + (y1 & 1)]) + K1u[1:]
    K1hybbad = bytes([7 - (y1 & 1)]) + K1u[1:]
    K05 = b"\x05" + K[0][1:]
    Kshort = K[0][:32]
    xoff = 5
    while parse_pubkey_ref(b"\x02" + xoff.to_bytes(32, "big")) is not None:
        xoff += 1
    Koff = b"\x02" + xoff.to_bytes(32, "big")

    def sign(d, z):
        r, s = g.sign(d, z)
        if s > N // 2:
            s = N - s
        return r, s
    rs = [sign(d, Z_FIXED) for d in ds]
    S = [der_sig(r, s) for r, s in rs]
    r1, s1 = rs[0]
    S1high = der_sig(r1, N - s1)
    S1ht4 = der_sig(r1, s1, 4)
    S1ht0 = der_sig(r1, s1, 0)
    S1ht81 = der_sig(r1, s1, 0x81)
    S1pad = der_sig(r1, s1, 1, pad_r=1)
    # a valid signature of the maximal size: R and S both need a leading zero octet (33 + 33 octets), 73 bytes with
    # the hash-type byte - the upper bound of IsValidSignatureEncoding.  The nonce is chosen, not derived.
    kk = 1
    while True:
        kk += 1
        rm = (g * kk)[0] % N
        if rm < (1 << 255):
            continue
        sm = g.inverse(kk) * (Z_FIXED + rm * ds[0]) % N
        sm = max(sm, N - sm)
        if sm >= (1 << 255):
            break
    S1max = der_sig(rm, sm)
    if len(S1max) != 73 or not ecdsa_verify_ref(pubs[0], Z_FIXED, rm, N - sm):
        raise ValueError("could not build the 73-byte signature")
    rw, sw = sign(ds[0], Z_FIXED + 1)
    Swrong = der_sig(rw, sw)
    Sgarb = b"\x30\x01\x01"
    Sgarb2 = b"\x30\x01"                    # DER part is the single byte 30
    Smid = der_sig(r1, N // 2 + 5)           # S just above n/2 (below p/2)
    Slen = bytearray(S[0])
    Slen[1] += 1
    Slen = bytes(Slen)
    keys = [K[0], K1u, K[1], K1hyb, K1hybbad, K05, Kshort, Koff, b""]
    sigs = [S[0], S1high, S[1], S1ht4, S1ht0, S1ht81, S1pad, Swrong, Sgarb, Slen, b"", Sgarb2, Smid, S1max]
    mkeys = [K[0], K[1], K[2], K05, K1u]
    msigs = [S[0], S[1], S[2], b"", Swrong, S1high, Sgarb]
    if small == "medium":
        mkeys = [K[0], K[1], K[2], K05]
        msigs = [S[0], S[1], S[2], b"", Swrong, Sgarb]
    elif small:
        mkeys = [K[0], K[1], K05]
        msigs = [S[0], S[1], b"", Swrong, Sgarb]
    names = {}
    for blob, nme in zip(sigs, ["S1", "S1high", "S2", "S1ht4", "S1ht0", "S1ht81", "S1pad", "Swrong", "Sgarb", "Slen", "Sempty",
                                "Sgarb2", "Smid", "S1max"]):
        names[bytes(blob).hex()] = nme
    for blob, nme in zip(keys, ["K1c", "K1u", "K2c", "K1hyb", "K1hybbad", "K05", "Kshort", "Koff", "Kempty"]):
        names[bytes(blob).hex()] = nme
    names[bytes(S[2]).hex()] = "S3"
    names[bytes(K[2]).hex()] = "K3c"
    names[""] = "empty"
    oracle = []
    allsigs = {bytes(x) for x in sigs + msigs if x}
    allkeys = {bytes(x) for x in keys + mkeys}
    for sg in sorted(allsigs):
        for ky in sorted(allkeys):
            res = 1 if sig_oracle_fixed(sg, ky, Z_FIXED) else 0
            for sv in ("base", "wit"):
                oracle.append([list(sg), list(ky), [], res, sv])
    return {"sigs": [list(x) for x in sigs], "keys": [list(x) for x in keys], "msigs": [list(x) for x in msigs],
            "mkeys": [list(x) for x in mkeys], "oracle": oracle, "names": names}


# --------------------------------------------------------------------------- spend shapes (MC_SpendShapes)

_D1 = 0x2222222222222222222222222222222222222222222222222222222222222222
_D2 = _D1 + 7
_D3 = _D1 + 11
AMOUNT = 50000


def _sec(d, compressed=True):
    from pycoin.ecdsa.secp256k1 import secp256k1_generator as g
    x, y = g * d
    if compressed:
        return bytes([2 + (y & 1)]) + x.to_bytes(32, "big")
    return b"\x04" + x.to_bytes(32, "big") + y.to_bytes(32, "big")


def _h160(b):
    return hashlib.new("ripemd160", hashlib.sha256(b).digest()).digest()


def _sign(d, z, ht=1, bad=False):
    from pycoin.ecdsa.secp256k1 import secp256k1_generator as g
    r, s = g.sign(d, z)
    if s > N // 2:
        s = N - s
    b = bytearray(der_sig(r, s, ht))
    if bad:
        b[10] ^= 0x01
    return bytes(b)


def _leaf(leaf):
    """-> (script, solver) ; solver(sign_f) -> list of solution items (bottom first)"""
    K1, K2, K3, K1u = _sec(_D1), _sec(_D2), _sec(_D3), _sec(_D1, False)
    if leaf == "true":
        return b"\x51", lambda sg: []
    if leaf == "false":
        return b"\x00", lambda sg: []
    if leaf == "p2pk":
        return push_enc(K1) + b"\xac", lambda sg: [sg(_D1)]
    if leaf == "p2pku":
        return push_enc(K1u) + b"\xac", lambda sg: [sg(_D1)]
    if leaf == "p2pkh":
        return b"\x76\xa9" + push_enc(_h160(K1)) + b"\x88\xac", lambda sg: [sg(_D1), K1]
    if leaf == "multisig":
        return b"\x51" + push_enc(K1) + push_enc(K2) + b"\x52\xae", lambda sg: [b"", sg(_D2)]
    if leaf == "multisig2of3":
        return b"\x52" + push_enc(K1) + push_enc(K2) + push_enc(K3) + b"\x53\xae", lambda sg: [b"", sg(_D1), sg(_D3)]
    if leaf == "big":
        return (b"\x4b" + b"\x07" * 75 + b"\x75") * 8 + b"\x51", lambda sg: []          # 617 bytes
    if leaf == "big10001":
        unit = b"\x4d\x08\x02" + b"\x07" * 520 + b"\x75"                                   # 524 bytes
        s = unit * 19 + b"\x4b" + b"\x07" * 42 + b"\x75" + b"\x51"                          # 9956 + 44 + 1 = 10001
        return s, lambda sg: []
    if leaf == "ifnm":
        return b"\x63\x51\x67\x00\x68", lambda sg: [b"\x02"]
    if leaf == "cltv":
        return b"\x01\x64\xb1\x75\x51", lambda sg: []       # 100 CLTV DROP 1
    raise ValueError(leaf)


# leaves with TWO signature checks whose script codes differ: a signature pushed inside the script itself (FindAndDelete
# removes it for the check of THAT signature only; in witness scripts nothing is removed, so the embedded signature can
# never be valid) and an OP_CODESEPARATOR between the checks.  The output script then depends on a signature, so the
# spent outpoint is a fixed one (not the hash of a crediting transaction, which would make the digest circular).
# fad2p75 / fad2p76: fad2 with the embedded signature padded (lax DER: zero octets in front of R) to exactly 75 / 76
# bytes - the largest direct push and the smallest OP_PUSHDATA1 push, the boundary of the pattern FindAndDelete removes
TWO_CHECK_LEAVES = ("fad2", "fad2r", "codesep2", "fad2p75", "fad2p76")
_FIXED_PREV = b"\x37" * 32


def _tx_fixed(script_sig, spk, witness):
    from pycoin.symbols.btc import network
    Tx = network.tx
    spend = Tx(2, [Tx.TxIn(_FIXED_PREV, 0, script_sig, sequence=10)], [Tx.TxOut(AMOUNT, b"")], lock_time=100)
    spend.set_unspents([Tx.Spendable(AMOUNT, spk, _FIXED_PREV, 0)])
    spend.txs_in[0].witness = list(witness)
    return spend


def _two_check_leaf(leaf, wit_inner, bad):
    """-> (script, solution items bottom first)"""
    from pycoin.symbols.btc import network
    K1 = _sec(_D1)
    sc = network.tx.SolutionChecker(_tx_fixed(b"", b"\x51", []))

    def z_of(code):
        return sc._signature_for_hash_type_segwit(code, 0, 1) if wit_inner else sc._signature_hash(code, 0, 1)
    if leaf == "codesep2":
        inner = push_enc(K1) + b"\xad\xab" + push_enc(K1) + b"\xac"     # K1 CHECKSIGVERIFY CODESEPARATOR K1 CHECKSIG
        sig_a = _sign(_D1, z_of(inner), 1, bad)                           # first check: from the start of the script
        sig_b = _sign(_D1, z_of(push_enc(K1) + b"\xac"), 1, False)        # second: what follows the separator
        return inner, [sig_b, sig_a]
    tail = push_enc(K1) + b"\xad" + push_enc(K1) + b"\xac"              # K1 CHECKSIGVERIFY K1 CHECKSIG
    sig_a = _sign(_D1, z_of(b"\x75" + tail), 1, False)                    # its own push is deleted from the script code
    if leaf in ("fad2p75", "fad2p76"):
        sig_a = _pad_sig(sig_a, 75 if leaf == "fad2p75" else 76)
    inner = push_enc(sig_a) + b"\x75" + tail                             # <sigA> DROP K1 CHECKSIGVERIFY K1 CHECKSIG
    sig_b = _sign(_D1, z_of(inner), 1, bad)                               # not in the script: nothing is deleted
    return inner, ([sig_a, sig_b] if leaf == "fad2r" else [sig_b, sig_a])


def _pad_sig(blob, total):
    """the same (r, s, hash type) in lax DER with zero octets in front of R so that the blob has `total` bytes"""
    r, s = parse_der_lax(blob[:-1])
    out = der_sig(r, s, blob[-1], pad_r=total - len(der_sig(r, s, blob[-1])))
    if len(out) != total or parse_der_lax(out[:-1]) != (r, s):
        raise ValueError("cannot pad signature to %d bytes" % total)
    return out


def concretize(shape):
    """shape record of MC_SpendShapes -> case for MC_ScriptRun / run_spend (real keys and signatures)"""
    from pycoin.symbols.btc import network
    pk, leaf, sigk, witk, flags = shape["pk"], shape["leaf"], shape["sigk"], shape["witk"], shape["flags"]
    K1 = _sec(_D1)
    bad = sigk == "badsig"
    wit_inner = pk in ("p2wsh", "p2sh-p2wsh", "p2wpkh", "p2sh-p2wpkh")
    fixed = leaf in TWO_CHECK_LEAVES
    # the script whose execution consumes the signatures, and its kind of digest
    if fixed:
        inner, fixed_items = _two_check_leaf(leaf, wit_inner, bad)
        solver = (lambda sg: fixed_items)
    elif pk in ("bare", "p2sh", "p2wsh", "p2sh-p2wsh"):
        inner, solver = _leaf(leaf)
    elif pk in ("p2wpkh", "p2sh-p2wpkh"):
        inner, solver = b"\x76\xa9" + push_enc(_h160(K1)) + b"\x88\xac", (lambda sg: [sg(_D1), K1])
    else:
        inner, solver = b"", (lambda sg: [])
    # output script / redeem script / witness script
    redeem = None
    wscript = None
    if pk == "bare":
        spk = inner
    elif pk == "p2sh":
        redeem = inner
    elif pk == "p2wsh":
        wscript = inner
        spk = b"\x00" + push_enc(hashlib.sha256(inner).digest())
    elif pk == "p2sh-p2wsh":
        wscript = inner
        redeem = b"\x00" + push_enc(hashlib.sha256(inner).digest())
    elif pk == "p2wpkh":
        spk = b"\x00" + push_enc(_h160(K1))
    elif pk == "p2sh-p2wpkh":
        redeem = b"\x00" + push_enc(_h160(K1))
    elif pk == "witv1":
        spk = b"\x51" + push_enc(b"\x42" * 32)
    elif pk == "p2sh-witv1":
        redeem = b"\x51" + push_enc(b"\x42" * 32)
    elif pk == "witv0bad":
        spk = b"\x00" + push_enc(b"\x42" * 25)
    elif pk == "witv1-40":
        spk = b"\x51" + push_enc(b"\x42" * 40)
    elif pk == "witv0-40":
        spk = b"\x00" + push_enc(b"\x42" * 40)
    elif pk == "witv1-2":
        spk = b"\x51" + push_enc(b"\x42" * 2)
    elif pk == "wit41":
        spk = b"\x51" + push_enc(b"\x42" * 41)       # 43 bytes: too long to be a witness program
    elif pk == "wit1":
        spk = b"\x51" + push_enc(b"\x42" * 1)        # 3 bytes: too short to be a witness program
    elif pk == "witv16":
        spk = b"\x60" + push_enc(b"\x42" * 32)
    elif pk == "p2sh19":
        spk = b"\xa9\x13" + b"\x42" * 19 + b"\x87\x87"
    if redeem is not None:
        spk = b"\xa9" + push_enc(_h160(redeem)) + b"\x87"

    def build(script_sig, witness):
        return build_txs(script_sig, spk, witness, AMOUNT, version=2, locktime=100, sequence=10)[1]

    # signatures commit to the final transaction (scriptSig excluded), so sign on a skeleton
    skel = build(b"", [])
    sc = network.tx.SolutionChecker(skel)

    def signer(d):
        if wit_inner:
            z = sc._signature_for_hash_type_segwit(inner, 0, 1)
        else:
            z = sc._signature_hash(inner, 0, 1)
        return _sign(d, z, 1, bad)
    items = solver(signer)
    if pk == "p2sh19":
        items = [b"", b""]
    # canonical unlocking data
    if wit_inner:
        sig_items = []
        witness = list(items) + ([wscript] if wscript is not None else [])
    else:
        sig_items = list(items)
        witness = []
    if pk in ("witv1", "witv0bad", "p2sh-witv1", "witv1-40", "witv0-40", "witv1-2", "witv16"):
        witness = [b"\x01"]

    def push_min(b):
        if len(b) == 0:
            return b"\x00"
        if len(b) == 1 and 1 <= b[0] <= 16:
            return bytes([80 + b[0]])
        if len(b) == 1 and b[0] == 0x81:
            return b"\x4f"
        return push_enc(b)
    ss = b"".join(push_min(x) for x in sig_items)
    if redeem is not None:
        if sigk == "pd1":
            ss += bytes([76, len(redeem)]) + redeem if len(redeem) < 256 else push_enc(redeem)
        else:
            ss += push_enc(redeem)
    if sigk == "nop":
        ss = b"\x61" + ss
    elif sigk == "extra":
        ss = b"\x51" + ss
    # witness deviations
    if witk == "empty":
        witness = []
    elif witk == "extra":
        witness = [b"\x01"] + witness
    elif witk == "big":
        witness = [b"\x07" * 521] + witness
    elif witk == "wrongscript":
        witness = witness[:-1] + [witness[-1] + b"\x61"]
    elif witk == "unexpected":
        witness = [b"\x01"]
    if fixed:
        tx = _tx_fixed(ss, spk, witness)
        return mk_case("spend", ss, spk, witness, flags=flags, version=2, locktime=100, sequence=10, amount=AMOUNT,
                       shape=[pk, leaf, sigk, witk], tx={"hex": tx.as_hex(), "idx": 0, "prevouts": [[spk.hex(), AMOUNT]]})
    return mk_case("spend", ss, spk, witness, flags=flags, version=2, locktime=100, sequence=10, amount=AMOUNT,
                   shape=[pk, leaf, sigk, witk])


def load_core_tx_tests(path, valid):
    """Core's tx_valid.json / tx_invalid.json -> list of (cases per input, comment, tx hex)"""
    from pycoin.symbols.btc import network
    out = []
    comment = ""
    for t in json.load(open(path)):
        if len(t) == 1:
            comment = t[0]
            continue
        prevouts, txhex, fl = t
        flags = [f for f in fl.split(",") if f and f != "NONE"]
        tx = network.tx.from_hex(txhex)
        db = {}
        for po in prevouts:
            h = bytes.fromhex(po[0])[::-1]
            idx = po[1] if po[1] >= 0 else po[1] + (1 << 32)
            db[(h, idx)] = (parse_core_script(po[2]), po[3] if len(po) == 4 else 1000000)
        pv = []
        for ti in tx.txs_in:
            sc, amt = db.get((ti.previous_hash, ti.previous_index), (b"", 0))
            pv.append([sc.hex(), amt])
        cases = []
        for i, ti in enumerate(tx.txs_in):
            c = mk_case("spend", ti.script, bytes.fromhex(pv[i][0]), list(ti.witness), flags=flags,
                        version=tx.version & 0x7FFFFFFF if tx.version >= 0 else 2, locktime=tx.lock_time, sequence=ti.sequence,
                        amount=pv[i][1], tx={"hex": txhex, "idx": i, "prevouts": pv}, text=[comment[:80], fl])
            cases.append(c)
        out.append((cases, comment, txhex))
    return out
