"""X08 driver: token scripts of spec/X08_Solve.tla -> real scripts, keys, wrappings, coins; runs pycoin's solver
(Tx.sign, Solver.solve, Solver.determine_constraints) and projects what it did; builds the cases the consensus
specification (MC_ScriptRun) judges; renders pycoin's constraints as terms of X08_Solve.tla."""
from __future__ import annotations

import hashlib
import importlib
import os
import traceback

from . import script as SC

COINS = ("BTC", "BCH", "LTC")
WRAPS = ("bare", "p2sh", "p2wsh", "p2sh-p2wsh")
_NET = {}

# fixed keys: 1..3 are the keys scripts name, 7 guards the neighbouring input, 9 is the unrelated extra key
SECRETS = {1: 0x1111111111111111111111111111111111111111111111111111111111111111 % SC.N,
           2: 0x2222222222222222222222222222222222222222222222222222222222222223 % SC.N,
           3: 0x3333333333333333333333333333333333333333333333333333333333333335 % SC.N,
           7: 0x7777777777777777777777777777777777777777777777777777777777777779 % SC.N,
           9: 0x999999999999999999999999999999999999999999999999999999999999999b % SC.N}
PRE = b"x08 preimage number one"
_SEC = {}

OPS = {"DUP": 118, "DROP": 117, "SWAP": 124, "OVER": 120, "2DUP": 110, "NIP": 119, "TUCK": 125, "ROT": 123, "IFDUP": 115,
       "SIZE": 130, "DEPTH": 116, "NOT": 145, "VERIFY": 105, "EQUAL": 135, "EQUALVERIFY": 136, "HASH160": 169, "SHA256": 168,
       "CHECKSIG": 172, "CHECKSIGVERIFY": 173, "CHECKMULTISIG": 174, "CHECKMULTISIGVERIFY": 175, "IF": 99, "NOTIF": 100,
       "ELSE": 103, "ENDIF": 104, "CLTV": 177, "CSV": 178, "TOALT": 107, "FROMALT": 108, "RETURN": 106, "ADD": 147, "NOP": 97,
       "0NOTEQUAL": 146, "BOOLAND": 154, "BOOLOR": 155, "2DROP": 109, "PICK": 121, "HASH256": 170, "RIPEMD160": 166,
       "NUMEQUAL": 156, "CODESEP": 171}
NUMS = {"0": b"\x00", "1": b"\x51", "2": b"\x52", "3": b"\x53", "L200": b"\x02\xc8\x00", "BIG": b"\x05\xff\xff\xff\xff\x7f"}
# the spending transaction of spec/X08_Solve.tla's ToyCtx
TX_VERSION, TX_LOCKTIME, TX_SEQUENCE = 2, 100, 10
AMOUNT = 60000
PREV = b"\x38" * 32
LIMIT = float(os.environ.get("X08_LIMIT", "6"))     # seconds; an ordinary case takes milliseconds


def network(coin):
    if coin not in _NET:
        _NET[coin] = importlib.import_module("pycoin.symbols." + coin.lower()).network
    return _NET[coin]


def sec(i):
    if i not in _SEC:
        _SEC[i] = SC._sec(SECRETS[i])
    return _SEC[i]


def h160(b):
    return hashlib.new("ripemd160", hashlib.sha256(b).digest()).digest()


def push_val(tok):
    if tok in ("K1", "K2", "K3"):
        return sec(int(tok[1]))
    if tok in ("HK1", "HK2", "HK3"):
        return h160(sec(int(tok[2])))
    if tok == "HP1":
        return h160(PRE)
    if tok == "SP1":
        return hashlib.sha256(PRE).digest()
    return None


_PLACE = None


def placeholders():
    """concrete bytes -> token name (to render pycoin's constants as terms)"""
    global _PLACE
    if _PLACE is None:
        _PLACE = {push_val(t): t for t in ("K1", "K2", "K3", "HK1", "HK2", "HP1", "SP1")}
    return _PLACE


def compile_toks(toks):
    out = b""
    for t in toks:
        v = push_val(t)
        if v is not None:
            out += SC.push_enc(v)
        elif t in NUMS:
            out += NUMS[t]
        else:
            out += bytes([OPS[t]])
    return out


def wrap_script(leaf, wrap):
    """-> (scriptPubKey, scripts for the p2sh lookup)"""
    if wrap == "bare":
        return leaf, []
    if wrap == "p2sh":
        return b"\xa9\x14" + h160(leaf) + b"\x87", [leaf]
    wp = b"\x00\x20" + hashlib.sha256(leaf).digest()
    if wrap == "p2wsh":
        return wp, [leaf]
    if wrap == "p2sh-p2wsh":
        return b"\xa9\x14" + h160(wp) + b"\x87", [leaf, wp]
    raise ValueError(wrap)


def guard_spk():
    return b"\x76\xa9\x14" + h160(sec(7)) + b"\x88\xac"


def build_tx(coin, spk):
    N = network(coin)
    Tx = N.tx
    tx = Tx(TX_VERSION, [Tx.TxIn(PREV, 0, b"", sequence=TX_SEQUENCE), Tx.TxIn(PREV, 1, b"", sequence=0xFFFFFFFE)],
            [Tx.TxOut(AMOUNT, b"\x51")], lock_time=TX_LOCKTIME)
    tx.set_unspents([Tx.Spendable(AMOUNT, spk, PREV, 0), Tx.Spendable(AMOUNT // 2, guard_spk(), PREV, 1)])
    return tx


def supply_of(coin, case, scripts):
    from pycoin.solve.utils import build_hash160_lookup, build_p2sh_lookup, build_sec_lookup
    N = network(coin)
    ids = list(case["keys"]) + [7] + ([9] if case.get("extra") else [])
    lookup = build_hash160_lookup([SECRETS[i] for i in ids], [N.generator])
    kw = {}
    if scripts:
        kw["p2sh_lookup"] = build_p2sh_lookup(scripts)
    if case.get("pre"):
        kw["sec_hints"] = build_sec_lookup([PRE])
    return lookup, kw


def frame_of(tx):
    """everything a signer asked for input 0 must leave alone"""
    return (tx.version, tx.lock_time,
            tuple((bytes(t.previous_hash), t.previous_index, t.sequence) for t in tx.txs_in),
            tuple((bytes(t.script), tuple(bytes(w) if w is not None else None for w in t.witness)) for t in tx.txs_in[1:]),
            tuple((o.coin_value, bytes(o.script)) for o in tx.txs_out),
            tuple((u.coin_value, bytes(u.script)) for u in tx.unspents))


def unlocking_of(tx):
    t = tx.txs_in[0]
    return [None if t.script is None else bytes(t.script).hex(), [None if w is None else bytes(w).hex() for w in t.witness]]


def exc_site(e):
    """class-level description of an exception: type + innermost pycoin function"""
    site = "?"
    for fr in traceback.extract_tb(e.__traceback__):
        if "/pycoin/" in fr.filename:
            site = "%s:%s" % (os.path.basename(fr.filename)[:-3], fr.name)
    if isinstance(e, SC.Hang):
        site = "(no result)"           # wherever the alarm happened to land
    return type(e).__name__, site, "%s: %s" % (type(e).__name__, str(e)[:120])


# ------------------------------------------------------------------ pycoin's constraints as terms
class Unrenderable(Exception):
    pass


def term_of(t):
    from pycoin.solve.constraints import Atom, Operator
    if isinstance(t, Operator):
        name, args = t._op_name, t._args
        if name == "HASH160":
            return {"k": "hash", "op": 169, "a": term_of(args[0])}
        if name == "EQUAL":
            return {"k": "eq", "a": term_of(args[0]), "b": term_of(args[1])}
        if name == "SIGNATURES_CORRECT":
            return {"k": "sigok", "keys": [term_of(x) for x in args[0]], "sigs": [term_of(x) for x in args[1]]}
        raise Unrenderable("operator %s" % name)
    if isinstance(t, Atom):
        pre, _, num = t.name.partition("_")
        return {"k": "atom", "i": int(num), "ns": pre}
    if isinstance(t, (bytes, bytearray)):
        b = bytes(t)
        nm = placeholders().get(b)
        if nm:
            return {"k": "tok", "v": nm}
        return {"k": "lit", "b": list(b)}
    raise Unrenderable("value %r" % (t,))


def constraint_of(c):
    from pycoin.solve.constraints import Operator
    if isinstance(c, Operator) and c._op_name in ("IS_PUBKEY", "IS_SIGNATURE"):
        return {"c": "ann", "what": c._op_name, "t": term_of(c._args[0])}
    return {"c": "true", "t": term_of(c)}


def _walk(t, f):
    f(t)
    for k in ("a", "b"):
        if k in t and isinstance(t[k], dict):
            _walk(t[k], f)
    for k in ("keys", "sigs"):
        for x in t.get(k, ()):
            _walk(x, f)


def leaf_constraints(cons, wrap, leaf, redeem):
    """pycoin's constraint list for a wrapped script -> constraints over the atoms of the LEAF script (atom i = the
    i-th item from the top of the stack the leaf script starts on), after checking the wrapper's own constraints.
    Returns (constraints, problem or None)."""
    out = []
    want = {"bare": [], "p2sh": [("x", 0, leaf)], "p2wsh": [("w", 0, leaf)], "p2sh-p2wsh": [("x", 0, redeem), ("w", 0, leaf)]}[wrap]
    found = []
    ns_leaf = "x" if wrap in ("bare", "p2sh") else "w"
    shift = 0 if wrap == "bare" else 1
    problem = None
    for c in cons:
        t = c.get("t")
        if c["c"] == "true" and t["k"] == "eq" and t["a"]["k"] == "atom" and t["b"]["k"] in ("lit", "tok"):
            hit = [w for w in want if (t["a"]["ns"], t["a"]["i"]) == (w[0], w[1])]
            if hit:
                val = bytes(t["b"]["b"]) if t["b"]["k"] == "lit" else None
                if val != hit[0][2]:
                    problem = "wrapper-script-constraint-names-another-script"
                found.append(hit[0])
                continue
        out.append(c)
    if len(found) != len(want):
        problem = problem or "wrapper-script-constraint-missing"

    def fix(t):
        nonlocal problem
        if t["k"] == "atom":
            if t["ns"] != ns_leaf or t["i"] < shift:
                problem = problem or "atom-outside-the-leaf-stack"
            else:
                t["i"] -= shift
            t.pop("ns", None)
    for c in out:
        if "t" in c:
            _walk(c["t"], fix)
    return out, problem


def max_atom(cons):
    m = [-1]

    def f(t):
        if t["k"] == "atom":
            m[0] = max(m[0], t["i"])
    for c in cons:
        if "t" in c:
            _walk(c["t"], f)
    return m[0]


# ------------------------------------------------------------------ one case on pycoin
def run_case(case, want_constraints=False, twice=True):
    """case: {toks, wrap, coin, keys, pre, extra} -> projection of what pycoin's solver did"""
    from pycoin.solve.ConstraintSolver import SolvingError
    coin, wrap = case["coin"], case["wrap"]
    N = network(coin)
    leaf = compile_toks(case["toks"])
    spk, scripts = wrap_script(leaf, wrap)
    out = {"leaf": leaf.hex(), "spk": spk.hex()}

    # (A) Tx.sign on input 0 only, then what the transaction reports
    def sign_once():
        tx = build_tx(coin, spk)
        lookup, kw = supply_of(coin, case, scripts)
        before = frame_of(tx)
        r = {}
        try:
            r["pre_ok"] = bool(tx.is_solution_ok(0))       # valid before anything is signed: not the solver's product
        except Exception:  # noqa
            r["pre_ok"] = False
        try:
            with SC.time_limit(LIMIT):
                tx.sign(lookup, tx_in_idx_set={0}, **kw)
        except Exception as e:  # noqa
            r["sign_exc"] = exc_site(e)
        r["frame_kept"] = frame_of(tx) == before
        r["unlock"] = unlocking_of(tx)
        return tx, r
    tx, r = sign_once()
    out.update(r)
    if r.get("sign_exc", ("",))[0] == "Hang":
        # do not spend the time limit three more times on the same loop
        out.update({"ok": False, "bad": 2, "solve": "skipped", "solve_pure": True, "same_twice": True})
        return out
    try:
        ok = bool(tx.is_solution_ok(0))
        bad = tx.bad_solution_count()
        out["ok"], out["bad"] = ok, bad
    except Exception as e:  # noqa
        out["report_exc"] = exc_site(e)
        out["ok"] = False
    try:
        out["txhex"] = tx.as_hex()
    except Exception as e:  # noqa
        out["ser_exc"] = exc_site(e)
    if twice:
        _, r2 = sign_once()
        out["same_twice"] = (r2["unlock"] == r["unlock"] and r2.get("sign_exc", (0, 0))[:2] == r.get("sign_exc", (0, 0))[:2])

    # (B) Solver.solve on a fresh transaction
    tx2 = build_tx(coin, spk)
    lookup, kw = supply_of(coin, case, scripts)
    before = frame_of(tx2), unlocking_of(tx2)
    try:
        with SC.time_limit(LIMIT):
            sol = N.tx.Solver(tx2).solve(lookup, 0, **kw)
        out["solve"] = "returned"
        if isinstance(sol, tuple):
            okshape = isinstance(sol[0], bytes) and all(isinstance(w, bytes) for w in sol[1])
        else:
            okshape = isinstance(sol, bytes)
        out["solve_shape_ok"] = okshape
    except (SolvingError, ValueError) as e:
        out["solve"] = "refused"
        out["solve_refusal"] = type(e).__name__
    except Exception as e:  # noqa
        out["solve"] = "exc"
        out["solve_exc"] = exc_site(e)
    out["solve_pure"] = (frame_of(tx2), unlocking_of(tx2)) == before

    # (C) the constraints the tracer reports (not for a bare script that happens to be a witness program: C05's subject)
    lookalike = wrap == "bare" and 4 <= len(leaf) <= 42 and (leaf[0] == 0 or 0x51 <= leaf[0] <= 0x60) and leaf[1] == len(leaf) - 2
    if want_constraints and not lookalike:
        tx3 = build_tx(coin, spk)
        try:
            from pycoin.solve.utils import build_p2sh_lookup
            with SC.time_limit(LIMIT):
                cons = N.tx.Solver(tx3).determine_constraints(0, p2sh_lookup=build_p2sh_lookup(scripts) if scripts else {})
            try:
                rendered = [constraint_of(c) for c in cons]
                redeem = scripts[1] if len(scripts) > 1 else None
                lc, problem = leaf_constraints(rendered, wrap, leaf, redeem)
                out["cons"] = lc
                out["cons_problem"] = problem
                out["cons_maxatom"] = max_atom(lc)
            except Unrenderable as e:
                out["cons_unrenderable"] = str(e)
        except Exception as e:  # noqa
            out["cons_exc"] = exc_site(e)
    return out


# ------------------------------------------------------------------ the judge's cases
def spend_case(coin, res, flags, tag):
    """the spend of input 0 as pycoin left it, as a case for MC_ScriptRun under `flags`"""
    N = network(coin)
    tx = N.tx.from_hex(res["txhex"])
    t = tx.txs_in[0]
    prevouts = [[res["spk"], AMOUNT], [guard_spk().hex(), AMOUNT // 2]]
    return SC.mk_case("spend", bytes(t.script), bytes.fromhex(res["spk"]), [bytes(w) for w in t.witness], flags=sorted(flags),
                      version=TX_VERSION, locktime=TX_LOCKTIME, sequence=TX_SEQUENCE, amount=AMOUNT,
                      tx={"hex": res["txhex"], "idx": 0, "prevouts": prevouts}, coin=coin, tag=tag)


_TXC = {}


def sig_oracle(c, sig, key, code, sv):
    """does `sig` verify for `key` over the digest of the case's transaction (the coin's own digest algorithm)"""
    coin = c["coin"]
    N = network(coin)
    k = (coin, c["tx"]["hex"])
    if k not in _TXC:
        if len(_TXC) > 64:
            _TXC.clear()
        tx = N.tx.from_hex(c["tx"]["hex"])
        tx.set_unspents([N.tx.Spendable(a, bytes.fromhex(sc), tx.txs_in[i].previous_hash, tx.txs_in[i].previous_index)
                         for i, (sc, a) in enumerate(c["tx"]["prevouts"])])
        _TXC[k] = tx
    tx = _TXC[k]
    pub = SC.parse_pubkey_ref(key)
    if pub is None or not sig:
        return False
    rs = SC.parse_der_lax(sig[:-1])
    if rs is None:
        return False
    r, s = rs
    if s > SC.N // 2:
        s = SC.N - s
    ht = sig[-1]
    sc = N.tx.SolutionChecker(tx)
    try:
        if sv == "wit":
            z = sc._signature_for_hash_type_segwit(code, 0, ht)
        else:
            z = sc._signature_hash(code, 0, ht)
    except Exception:  # noqa  (a fork-id coin refuses a signature without the fork-id bit)
        return False
    return SC.ecdsa_verify_ref(pub, z, r, s)
