"""Driver + projection for pycoin.wallet.SQLite3Wallet / SQLite3Persistence (X01).

The abstract world of spec/X01_Wallet.tla is made concrete here:

* tx t (1..T) becomes a real pycoin Tx: one TxIn per modelled outpoint it spends plus one input from
  outside the model, MaxOut outputs; outpoint number q = (t-1)*MaxOut + j carries 2**(q-1) * UNIT
  satoshi and pays one of "our" scripts iff own[q];
* block b becomes a header double (hash / previous_block_hash / difficulty, as tests/blockchain_test.py
  fakes them) carrying its txs; a real BlockChain turns deliveries into add/remove operations and a
  three-line glue (what a network client does) hands them to the wallet with the block's txs;
* the keychain is a stub that finds an output interesting iff its script is one of ours.

Nothing here decides what is right: the functions execute calls and project the state
(records via SQLite3Persistence.spendable_for_hash_index, last_block_index(), get_balance(c)).
"""
from __future__ import annotations

import hashlib
import sqlite3

UNIT = 10000            # satoshi per model value unit; Fee = 1 unit = the wallet's flat fee
NOWN = 3


def _net():
    from pycoin.symbols.btc import network
    return network


_CACHE = {}


def _scripts():
    if "scripts" not in _CACHE:
        net = _net()
        own = [net.contract.for_p2pkh(bytes([0x11 + i]) * 20) for i in range(NOWN)]
        foreign = net.contract.for_p2pkh(b"\x77" * 20)
        dest_addr = net.address.for_p2pkh(b"\x55" * 20)
        change_addr = net.address.for_p2pkh(bytes([0x11 + NOWN - 1]) * 20)   # change comes back to us
        _CACHE["scripts"] = (own, foreign, dest_addr, net.contract.for_address(dest_addr),
                             change_addr, net.contract.for_address(change_addr))
    return _CACHE["scripts"]


class KeychainStub(object):
    """what SQLite3Wallet needs from its keychain"""

    def __init__(self):
        own, _, _, _, change_addr, _ = _scripts()
        self._own = set(own)
        self._change = change_addr
        self.asked = 0

    def is_spendable_interesting(self, spendable):
        self.asked += 1
        return spendable.script in self._own

    def get_change_address(self):
        return self._change


class World(object):
    """concrete txs for an abstract world (txin: list of lists of outpoint numbers, own: list of bools)"""

    def __init__(self, txin, own, max_out=2, salt=b""):
        net = _net()
        Tx = net.tx
        own_scripts, foreign, *_ = _scripts()
        self.T = len(txin)
        self.max_out = max_out
        self.nop = self.T * max_out
        self.txin = [sorted(x) for x in txin]
        self.own = list(own)
        self.txs = {}
        self.op_of = {}      # (tx hash, index) -> outpoint number
        for t in range(1, self.T + 1):
            ins = []
            for q in self.txin[t - 1]:
                ct = (q - 1) // max_out + 1
                ins.append(Tx.TxIn(self.txs[ct].hash(), (q - 1) % max_out))
            ext = Tx.TxIn(hashlib.sha256(b"x01 outside funding %d " % t + salt).digest(), t % 3)
            if t % 2:
                ins.append(ext)
            else:
                ins.insert(0, ext)
            outs = []
            for j in range(1, max_out + 1):
                q = (t - 1) * max_out + j
                script = own_scripts[q % NOWN] if self.own[q - 1] else foreign
                outs.append(Tx.TxOut((1 << (q - 1)) * UNIT, script))
            tx = Tx(1, ins, outs)
            self.txs[t] = tx
            h = tx.hash()
            for j in range(1, max_out + 1):
                self.op_of[(h, j - 1)] = (t - 1) * max_out + j
        self.hash_of = {t: tx.hash() for t, tx in self.txs.items()}

    def outpoint(self, q):
        t = (q - 1) // self.max_out + 1
        return self.hash_of[t], (q - 1) % self.max_out


# ---------------------------------------------------------------- the wallet under test

# work-arounds ("shims") for calls that cannot be made at all on the tree under test; each one
# is switched on only after the plain call failed in exactly the known way (see props/x01.py,
# detect_api) and is reported as a finding.  With none active the wallet is used as it is.
SHIMS = set()


def _shim_persistence_class():
    from pycoin.wallet.SQLite3Persistence import SQLite3Persistence

    class ShimPersistence(SQLite3Persistence):
        def unspent_spendables(self, last_block, spendable_class=None, confirmations=0):
            if spendable_class is None and "spendable_class" in SHIMS:
                spendable_class = _net().tx.Spendable
            g = SQLite3Persistence.unspent_spendables(self, last_block, spendable_class, confirmations)
            if "stopiteration" not in SHIMS:
                return g
            return _drain(g)
    return ShimPersistence


def _drain(g):
    try:
        for x in g:
            yield x
    except RuntimeError as e:      # PEP 479: the StopIteration of next(cursor) inside the generator
        if isinstance(e.__cause__, StopIteration):
            return
        raise


class Wallet(object):
    """one SQLite3Wallet over an in-memory database, plus the projection of its state"""

    def __init__(self, world, base):
        from pycoin.wallet.SQLite3Wallet import SQLite3Wallet
        from pycoin.wallet.SQLite3Persistence import SQLite3Persistence
        self.world = world
        self.base = base
        self.db = sqlite3.connect(":memory:")
        cls = _shim_persistence_class() if (SHIMS & {"spendable_class", "stopiteration"}) else SQLite3Persistence
        self.persistence = cls(self.db)
        self.keychain = KeychainStub()
        self.w = SQLite3Wallet(self.keychain, self.persistence)
        if "create_tx_network" in SHIMS:
            import pycoin.wallet.SQLite3Wallet as mod
            from pycoin.coins.tx_utils import create_tx
            if not getattr(mod.create_tx, "_x01_shim", False):
                def shim(spendables, payables, fee):
                    return create_tx(_net(), spendables, payables, fee=fee)
                shim._x01_shim = True
                mod.create_tx = shim

    # -- calls
    def ops(self, ops, cont):
        """ops: [(op, block id, real index)], cont: block id -> list of tx numbers"""
        real = []
        for op, b, i in ops:
            real.append((op, ("hdr", b), i, [self.world.txs[t] for t in sorted(cont.get(b, ()))]))
        self.w.got_ops_callback(real)

    def mempool(self, t):
        self.w.got_mempool_tx_callback(self.world.txs[t])

    def rewind(self, i):
        self.w.rewind(i)

    def send(self, amt):
        """-> dict(ok, X, change, shape)"""
        _, _, dest_addr, dest_script, _, change_script = _scripts()
        try:
            tx = self.w.create_unsigned_send_tx(dest_addr, amt * UNIT)
        except ValueError as e:
            return {"ok": 0, "X": [], "change": 0, "shape": "ValueError: %s" % e}
        X = [self.world.op_of.get((ti.previous_hash, ti.previous_index), 0) for ti in tx.txs_in]
        outs = tx.txs_out
        shape = "ok"
        if not outs or outs[0].script != dest_script or outs[0].coin_value != amt * UNIT:
            shape = "first output does not pay the amount to the address"
        rest = sum(o.coin_value for o in outs[1:])
        if any(o.script != change_script for o in outs[1:]):
            shape = "change does not go to the keychain's change address"
        if rest % UNIT:
            shape = "change %d is not what inputs - amount - fee leaves" % rest
        if len(set(X)) != len(X) or 0 in X:
            shape = "inputs are not distinct known outpoints"
        return {"ok": 1, "X": sorted(X), "change": rest // UNIT, "shape": shape}

    # -- projection
    def project(self, kmax, zero_is_none=True):
        Sp = _net().tx.Spendable
        ws = []
        known = 0
        for q in range(1, self.world.nop + 1):
            h, i = self.world.outpoint(q)
            s = self.persistence.spendable_for_hash_index(h, i, Sp)
            if s is None:
                ws.append([0, -1, -1, 0])
                continue
            known += 1
            ok = s.coin_value == (1 << (q - 1)) * UNIT and s.tx_hash == h and s.tx_out_index == i
            ws.append([1 if ok else 2, self._ix(s.block_index_available, zero_is_none),
                       self._ix(s.block_index_spent, zero_is_none), 1 if s.does_seem_spent else 0])
        total = self.db.execute("select count(*) from Spendable").fetchone()[0]
        bal = [self.w.get_balance(c) for c in range(kmax + 1)]
        return {"ws": ws, "lbi": self.w.last_block_index(), "extra": total - known,
                "bal": [(b // UNIT if b % UNIT == 0 else -b) for b in bal]}

    @staticmethod
    def _ix(v, zero_is_none):
        if v is None:
            return -1
        if v == 0 and zero_is_none:
            return -1
        return v


def zero_is_sentinel():
    """does this tree write 0 for 'not confirmed / not spent'?  (representation only)"""
    w = Wallet(World([[]], [True, False]), 1)
    w.mempool(1)
    Sp = _net().tx.Spendable
    s = w.persistence.spendable_for_hash_index(*w.world.outpoint(1), Sp)
    return s is not None and s.block_index_available == 0


# ---------------------------------------------------------------- header doubles and the real BlockChain

class Hdr(object):
    def __init__(self, h, prev, w, bid=None):
        self._h = h
        self.previous_block_hash = prev
        self.difficulty = w
        self.bid = bid

    def hash(self):
        return self._h


def labels(n, kind, salt=0):
    if kind == "int":
        m = {i: 100 * (salt + 1) + i for i in range(1, n + 1)}
        for i in range(1, n + 1):
            m[-i] = -1000 - i
        m[0] = 0
        return m
    m = {i: hashlib.sha256(b"x01 hdr %d %d" % (i, salt)).digest() for i in range(-n, n + 1)}
    return m


class Chain(object):
    """a real BlockChain with `base` locked blocks below the anchor, glued to a Wallet"""

    def __init__(self, wallet, par, wt, cont, base, label):
        from pycoin.blockchain.BlockChain import BlockChain
        self.wallet = wallet
        self.par, self.wt, self.cont, self.base, self.label = par, wt, cont, base, label
        self.inv = {v: k for k, v in label.items()}
        self.n = len(par)
        if base:
            ints = isinstance(label[0], int)
            below = -7 if ints else b"x01 below the locked blocks"
            locked = []
            prev = below
            for i in range(base):
                h = label[0] if i == base - 1 else ((-50 - i) if ints else b"x01 locked %d" % i)
                locked.append(Hdr(h, prev, 1))
                prev = h
            self.bc = BlockChain(parent_hash=below, unlocked_block_storage={})
            self.bc.preload_locked_blocks(locked)
        else:
            self.bc = BlockChain(parent_hash=label[0], unlocked_block_storage={})
        self.seen_ops = []

        self.one_by_one = None       # set to (kmax, zero_is_none) to hand operations over singly and log the states
        self.mid = []

        def glue(chain, ops):
            # what a network client does: fetch the block of every header and hand its txs over
            self.seen_ops.append(list(ops))
            real = [(op, hdr, i, [self.wallet.world.txs[t] for t in sorted(self.cont.get(hdr.bid, ()))]) for op, hdr, i in ops]
            self.mid = []
            if self.one_by_one is None:
                self.wallet.w.got_ops_callback(real)
            else:
                for r in real:
                    self.wallet.w.got_ops_callback([r])
                    self.mid.append(self.wallet.project(*self.one_by_one))
        self._glue = glue        # BlockChain keeps callbacks in a WeakSet
        self.bc.add_change_callback(glue)

    def _parent(self, b):
        p = self.par[b]
        return self.label[p] if p >= 0 else self.label[-b]

    def deliver(self, B):
        hdrs = [Hdr(self.label[b], self._parent(b), self.wt[b], b) for b in B]
        ops = self.bc.add_headers(hdrs)
        return self.report(ops)

    def report(self, ops):
        bc = self.bc
        chain = [self.inv.get(bc.hash_for_index(i), 0) for i in range(self.base, bc.length())]
        idx = []
        for b in range(1, self.n + 1):
            v = bc.index_for_hash(self.label[b])
            idx.append(-1 if v is None else v - self.base)
        return {"chain": chain, "idx": idx,
                "ops": [[o[0], self.inv.get(o[1].hash(), 0) if o[1] is not None else 0, o[2] - self.base] for o in ops]}


# ---------------------------------------------------------------- running behaviours

def _exc(call, e):
    import traceback
    return {"exc": "%s: %s" % (type(e).__name__, str(e)[:160]), "call": call, "tb": traceback.format_exc()[-700:]}


def run_acts(world, base, par, wt, cont, acts, kmax, feed, label=None, zero_is_none=True):
    """Execute spec-level acts on a fresh wallet.  feed = "ops": the wallet gets the spec's operations;
    feed = "chain": headers go to a real BlockChain (the act's expected chain is only used to notice
    that the real tracker took another of the allowed tied chains: the run then stops with
    {"diverged": ...}, which is not a disagreement).
    Returns the list of observations, one per act."""
    w = Wallet(world, base)
    ch = None
    if feed == "chain":
        ch = Chain(w, par, wt, cont, base, label)
    out = []
    for a in acts:
        k = a["a"]
        try:
            extra = {}
            if k == "D":
                if ch is None:
                    # one operation per call: the state after each of them is compared too
                    mid = []
                    for o in a["ops"]:
                        w.ops([(o[0], o[1], o[2] + base)], cont)
                        mid.append(w.project(kmax, zero_is_none))
                    extra = {"mid": mid}
                else:
                    rep = ch.deliver(sorted(a["B"]))
                    if rep["chain"] != list(a["chain"]):
                        out.append({"diverged": rep["chain"]})
                        break
                    extra = {"tracker": rep}
            elif k == "A":
                w.ops([("add", a["b"], a["i"])], cont)
            elif k == "M":
                w.mempool(a["t"])
            elif k == "R":
                w.rewind(a["i"])
            elif k == "S":
                extra = {"send": w.send(a["amt"])}
            else:
                raise ValueError("unknown act %r" % (a,))
            obs = w.project(kmax, zero_is_none)
            obs.update(extra)
        except Exception as e:  # noqa
            out.append(_exc(k, e))
            break
        out.append(obs)
    return out
