"""Driver + projection for pycoin.blockchain.BlockChain (C15).

Headers are abstract ids 1..N; parent 0 is the anchor, parent -1 means "a parent
that is never delivered".  `label` maps an abstract id to the concrete hash
value handed to pycoin (ints steer set.pop() order; bytes for realism).
"""
from __future__ import annotations


class Hdr(object):
    def __init__(self, h, prev, w):
        self._h = h
        self.previous_block_hash = prev
        self.difficulty = w

    def hash(self):
        return self._h

    def __repr__(self):
        return "Hdr(%r<-%r w%r)" % (self.previous_block_hash, self._h, self.difficulty)


def mk_label(kind, n, perm=None):
    """label functions for ids -1..n ; perm: tuple permutation of 1..n"""
    perm = perm or tuple(range(1, n + 1))
    if kind == "int":
        m = {i + 1: perm[i] for i in range(n)}
        m[0] = 0
        for i in range(1, n + 1):
            m[-i] = -1000 - i     # the never-delivered parent of orphan root i
        return m
    if kind == "bytes":
        import hashlib
        m = {i: hashlib.sha256(b"hdr%d/%r" % (i, perm)).digest() for i in range(-n, n + 1)}
        return m
    raise ValueError(kind)


def run_history(par, wt, hist, label, record_finder=False):
    """par: dict id -> parent id (0 anchor, -1 unknown); wt: dict id -> weight;
    hist: list of ["D", [ids]] / ["L", k].
    Returns list of projections (one per action) in abstract ids; an exception
    in pycoin is returned as {"exc": repr} for that step and stops the run."""
    from pycoin.blockchain.BlockChain import BlockChain
    inv = {v: k for k, v in label.items()}
    n = len(par)

    def lab_parent(i):
        p = par[i]
        # distinct unknown parents per header so that orphans do not accidentally share a root
        return label[p] if p >= 0 else label[-i]

    bc = BlockChain(parent_hash=label[0], unlocked_block_storage={})
    cb_ops = []

    def cb(chain, ops):
        cb_ops.append(list(ops))
    bc.add_change_callback(cb)
    out = []
    for act in hist:
        proj = {}
        try:
            if act[0] == "D":
                hdrs = [Hdr(label[i], lab_parent(i), wt[i]) for i in act[1]]
                del cb_ops[:]
                ops = bc.add_headers(hdrs)
                proj["ops"] = [[o[0], inv.get(o[1].hash() if o[1] is not None else None, "?"), o[2]] for o in ops]
                proj["cb"] = [[[o[0], inv.get(o[1].hash() if o[1] is not None else None, "?"), o[2]] for o in x] for x in cb_ops]
            else:
                bc.lock_to_index(act[1])
            ln = bc.length()
            proj["len"] = ln
            proj["locked"] = bc.locked_length()
            proj["chain"] = [inv.get(bc.hash_for_index(i), "?") for i in range(ln)]
            tups = [bc.tuple_for_index(i) for i in range(ln)]
            proj["tparent"] = [inv.get(t[1], "?") for t in tups]
            proj["tweight"] = [t[2] for t in tups]
            proj["last"] = inv.get(bc.last_block_hash(), "?")
            proj["neg1"] = inv.get(bc.hash_for_index(-1), "?") if ln else None
            proj["idx"] = {str(i): bc.index_for_hash(label[i]) for i in range(1, n + 1)}
            if record_finder:
                # internal state, advisory only: a refactored finder simply has none to show
                try:
                    cf = bc.chain_finder
                    tfb = {str(inv[k]): [inv[x] for x in v] for k, v in cf.trees_from_bottom.items()}
                    dbt = {str(inv[k]): sorted(inv[x] for x in v) for k, v in cf.descendents_by_top.items()}
                    proj["tfb"], proj["dbt"] = tfb, dbt
                except Exception:  # noqa
                    pass
        except Exception as e:  # noqa
            import traceback
            proj = {"exc": "%s: %s" % (type(e).__name__, e), "tb": traceback.format_exc()[-600:]}
            out.append(proj)
            break
        out.append(proj)
    return out
