"""Driver for pycoin's hash primitives (C19).

The RIPEMD-160 implementation is selected when ``pycoin.encoding.hash`` is
imported, so every configuration runs in a fresh interpreter:

  native     default environment (hashlib's RIPEMD-160 when OpenSSL offers it)
  pure       PYCOIN_USE_PYTHON_RIPEMD160=1 (bundled pycoin.contrib.ripemd160)
  nohashlib  hashlib.new("ripemd160") raises, as on an OpenSSL 3 build without the
             legacy provider: get_best_ripemd160() must fall back by itself

The child gets a list of (function name, message hex) jobs on stdin and prints
the digests (or the exception) as JSON.  Nothing here knows what a digest should
be: the expected values come from TLC.
"""
from __future__ import annotations

import json
import os
import subprocess

from ..ctx import REPO, MachineryError

CONFIGS = ("native", "pure", "nohashlib")

# call sites per pipeline name of spec/HashMachine.tla
FUNCS = {
    "ripemd160": ("contrib.ripemd160", "hash.ripemd160", "hash._PurePythonRIPEMD160"),
    "hash160": ("hash.hash160",),
    "double_sha256": ("hash.double_sha256",),
}

_CHILD = r'''
import sys, json, os
cfg = sys.argv[1]
if cfg == "nohashlib":
    import hashlib
    _new = hashlib.new
    def _no_ripemd(name, *a, **kw):
        if str(name).lower() in ("ripemd160", "rmd160"):
            raise ValueError("unsupported hash type " + str(name))
        return _new(name, *a, **kw)
    hashlib.new = _no_ripemd
import pycoin.contrib.ripemd160 as C
import pycoin.encoding.hash as H
F = {
    "contrib.ripemd160": lambda m: C.ripemd160(m),
    "hash.ripemd160": lambda m: H.ripemd160(m).digest(),
    "hash._PurePythonRIPEMD160": lambda m: H._PurePythonRIPEMD160(m).digest(),
    "hash.hash160": lambda m: H.hash160(m),
    "hash.double_sha256": lambda m: H.double_sha256(m),
}
jobs = json.load(sys.stdin)
out = []
BUFS = {}
for fn, mhex in jobs:
    try:
        # one long-lived buffer per function, refilled in place: asked first and last of every job, so that two
        # consecutive calls see the SAME object with DIFFERENT contents
        buf = BUFS.setdefault(fn, bytearray())
        buf[:] = bytes.fromhex(mhex)
        try:
            r3 = F[fn](buf)
        except Exception as e3:
            r3 = "given in a refilled bytearray: " + type(e3).__name__
        r = F[fn](bytes.fromhex(mhex))
        if not isinstance(r, bytes):
            out.append({"exc": "result is %s, not bytes" % type(r).__name__})
        else:
            # the same byte string held in Python's other byte-string type (a digest is a function of the bytes)
            try:
                r2 = F[fn](bytearray.fromhex(mhex))
            except Exception as e2:
                r2 = "given as bytearray: " + type(e2).__name__
            # ... and in ONE long-lived buffer per function that the caller refills in place between calls
            # (a digest is a function of the bytes at the time of the call, not of the object that holds them)
            try:
                r4 = F[fn](buf)
            except Exception as e4:
                r4 = "given in a refilled bytearray: " + type(e4).__name__
            if r3 == r:
                r3 = r4
            if r2 != r:
                out.append({"exc": r2 if isinstance(r2, str) else "given as bytearray: another digest"})
            elif r3 != r:
                out.append({"exc": r3 if isinstance(r3, str) else "given in a refilled bytearray: digest of other contents"})
            else:
                out.append({"d": bytes(r).hex()})
    except Exception as e:
        out.append({"exc": type(e).__name__ + ": " + str(e)[:80]})
impl = getattr(H.ripemd160, "__name__", type(H.ripemd160).__name__)
json.dump({"impl": impl, "file": H.__file__, "out": out}, sys.stdout)
'''


def run_jobs(cfg, jobs):
    """jobs: list of (fn, message bytes) -> (impl name, list of {'d': hex} | {'exc': str})"""
    env = {k: v for k, v in os.environ.items() if k != "PYCOIN_USE_PYTHON_RIPEMD160"}
    env["PYTHONPATH"] = REPO
    env["PYTHONDONTWRITEBYTECODE"] = "1"
    if cfg == "pure":
        env["PYCOIN_USE_PYTHON_RIPEMD160"] = "1"
    p = subprocess.run(["/venv/bin/python", "-c", _CHILD, cfg], input=json.dumps([[fn, m.hex()] for fn, m in jobs]),
                       capture_output=True, text=True, env=env, cwd="/tmp")
    if p.returncode != 0:
        # pycoin could not even be imported in this configuration
        return None, [{"exc": "child failed: " + (p.stderr.strip().splitlines() or ["?"])[-1][:200]} for _ in jobs]
    r = json.loads(p.stdout)
    if not r["file"].startswith(REPO):
        raise MachineryError("child imported pycoin from %s, not from %s" % (r["file"], REPO))
    return r["impl"], r["out"]


def _run_cfg_chunk(args):
    cfg, jobs = args
    return run_jobs(cfg, jobs)


def run_all(jobs, procs_per_cfg=4):
    """run the jobs in every configuration; returns {cfg: (impl, results)}"""
    from ..par import pmap, split
    tasks = []
    for cfg in CONFIGS:
        for ch in split(jobs, procs_per_cfg):
            tasks.append((cfg, ch))
    res = pmap(_run_cfg_chunk, tasks, chunk=1, procs=min(16, len(tasks)))
    out = {}
    for (cfg, _), (impl, rs) in zip(tasks, res):
        o = out.setdefault(cfg, [impl, []])
        if impl is not None:
            o[0] = impl
        o[1].extend(rs)
    return {c: (v[0], v[1]) for c, v in out.items()}
