"""C08 / C18 driver: the registered networks of pycoin, their prefix table as a JSON
constant for TLC, concretisation of the abstract values the specs print (token
scripts, text classes, uninterpreted hash terms) and projection of what pycoin
returns (Contract / Key / BIP32Node / ElectrumWallet / exception) onto the values
the specs talk about.

Nothing here knows an expected answer: expectations come from TLC.  The only
computations are (a) evaluation of uninterpreted terms (sha256, ripemd160,
hmac-sha512, Base58Check, Bech32 - the latter cross-checked against the strings
TLC computes with Bech32.tla), (b) concretisation, (c) driving pycoin.
"""
from __future__ import annotations

import hashlib
import hmac
import json
import os
import tempfile

# ---------------------------------------------------------------- networks

_NETS = None


def networks():
    """[(symbol, network)] in registry order"""
    global _NETS
    if _NETS is None:
        from pycoin.networks.registry import network_codes, network_for_netcode
        _NETS = [(c, network_for_netcode(c)) for c in network_codes()]
    return _NETS


def net(sym):
    for s, n in networks():
        if s == sym:
            return n
    for s, n, _ in extra_networks():
        if s == sym:
            return n
    raise KeyError(sym)


_STUB = {}
_EXTRA = None


def is_stub(n):
    """Groestlcoin family without groestlcoin_hash: the Base58 text layer cannot run (limitation L3).
    Decided by public behaviour: the network's own Base58 encoder raises."""
    k = id(n)
    if k not in _STUB:
        tag, v = call(n.address.for_p2pkh, b"\0" * 20)
        _STUB[k] = tag == "exc"
    return _STUB[k]


def _payload_of(text, chk="sha256d"):
    """payload of a Base58Check text under double-SHA256 (None: absent / other checksum function)"""
    if not isinstance(text, str):
        return None
    return b58check_dec(text) if chk == "sha256d" else b58check_dec_chk(chk, text)


def _prefix_from(text, tail, chk="sha256d"):
    """version bytes of a serialisation whose payload must end with the known bytes `tail`"""
    p = _payload_of(text, chk)
    if p is None or len(p) <= len(tail) or p[len(p) - len(tail):] != tail:
        return []
    return list(p[:len(p) - len(tail)])


def _hook_payload(addr_api, f, h):
    """stubbed networks: read the payload the encoder would checksum through the documented `b2a` hook of AddressAPI
    ("b2a is stored as an instance attribute so that coin-specific networks can swap it out")"""
    saved = addr_api.b2a
    try:
        addr_api.b2a = lambda blob: "hex:" + bytes(blob).hex()
        v = f(h)
    except Exception:  # noqa: BLE001
        v = None
    finally:
        addr_api.b2a = saved
    if isinstance(v, str) and v.startswith("hex:"):
        pl = bytes.fromhex(v[4:])
        if pl.endswith(h):
            return list(pl[:len(pl) - len(h)])
    return []


def _private_crosscheck(n, row):
    """optional: where pycoin still exposes the parser-side constants as attributes, note any difference
    (informational - a real encoder/parser disagreement is found by the replays, from behaviour)"""
    names = {"p2pkh": "_address_prefix", "p2sh": "_pay_to_script_prefix", "wif": "_wif_prefix",
             "b32prv": "_bip32_prv_prefix", "b32pub": "_bip32_pub_prefix", "b49prv": "_bip49_prv_prefix",
             "b49pub": "_bip49_pub_prefix", "b84prv": "_bip84_prv_prefix", "b84pub": "_bip84_pub_prefix"}
    diff = {}
    for k, a in names.items():
        if hasattr(n.parse, a):
            v = list(getattr(n.parse, a) or b"")
            if v != row[k]:
                if row["stub"] and not row[k]:
                    row[k] = v          # not derivable without the groestl library: take the attribute when it exists
                else:
                    diff[k] = [bytes(row[k]).hex(), bytes(v).hex()]
    return diff


TABLE_NOTES = {}


def _row(sym, n, chk=None):
    """one row of the prefix table, from the PUBLIC behaviour of network n (chk: the name of the checksum function of
    its Base58Check texts when it is not double-SHA256 and can be computed here)"""
    h = bytes(range(0x40, 0x54))
    gpt = G
    stub = is_stub(n)
    dchk = chk or "sha256d"
    row = {"sym": sym}
    if stub:
        row["p2pkh"] = _hook_payload(n.address, n.address.for_p2pkh, h)
        row["p2sh"] = _hook_payload(n.address, n.address.for_p2sh, h)
    else:
        row["p2pkh"] = _prefix_from(call(n.address.for_p2pkh, h)[1], h, dchk)
        row["p2sh"] = _prefix_from(call(n.address.for_p2sh, h)[1], h, dchk)
    one = (1).to_bytes(32, "big")
    row["wif"] = _prefix_from(call(lambda: n.keys.private(1).wif())[1], one + b"\x01", dchk)
    tag, node = call(n.keys.bip32_seed, b"vf-table")
    body_prv = body_pub = None
    row["b32prv"] = row["b32pub"] = []
    if tag == "ok" and node is not None:
        body_prv, body_pub = node.serialize(as_private=True), node.serialize(as_private=False)
        row["b32prv"] = _prefix_from(call(lambda: node.hwif(as_private=True))[1], body_prv, dchk)
        row["b32pub"] = _prefix_from(call(lambda: node.hwif(as_private=False))[1], body_pub, dchk)
    for fam, key in (("bip49", "b49"), ("bip84", "b84")):
        row[key + "prv"] = row[key + "pub"] = []
        if body_prv is None:
            continue
        tag, nd = call(getattr(n.keys, fam + "_deserialize"), b"\0\0\0\0" + body_prv)
        if tag == "ok" and nd is not None:
            row[key + "prv"] = _prefix_from(call(lambda: nd.hwif(as_private=True))[1], body_prv)
            row[key + "pub"] = _prefix_from(call(lambda: nd.hwif(as_private=False))[1], body_pub)
    tag, t = call(n.address.for_p2pkh_wit, h)
    sd = segwit_dec(t) if tag == "ok" and isinstance(t, str) else None
    row["hrp"] = [ord(c) for c in sd[0]] if sd and sd[2] == h else []
    sec = sec_of(gpt, True)
    tag, t = call(lambda: n.keys.public(gpt).as_text())
    row["sec"] = [ord(c) for c in t[:-len(sec.hex())]] if tag == "ok" and isinstance(t, str) and t.endswith(sec.hex()) else []
    row["stub"] = bool(stub)
    row["chk"] = "groestl" if stub else dchk
    d = _private_crosscheck(n, row)
    if d:
        TABLE_NOTES[sym] = d
    return row


def table():
    """the prefix table, derived from PUBLIC behaviour of every network: the version bytes are read off the texts
    the network itself serialises for a known hash / key / node (Base58Check-decoded by the independent decoder)"""
    return [_row(sym, n) for sym, n in networks()]


def write_json(obj, prefix):
    fd, path = tempfile.mkstemp(prefix=prefix, suffix=".json")
    with os.fdopen(fd, "w") as f:
        json.dump(obj, f)
    return path


# ---------------------------------------------------------------- independent evaluators
B58 = "123456789ABCDEFGHJKLMNPQRSTUVWXYZabcdefghijkmnopqrstuvwxyz"


def sha256d(b):
    return hashlib.sha256(hashlib.sha256(b).digest()).digest()


def h160(b):
    return hashlib.new("ripemd160", hashlib.sha256(b).digest()).digest()


def b58enc(b):
    z = len(b) - len(b.lstrip(b"\0"))
    v = int.from_bytes(b, "big")
    s = ""
    while v:
        v, r = divmod(v, 58)
        s = B58[r] + s
    return "1" * z + s


def b58dec(s):
    v = 0
    for ch in s:
        i = B58.find(ch)
        if i < 0 or ch == "":
            return None
        v = v * 58 + i
    z = len(s) - len(s.lstrip("1"))
    body = v.to_bytes((v.bit_length() + 7) // 8, "big")
    return b"\0" * z + body


def b58check(payload):
    payload = bytes(payload)
    return b58enc(payload + sha256d(payload)[:4])


def b58check_dec(s):
    """payload bytes of a validly checksummed Base58 text, else None"""
    if not s or any(ch not in B58 for ch in s):
        return None
    raw = b58dec(s)
    if raw is None or len(raw) < 4:
        return None
    if sha256d(raw[:-4])[:4] != raw[-4:]:
        return None
    return raw[:-4]


_BCH = "qpzry9x8gf2tvdw0s3jn54khce6mua7l"
_GEN = (0x3b6a57b2, 0x26508e6d, 0x1ea119fa, 0x3d4233dd, 0x2a1462b3)


def _polymod(vals):
    chk = 1
    for v in vals:
        top = chk >> 25
        chk = ((chk & 0x1ffffff) << 5) ^ v
        for i in range(5):
            if (top >> i) & 1:
                chk ^= _GEN[i]
    return chk


def _to5(b):
    acc = bits = 0
    out = []
    for x in b:
        acc = (acc << 8) | x
        bits += 8
        while bits >= 5:
            bits -= 5
            out.append((acc >> bits) & 31)
    if bits:
        out.append((acc << (5 - bits)) & 31)
    return out


def segwit(hrp, ver, prog, var):
    """the address text for (hrp, version, program) under checksum constant var"""
    const = 1 if var == "bech32" else 0x2bc830a3
    data = [ver] + _to5(bytes(prog))
    ex = [ord(c) >> 5 for c in hrp] + [0] + [ord(c) & 31 for c in hrp]
    pm = _polymod(ex + data + [0] * 6) ^ const
    return hrp + "1" + "".join(_BCH[d] for d in data + [(pm >> 5 * (5 - i)) & 31 for i in range(6)])


def bech32_text(hrp, syms, var):
    """the Bech32 / Bech32m text of (hrp, 5-bit data symbols)"""
    const = 1 if var == "bech32" else 0x2bc830a3
    data = list(syms)
    ex = [ord(c) >> 5 for c in hrp] + [0] + [ord(c) & 31 for c in hrp]
    pm = _polymod(ex + data + [0] * 6) ^ const
    return hrp + "1" + "".join(_BCH[d] for d in data + [(pm >> 5 * (5 - i)) & 31 for i in range(6)])


def bech32_dec(s):
    """(hrp, data symbols, var) of a valid Bech32 / Bech32m text (BIP173 / BIP350 rules), else None"""
    if not s or any(ord(c) < 33 or ord(c) > 126 for c in s) or (s.lower() != s and s.upper() != s):
        return None
    s = s.lower()
    pos = s.rfind("1")
    if pos < 1 or pos + 7 > len(s) or len(s) > 90:
        return None
    hrp, dp = s[:pos], s[pos + 1:]
    if any(c not in _BCH for c in dp):
        return None
    data = [_BCH.index(c) for c in dp]
    ex = [ord(c) >> 5 for c in hrp] + [0] + [ord(c) & 31 for c in hrp]
    var = {1: "bech32", 0x2bc830a3: "bech32m"}.get(_polymod(ex + data))
    if var is None:
        return None
    return hrp, data[:-6], var


def segwit_dec(s):
    """(hrp, ver, prog, var) of a well-formed segwit-style text (any version / length), else None"""
    if not s or any(ord(c) < 33 or ord(c) > 126 for c in s) or (s.lower() != s and s.upper() != s):
        return None
    s = s.lower()
    pos = s.rfind("1")
    if pos < 1 or pos + 7 > len(s) or len(s) > 90:
        return None
    hrp, dp = s[:pos], s[pos + 1:]
    if any(c not in _BCH for c in dp):
        return None
    data = [_BCH.index(c) for c in dp]
    ex = [ord(c) >> 5 for c in hrp] + [0] + [ord(c) & 31 for c in hrp]
    pm = _polymod(ex + data)
    var = {1: "bech32", 0x2bc830a3: "bech32m"}.get(pm)
    if var is None or len(data) < 7:
        return None
    ver, syms = data[0], data[1:-6]
    acc = bits = 0
    out = []
    for v in syms:
        acc = (acc << 5) | v
        bits += 5
        if bits >= 8:
            bits -= 8
            out.append((acc >> bits) & 255)
    if bits >= 5 or (acc & ((1 << bits) - 1)):
        return None
    return hrp, ver, bytes(out), var


def ev(t):
    """evaluate an uninterpreted term printed by the specs -> bytes (or str for text terms)"""
    op = t["op"]
    if op == "bytes":
        return bytes(t["a"])
    if op == "cat":
        return b"".join(ev(x) for x in t["a"])
    if op == "h160":
        return h160(ev(t["a"]))
    if op == "sha256":
        return hashlib.sha256(ev(t["a"])).digest()
    if op == "b58c":
        return b58check(ev(t["a"]))
    if op == "chars":
        return "".join(map(chr, t["a"]))
    if op == "segwit":
        return segwit("".join(map(chr, t["hrp"])), t["ver"], ev(t["a"]), t["var"])
    if op == "hmac512":
        return hmac.new(ev(t["key"]), ev(t["a"]), hashlib.sha512).digest()
    raise ValueError("unknown term " + op)


# ---------------------------------------------------------------- secp256k1 (affine, for key tables)
P = 2**256 - 2**32 - 977
N = 0xFFFFFFFFFFFFFFFFFFFFFFFFFFFFFFFEBAAEDCE6AF48A03BBFD25E8CD0364141
G = (0x79BE667EF9DCBBAC55A06295CE870B07029BFCDB2DCE28D959F2815B16F81798,
     0x483ADA7726A3C4655DA4FBFC0E1108A8FD17B448A68554199C47D08FFB10D4B8)


def _add(a, b):
    if a is None:
        return b
    if b is None:
        return a
    if a[0] == b[0]:
        if (a[1] + b[1]) % P == 0:
            return None
        lam = 3 * a[0] * a[0] * pow(2 * a[1], -1, P) % P
    else:
        lam = (b[1] - a[1]) * pow(b[0] - a[0], -1, P) % P
    x = (lam * lam - a[0] - b[0]) % P
    return (x, (lam * (a[0] - x) - a[1]) % P)


def ec_mul(k, pt=G):
    r = None
    while k:
        if k & 1:
            r = _add(r, pt)
        pt = _add(pt, pt)
        k >>= 1
    return r


def y_for_x(x, odd):
    """the y of parity odd with (x, y) on the curve, or None"""
    if not 0 <= x < P:
        return None
    a = (pow(x, 3, P) + 7) % P
    y = pow(a, (P + 1) // 4, P)
    if y * y % P != a:
        return None
    return y if (y & 1) == bool(odd) else P - y


def on_curve(x, y):
    return 0 <= x < P and 0 <= y < P and (y * y - x * x * x - 7) % P == 0


def sec_of(pt, compressed=True):
    x, y = pt
    if compressed:
        return bytes([2 + (y & 1)]) + x.to_bytes(32, "big")
    return b"\4" + x.to_bytes(32, "big") + y.to_bytes(32, "big")


# ---------------------------------------------------------------- token scripts -> bytes
OPCODES = {"DUP": 0x76, "HASH160": 0xa9, "EQUALVERIFY": 0x88, "CHECKSIG": 0xac, "EQUAL": 0x87,
           "CHECKMULTISIG": 0xae, "RETURN": 0x6a, "NOP": 0x61, "1NEGATE": 0x4f,
           "VER": 0x62, "IF": 0x63, "NOTIF": 0x64, "VERIF": 0x65}
OPCODES.update({str(k): 0x50 + k for k in range(1, 17)})
OPNAMES = {v: ("OP_" + k) for k, v in OPCODES.items()}


def data_bytes(ln, ident, subst=None):
    if subst and ident in subst and len(subst[ident]) == ln:
        return subst[ident]
    return bytes([0xA0 + ident]) * ln


def push_bytes(d, enc):
    n = len(d)
    if enc == "min":
        if n == 0:
            return b"\x00"
        if n <= 75:
            return bytes([n]) + d
        if n <= 255:
            return b"\x4c" + bytes([n]) + d
        return b"\x4d" + n.to_bytes(2, "little") + d
    # "big": the next larger PUSHDATA form
    if n <= 75:
        return b"\x4c" + bytes([n]) + d
    if n <= 255:
        return b"\x4d" + n.to_bytes(2, "little") + d
    return b"\x4e" + n.to_bytes(4, "little") + d


def script_bytes(toks, subst=None):
    """toks: [["op", name] | ["push", len, enc, id]]"""
    out = b""
    for t in toks:
        if t[0] == "op":
            out += bytes([OPCODES[t[1]]])
        else:
            out += push_bytes(data_bytes(t[1], t[3], subst), t[2])
    return out


def script_text(toks, subst=None):
    """a textual form of a token script (the usual disassembly notation)"""
    out = []
    for t in toks:
        if t[0] == "op":
            out.append("OP_" + t[1])
        elif t[1] == 0 and t[2] == "min":
            out.append("OP_0")
        else:
            out.append("[%s]" % data_bytes(t[1], t[3], subst).hex())
    return " ".join(out)


PYCOIN_KIND = {"p2pkh": "p2pkh", "p2sh": "p2sh", "p2pkh_wit": "p2wpkh", "p2sh_wit": "p2wsh", "p2tr": "p2tr",
               "p2pk": "p2pk", "multisig": "multisig", "nulldata": "nulldata", "unknown": "unknown"}


def _data_id(d):
    """(len, id) of data built by data_bytes, else the raw hex"""
    if len(d) == 0:
        return [0, 0]
    if len(set(d)) == 1 and 0xA0 <= d[0] < 0xC0:
        return [len(d), d[0] - 0xA0]
    return ["raw", d.hex()]


def project_info(info):
    """pycoin's script_info -> the Report record of Classify.tla"""
    k = PYCOIN_KIND.get(info.get("type"), "other:%s" % info.get("type"))
    r = {"kind": k, "h": [0, 0], "m": 0, "keys": [], "rest": b""}
    if k in ("p2pkh", "p2sh", "p2wpkh"):
        r["h"] = _data_id(info["hash160"])
    elif k == "p2wsh":
        r["h"] = _data_id(info["hash256"])
    elif k == "p2tr":
        r["h"] = _data_id(info["synthetic_key"])
    elif k == "p2pk":
        r["h"] = _data_id(info["sec"])
    elif k == "multisig":
        r["m"] = info["m"]
        r["keys"] = [_data_id(x) for x in info["sec_keys"]]
    elif k == "nulldata":
        r["rest"] = info["data"]
    return r


def classify(n, script):
    """(tag, projected info, rebuilt bytes) for one script on network n"""
    try:
        info = n.contract.info_for_script(script)
    except Exception as e:  # noqa: BLE001
        return ("exc:" + type(e).__name__, None, None)
    try:
        rebuilt = n.contract.for_info(info)
    except Exception as e:  # noqa: BLE001
        return ("exc-rebuild:" + type(e).__name__, project_info(info), None)
    return ("ok", project_info(info), rebuilt)


# ---------------------------------------------------------------- calling parsers
class _Null(object):
    def write(self, _):
        return 0

    def flush(self):
        pass


_NULL = _Null()


def call(f, *a):
    """('ok', value) | ('exc', TypeName); pycoin's groestl stub prints a hint on every call: not shown"""
    import sys
    saved = sys.stdout
    sys.stdout = _NULL
    try:
        return ("ok", f(*a))
    except Exception as e:  # noqa: BLE001 - totality is the property: the type is reported
        return ("exc", type(e).__name__)
    finally:
        sys.stdout = saved


# ---------------------------------------------------------------- C18: text structures <-> characters
# junk texts (ParseDispatch: form "junk", index v): totality only
JUNK = ["", " ", "\t\n", "\u00e9", "1" * 200, "\udc80", "0x10", "-5", "+5", " 5", "5_0", "1e5", "OP_", "[zz]", "''", "0x",
        "\U0001F600", "a" * 1000, "1/", "/1", ",", ":", "::", "E:\udc80"]


def _chars(a):
    return "".join(map(chr, a))


def _num_text(t):
    v = int.from_bytes(bytes(t["d"]), "big")
    if t["w"] == "dec":
        s = "%d" % v
        return s.rjust(t["v"], "0")
    return ("%x" % v).rjust(t["v"], "0") if t["v"] else ""


def text_of(t):
    """characters of a text structure (ParseDispatch.tla's T), or None if it cannot be built here"""
    f = t["f"]
    if f in ("b58c", "b58bad"):
        if t["w"] != "sha256d":
            return None
        s = b58check(bytes(t["d"]))
        if f == "b58bad":
            s = s[:-1] + ("2" if s[-1] != "2" else "3")
        return s
    if f in ("seg", "segbad"):
        s = segwit(_chars(t["a"]), t["v"], bytes(t["d"]), t["w"])
        if f == "segbad":
            s = s[:-1] + ("q" if s[-1] != "q" else "p")
        return s
    if f == "bech":
        return bech32_text(_chars(t["a"]), t["d"], t["w"])
    if f == "colon":
        if t["w"] == "hex":
            rest = bytes(t["d"]).hex()
        elif t["w2"] == "utf8":
            rest = bytes(t["d2"]).decode("utf8")
        else:
            rest = "\udc80abc"
        return _chars(t["a"]) + ":" + rest
    if f == "num":
        return _num_text(t)
    if f == "pair":
        x = int.from_bytes(bytes(t["d"]), "big")
        xs = ("%x" % x) if t["v"] == 16 else "%d" % x
        ys = t["w2"] if t["w2"] in ("even", "odd") else "%d" % int.from_bytes(bytes(t["d2"]), "big")
        return xs + t["w"] + ys
    if f == "hexsec":
        return _chars(t["a"]) + (bytes(t["d"]).hex() if t["w"] == "hex" else "02zz")
    if f == "script":
        return script_text(t["toks"])
    if f == "junk":
        return JUNK[t["v"] - 1]
    raise ValueError(f)


def sec_oracle(b):
    """the curve oracle for SEC bytes: 02/03 ++ x with x the abscissa of a point, 04 ++ x ++ y with (x, y) a point"""
    if len(b) == 33 and b[0] in (2, 3):
        return y_for_x(int.from_bytes(b[1:], "big"), 0) is not None
    if len(b) == 65 and b[0] == 4:
        return on_curve(int.from_bytes(b[1:33], "big"), int.from_bytes(b[33:], "big"))
    return False


def _tx(f, **kw):
    t = {"f": f, "d": [], "d2": [], "a": [], "v": 0, "w": "", "w2": "", "on": False, "toks": []}
    t.update(kw)
    return t


import re as _re
_SECPFX = _re.compile(r"^([A-Z]+SEC:?)(.*)$", _re.S)
_HEX = _re.compile(r"^[0-9a-f]*$")
_HEXANY = _re.compile(r"^[0-9a-fA-F]+$")
_DEC = _re.compile(r"^[0-9]+$")
OPBYNAME = {"OP_" + k: k for k in OPCODES}


def _strip0(b):
    return list(bytes(b).lstrip(b"\0"))


def structure_of(s):
    """the structure (ParseDispatch.tla's T) of a text, by independent decoders; junk when it has none.
    Only lower-case hex and plain numerals are given a structure (other spellings are junk: totality only)."""
    p = b58check_dec(s)
    if p is not None:
        on = len(p) == 78 and sec_oracle(p[45:])
        return _tx("b58c", d=list(p), w="sha256d", on=on)
    sg = segwit_dec(s)      # (an all-upper-case Bech32 text is the same text: BIP173)
    if sg is not None:
        return _tx("seg", a=[ord(c) for c in sg[0]], v=sg[1], d=list(sg[2]), w=sg[3])
    bd = bech32_dec(s)
    if bd is not None:
        return _tx("bech", a=[ord(c) for c in bd[0]], d=list(bd[1]), w=bd[2])
    m = _SECPFX.match(s)
    if m:
        rest = m.group(2)
        if _HEX.match(rest) and len(rest) % 2 == 0 and rest:
            b = bytes.fromhex(rest)
            return _tx("hexsec", a=[ord(c) for c in m.group(1)], w="hex", d=list(b), on=sec_oracle(b))
        return _tx("junk", v=0)
    if ":" in s:
        tag, rest = s.split(":", 1)
        if not all(32 < ord(c) < 127 for c in tag):
            return _tx("junk", v=0)
        try:
            u = rest.encode("utf8")
            w2 = "utf8"
        except UnicodeEncodeError:
            u, w2 = b"", "noutf8"
        if _HEX.match(rest) and len(rest) % 2 == 0:
            b = bytes.fromhex(rest)
            on = len(b) == 64 and on_curve(int.from_bytes(b[:32], "big"), int.from_bytes(b[32:], "big"))
            return _tx("colon", a=[ord(c) for c in tag], w="hex", d=list(b), w2=w2, d2=list(u), on=on)
        return _tx("colon", a=[ord(c) for c in tag], w="nothex", d2=list(u) if w2 == "utf8" else [], w2=w2)
    for sep in ",/":           # the first separator present, ',' before '/'
        if sep in s:
            xs, ys = s.split(sep, 1)
            if not _DEC.match(xs) or (xs[0] == "0" and len(xs) > 1):
                return _tx("junk", v=0)
            x = int(xs)
            if ys in ("even", "odd"):
                on = x < P and y_for_x(x, ys == "odd") is not None
                return _tx("pair", w=sep, d=_strip0(x.to_bytes(40, "big")), w2=ys, on=on, v=10)
            if _DEC.match(ys) and not (ys[0] == "0" and len(ys) > 1):
                y = int(ys)
                if x < 2**300 and y < 2**300:
                    return _tx("pair", w=sep, d=_strip0(x.to_bytes(40, "big")), w2="num", d2=_strip0(y.to_bytes(40, "big")),
                               on=on_curve(x, y), v=10)
            return _tx("junk", v=0)
    if _DEC.match(s) and len(s) <= 200:
        v = int(s)
        d2 = list(bytes.fromhex(s)) if len(s) % 2 == 0 else []
        return _tx("num", w="dec", v=len(s), d=_strip0(v.to_bytes(100, "big")), d2=d2, on=sec_oracle(bytes(d2)))
    if _HEX.match(s) and s and len(s) <= 200:
        v = int(s, 16)
        d2 = list(bytes.fromhex(s)) if len(s) % 2 == 0 else []
        return _tx("num", w="hex", v=len(s), d=_strip0(v.to_bytes(100, "big")), d2=d2, on=sec_oracle(bytes(d2)))
    toks = tokens_of_text(s)
    if toks:
        return _tx("script", toks=toks)
    return _tx("junk", v=0)


def tokens_of_text(s):
    """token script of a text in the notation script_text() writes (None if it is not one)"""
    out = []
    parts = s.split(" ")
    if not s or any(p == "" for p in parts):
        return None
    for i, p in enumerate(parts):
        if p == "OP_0":
            out.append(["push", 0, "min", 0])
        elif p in OPBYNAME:
            out.append(["op", OPBYNAME[p]])
        elif p.startswith("[") and p.endswith("]") and _HEX.match(p[1:-1]) and len(p) % 2 == 0 and len(p) > 2:
            d = bytes.fromhex(p[1:-1])
            if len(set(d)) != 1 or not (0xA0 <= d[0] < 0xC0):
                return None
            out.append(["push", len(d), "min", d[0] - 0xA0])
        else:
            return None
    return out


def tokens_of_script(b):
    """token script of bytes (inverse of script_bytes); None when it is not built from our alphabet"""
    out = []
    i = 0
    while i < len(b):
        c = b[i]
        if c == 0:
            out.append(["push", 0, "min", 0])
            i += 1
        elif c <= 75 or c in (0x4c, 0x4d):
            if c <= 75:
                n, hdr = c, 1
            elif c == 0x4c:
                if i + 2 > len(b):
                    return None
                n, hdr = b[i + 1], 2
            else:
                if i + 3 > len(b):
                    return None
                n, hdr = int.from_bytes(b[i + 1:i + 3], "little"), 3
            d = b[i + hdr:i + hdr + n]
            if len(d) != n or (n and (len(set(d)) != 1 or not (0xA0 <= d[0] < 0xC0))):
                return None
            enc = "min" if push_bytes(d, "min") == b[i:i + hdr + n] else "big"
            out.append(["push", n, enc, d[0] - 0xA0 if n else 0])
            i += hdr + n
        elif c in OPNAMES:
            out.append(["op", OPNAMES[c][3:]])
            i += 1
        else:
            return None
    return out


# ---------------------------------------------------------------- C18: projection of parse results
ADDR_TYPES = {"p2pkh": "p2pkh", "p2sh": "p2sh", "p2pkh_wit": "p2wpkh", "p2sh_wit": "p2wsh", "p2tr": "p2tr"}


def category(obj):
    from pycoin.key.BIP32Node import BIP32Node
    from pycoin.key.BIP49Node import BIP49Node
    from pycoin.key.BIP84Node import BIP84Node
    from pycoin.key.electrum import ElectrumWallet
    from pycoin.key.Key import Key
    from pycoin.networks.Contract import Contract
    if isinstance(obj, Contract):
        return "contract"
    if isinstance(obj, BIP84Node):
        return "bip84"
    if isinstance(obj, BIP49Node):
        return "bip49"
    if isinstance(obj, BIP32Node):
        return "bip32"
    if isinstance(obj, ElectrumWallet):
        return "electrum"
    if isinstance(obj, Key):
        return "key"
    return "other:" + type(obj).__name__


def project(obj):
    """candidate outcome records (ParseDispatch.tla's O) for what a parser returned.
    A Contract gives two candidates (as an address contract, as a script)."""
    none = {"r": "none", "k": "", "p": False, "d": [], "d2": [], "b": False, "s": "", "toks": []}
    if obj is None:
        return [none]
    cat = category(obj)
    base = dict(none, r="obj")
    if cat == "contract":
        info = obj.info()
        script = obj.script()
        out = []
        k = ADDR_TYPES.get(info.get("type"))
        if k:
            h = info.get("hash160") or info.get("hash256") or info.get("synthetic_key") or b""
            out.append(dict(base, k="contract", s=k, d=list(h)))
        toks = tokens_of_script(script)
        out.append(dict(base, k="script", toks=toks if toks is not None else [["raw", script.hex()]]))
        return out
    if cat in ("bip32", "bip49", "bip84"):
        prv = obj.secret_exponent() is not None
        return [dict(base, k=cat, p=prv, d=list(obj.serialize(as_private=prv)))]
    if cat == "electrum":
        if obj.secret_exponent() is not None:
            return [dict(base, k="electrum", s="prv", p=True, d=list(obj.secret_exponent().to_bytes(32, "big")))]
        return [dict(base, k="electrum", s="pub", d=list(obj.master_public_key()))]
    if cat == "key":
        se = obj.secret_exponent()
        if se is not None:
            return [dict(base, k="key", p=True, d=list(se.to_bytes(32, "big")), b=bool(obj.is_compressed()))]
        x, y = obj.public_pair()
        return [dict(base, k="key", d=list(x.to_bytes((max(x.bit_length(), 1) + 7) // 8, "big").rjust(32, b"\0")), d2=[y & 1], b=bool(obj.is_compressed()))]
    return [dict(base, k=cat)]


_STRETCH = {}


def electrum_stretch(seed_bytes):
    """the master private key an electrum seed stands for: 100000 rounds of SHA-256 over (state ++ hex seed)
    (evaluates the term OElectrum("seed", ..) denotes; cached)"""
    k = bytes(seed_bytes)
    if k not in _STRETCH:
        seed = k.hex().encode("utf8")
        b = seed
        for _ in range(100000):
            b = hashlib.sha256(b + seed).digest()
        _STRETCH[k] = b
    return _STRETCH[k]


def material(obj):
    """key material of a key-like object (for the weak equality used with electrum wallets)"""
    se = obj.secret_exponent()
    pp = obj.public_pair()
    return (se, tuple(pp))


def master_body(ms):
    """the 74-byte BIP32 serialisation body of the master node of a seed (evaluates the term OSeed stands for)"""
    i64 = hmac.new(b"Bitcoin seed", bytes(ms), hashlib.sha512).digest()
    return b"\0" + b"\0" * 4 + b"\0" * 4 + i64[32:] + b"\0" + i64[:32]


def canonical_text(obj):
    """the text an object re-serialises to (its own API)"""
    cat = category(obj)
    if cat == "contract":
        if obj.info().get("type") in ADDR_TYPES:
            return obj.address()
        return obj.disassemble()
    if cat in ("bip32", "bip49", "bip84"):
        return obj.hwif(as_private=obj.secret_exponent() is not None)
    return obj.as_text()


ENTRY_ATTR = {"parse": None}


def entry(n, name):
    return n.parse if name == "parse" else getattr(n.parse, name)


# ---------------------------------------------------------------- Base58Check under other checksum functions
def _blake4(b):
    return hashlib.blake2b(bytes(b), digest_size=4).digest()


# name of a checksum function (the `chk` of a network row / of a b58c term) -> the 4 check bytes of a payload
CHECKSUMS = {"sha256d": lambda b: sha256d(b)[:4], "blake2b4": _blake4}


def b58check_chk(chk, payload):
    """the Base58Check text of payload under the named checksum function (KeyError: not computable here)"""
    payload = bytes(payload)
    return b58enc(payload + CHECKSUMS[chk](payload))


def b58check_dec_chk(chk, s):
    """payload of a Base58 text validly checksummed under the named function, else None"""
    if not s or any(ch not in B58 for ch in s):
        return None
    raw = b58dec(s)
    if raw is None or len(raw) < 4 or CHECKSUMS[chk](raw[:-4]) != raw[-4:]:
        return None
    return raw[:-4]


def ev_text(t):
    """evaluate a text term; a b58c term under the checksum function it names"""
    if t["op"] == "b58c":
        return b58check_chk(t.get("chk", "sha256d"), ev(t["a"]))
    return ev(t)


def segwit_syms(s):
    """(hrp, ver, data symbols after the version, var) of a valid Bech32 / Bech32m text with at least a version
    symbol - WITHOUT the 5-to-8 regrouping (so that texts failing BIP173's padding rule have a structure too)"""
    d = bech32_dec(s)
    if d is None or not d[1]:
        return None
    return d[0], d[1][0], list(d[1][1:]), d[2]


# ---------------------------------------------------------------- networks beyond the registry
def extra_networks():
    """[(symbol, network, chk)]: networks built through pycoin's public construction API the way pycoin/symbols/grs.py
    builds the Groestlcoin family (create_bitcoinish_network + a ParseAPI subclass overriding parse_b58_hashed + the
    documented AddressAPI.b2a hook), with a checksum function that CAN be computed in this sandbox.  They stand in for the
    registered networks with their own Base58 checksum, whose text layer is disabled here (L3).  Version bytes are
    those of BTC on purpose: only the checksum function keeps the two networks' texts apart."""
    global _EXTRA
    if _EXTRA is None:
        from pycoin.encoding.b58 import b2a_base58
        from pycoin.networks.ParseAPI import ParseAPI
        from pycoin.networks.bitcoinish import create_bitcoinish_network
        from pycoin.networks.parseable_str import parse_b58, parseable_str

        def dec(s):
            data = parse_b58(s)
            if data and len(data) >= 4 and _blake4(data[:-4]) == data[-4:]:
                return data[:-4]
            return None

        class _Blake4ParseAPI(ParseAPI):
            def parse_b58_hashed(self, s):
                return parseable_str(s).cache("b58_blake2b4", dec)

        def b2a(data):
            return b2a_base58(data + _blake4(data))

        n = create_bitcoinish_network(
            symbol="VFK", network_name="Checksum stand-in", subnet_name="mainnet",
            wif_prefix_hex="80", address_prefix_hex="00", pay_to_script_prefix_hex="05",
            bip32_prv_prefix_hex="0488ade4", bip32_pub_prefix_hex="0488B21E",
            bip49_prv_prefix_hex="049d7878", bip49_pub_prefix_hex="049D7CB2",
            bip84_prv_prefix_hex="04b2430c", bip84_pub_prefix_hex="04B24746",
            bech32_hrp="vfk", parse_api_class=_Blake4ParseAPI)
        n.address.b2a = b2a
        n.bip32_as_string = lambda blob, as_private: b2a(bytes.fromhex("0488ade4" if as_private else "0488b21e") + blob)
        n.wif_for_blob = lambda blob: b2a(b"\x80" + blob)
        _EXTRA = [("VFK", n, "blake2b4")]
        _EXTRA_CONF["VFK"] = {"p2pkh": [0x00], "p2sh": [0x05], "hrp": [ord(c) for c in "vfk"]}
    return _EXTRA


def networks_ext():
    """the registered networks followed by the extra ones"""
    return networks() + [(s, n) for s, n, _ in extra_networks()]


_EXTRA_CONF = {}


def table_ext():
    """rows of the extra networks: the address parameters are the CONFIGURATION handed to pycoin's constructor above
    (so an encoder that does not honour it is seen), the other columns are derived as in table()"""
    out = []
    for s, n, chk in extra_networks():
        row = _row(s, n, chk)
        row.update(_EXTRA_CONF[s])
        out.append(row)
    return out


# ---------------------------------------------------------------- C18: every text accessor of a parsed object
def stated_texts(obj, prv, names):
    """[(accessor, keyword accepted?, 'ok' | 'exc', text)] for those of the named accessors the object really has
    (discovered, not assumed).  An accessor is first asked with as_private=prv; one that does not know the keyword
    is asked without arguments."""
    out = []
    for nm in sorted(names):
        f = getattr(obj, nm, None)
        if not callable(f):
            continue
        kw = True
        try:
            import inspect
            kw = "as_private" in inspect.signature(f).parameters
        except (TypeError, ValueError):
            kw = False
        tag, v = call(lambda: f(as_private=prv)) if kw else call(f)
        out.append((nm, kw, tag, v))
    return out


_TOKEN = _re.compile(r"[0-9A-Za-z:]+")


def printed_texts(obj, names, forms):
    """[(printer, token)]: the words of repr(obj) / str(obj) that are, by the independent decoders, a text of one of the
    given forms (a validly checksummed Base58 / Bech32 word, a SEC text)"""
    out = []
    for nm in sorted(names):
        f = {"repr": repr, "str": str}.get(nm)
        if f is None:
            continue
        tag, s = call(f, obj)
        if tag != "ok" or not isinstance(s, str):
            out.append((nm, None))
            continue
        for tok in _TOKEN.findall(s):
            if len(tok) >= 8 and structure_of(tok)["f"] in forms:
                out.append((nm, tok))
    return out


def ev_public_half(t):
    """the text of the public counterpart of a private extended key (term "extpub" of ParseDispatch.tla):
    Base58Check(public version ++ header and chain code ++ compressed SEC of k*G)"""
    k = int.from_bytes(bytes(t["k"]), "big")
    return b58check(bytes(t["pfx"]) + bytes(t["head"]) + sec_of(ec_mul(k), True))
