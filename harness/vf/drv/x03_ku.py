"""X03 driver: the `ku` command front-end, in-process.

(a) data for the specs: the network table (vf.drv.nets.table() + the display names), the pool of keys
    (exponents with their points and hashes, computed by the affine reference curve of vf.drv.bip32 and hashlib);
(b) evaluation of the rendering terms spec/X03_KuTable.tla prints (values of table rows) - composition of the two
    existing term evaluators (vf.drv.bip32.Evaluator for byte/scalar/point terms, vf.drv.nets for address texts);
(c) driving pycoin.cmds.ku exactly as the repository's own ToolTest does (create_parser + ku(args, parser)),
    capturing stdout / stderr / the exception, and reading the text and JSON forms back into rows;
(d) decoding printed values with independent decoders (for the trace spec).

Nothing here knows what a table should contain: rows, their order, which appear under which flags, every value's
structure come from TLC.
"""
from __future__ import annotations

import contextlib
import hashlib
import io
import json
import random
import re

from . import bip32 as D
from . import nets

# ---------------------------------------------------------------- (a) data for the specs


def net_table():
    rows = nets.table()
    for r in rows:
        n = nets.net(r["sym"])
        r["name"] = str(n.network_name)
        r["subnet"] = str(n.subnet_name)
        r["symbol"] = str(n.symbol)          # as displayed ("tDASH"); `sym` is the registry code ("TDASH")
    return rows


def h160(b):
    return hashlib.new("ripemd160", hashlib.sha256(b).digest()).digest()


_HAS_LETTER = re.compile(r"[a-f]")


def _pool_entry(se, rnd, tag):
    x, y = D.mul_g(se)
    seb, xb, yb = (v.to_bytes(32, "big") for v in (se, x, y))
    secc = bytes([2 + (y & 1)]) + xb
    secu = b"\4" + xb + yb
    hc, hu = h160(secc), h160(secu)
    return {"tag": tag, "se": list(seb), "x": list(xb), "y": list(yb),
            "chain": [rnd.randrange(256) for _ in range(32)], "pfp": [rnd.randrange(256) for _ in range(4)],
            "hc": list(hc), "hu": list(hu), "hs": list(h160(b"\0\x14" + hc)),
            "ms": [rnd.randrange(256) for _ in range(rnd.choice((16, 32, 64)))],
            "pw": list(("vf x03 %s %d" % (tag, rnd.randrange(10 ** 6))).encode()),
            "es": [rnd.randrange(256) for _ in range(16)],
            # a hex numeral without a letter a-f would be read as decimal: such keys are not written in those forms
            "sehex": bool(_HAS_LETTER.search("%x" % se)) and len("%x" % se) != 40,
            "xhex": bool(_HAS_LETTER.search("%x" % x)),
            "sechex": bool(_HAS_LETTER.search(secc.hex())) and bool(_HAS_LETTER.search(secu.hex()))}


def make_pool(seed, extra):
    """boundary keys first (1, n-1, an exponent with leading zero bytes, a point whose x has a leading zero byte),
    then `extra` seeded random ones"""
    rnd = random.Random(seed * 1000003 + 303)
    out = [_pool_entry(rnd.randrange(1, D.N), rnd, "rnd0"), _pool_entry(rnd.randrange(1, D.N), rnd, "rnd1"),
           _pool_entry(1, rnd, "one"), _pool_entry(D.N - 1, rnd, "n-1"),
           _pool_entry(rnd.randrange(1, 1 << 200), rnd, "short-se")]
    while True:       # x < 2^248: "%x" has fewer than 64 digits, SEC keeps the zero byte
        se = rnd.randrange(1, D.N)
        if D.mul_g(se)[0] < (1 << 248):
            out.append(_pool_entry(se, rnd, "short-x"))
            break
    for i in range(extra):
        out.append(_pool_entry(rnd.randrange(1, D.N), rnd, "rnd%d" % (i + 2)))
    return out


# ---------------------------------------------------------------- (b) evaluation of rendering terms
class Binding:
    """the abstract key "self" bound to concrete bytes, and the evaluation of row values under it"""

    def __init__(self, ev=None):
        self.ev = ev or D.Evaluator()

    def bind(self, tpl, node, strict=True):
        """node: the exported BIP32-style record of terms with literal leaves; tpl: the template key"""
        ev = self.ev
        if tpl["cls"] == "contract":
            f = {"h": ev.B(node["key"])}
        else:
            key = node["key"]
            if key["t"] == "sum":
                k = ev.S(key, strict)
                f = {"k": k.to_bytes(32, "big"), "K": D.ser_p(ev.mulG(k))}
            else:
                f = {"k": None, "K": D.ser_p(ev.Pt(key, strict))}
            if tpl["cls"] == "hd":
                f["pfp"] = ev.B(node["pfp"])
                f["chain"] = ev.B(node["chain"])
        ev.bind("self", f)
        self.fields = f
        return f

    def text(self, t):
        """a text term: BIP32!B58Check (t-record) or Address!AddrTerm (op-record around a t-record)"""
        if "t" in t:
            return self.ev.text(t)
        if t["op"] == "b58c":
            if t["chk"] != "sha256d":
                raise D.EvalError("checksum function %r cannot be computed here" % t["chk"])
            cat = t["a"]
            return nets.b58check(bytes(cat["a"][0]["a"]) + self.ev.B(cat["a"][1]))
        if t["op"] == "segwit":
            return nets.segwit("".join(map(chr, t["hrp"])), t["ver"], self.ev.B(t["a"]), t["var"])
        raise D.EvalError("unknown text term %r" % (t.get("op"),))

    def value(self, v, item):
        x = v["x"]
        if x == "lit":
            return v["s"]
        if x == "input":
            return item
        if x == "hex":
            return self.ev.B(v["a"]).hex()
        if x == "hexmin":
            return "%x" % int.from_bytes(self.ev.B(v["a"]), "big")
        if x == "dec":
            return "%d" % int.from_bytes(self.ev.B(v["a"]), "big")
        if x == "parity":
            return "odd" if self.ev.B(v["a"])[-1] & 1 else "even"
        if x == "text":
            return self.text(v["a"])
        raise D.EvalError("unknown rendering term %r" % x)


# ---------------------------------------------------------------- (c) driving ku
_PARSER = None


def _tool():
    global _PARSER
    from pycoin.cmds import ku
    if _PARSER is None:
        _PARSER = ku.create_parser()
    return ku, _PARSER


class Ran:
    __slots__ = ("out", "err", "exc", "argv")

    def __init__(self, argv, out, err, exc):
        self.argv, self.out, self.err, self.exc = argv, out, err, exc


def run_ku(argv):
    """ku(args) in this process; -> Ran.  SystemExit (argparse) is an exception like any other here."""
    ku, parser = _tool()
    out, err = io.StringIO(), io.StringIO()
    exc = None
    try:
        with contextlib.redirect_stdout(out), contextlib.redirect_stderr(err):
            ku.ku(parser.parse_args(list(argv)), parser)
    except BaseException as e:  # noqa: BLE001 - whatever the command does is an observation
        if isinstance(e, (KeyboardInterrupt, MemoryError)):
            raise
        exc = type(e).__name__
    return Ran(list(argv), out.getvalue(), err.getvalue(), exc)


def argv_of(case, item):
    """the command line of an enumerated case (option letters as in ku --help)"""
    o = case["opts"]
    a = []
    if case["nopt"]:
        a += ["-n", case["nopt"]]
    if case["ov"]:
        a += ["--override-network", case["ov"]]
    if o["pub"]:
        a.append("-P")
    if o["json"]:
        a.append("-j")
    if o["unc"]:
        a.append("-u")
    if o["sel"]:
        a.append("-" + o["sel"])
    if case["sub"]:
        a += ["-s", "".join(case["sub"])]
    if o["brief"]:
        a += ["-b"] + list(o["brief"]) + ["--"]
    return a + [item]


_LINE = re.compile(r"^(.*?) +: (.*)$")       # (the label column is padded: at least one blank before the colon)


def _json_span(lines, i):
    """lines[i] opens a JSON object: the index of the line that closes it (whatever the indentation style), or None"""
    for j in range(i, min(len(lines), i + 200)):
        if lines[j].rstrip().endswith("}"):
            try:
                if isinstance(json.loads("\n".join(lines[i:j + 1])), dict):
                    return j
            except ValueError:
                pass
    return None


def split_outputs(out, modes):
    """stdout of one invocation -> one chunk of lines per expected printout, by the modes the spec gives
    (json: one object; text: a blank line then label lines; single / none: one line).  None if it does not fit."""
    lines = out.split("\n")
    if lines and lines[-1] == "":
        lines.pop()
    chunks = []
    i = 0
    for m in modes:
        if m == "json":
            j = _json_span(lines, i) if i < len(lines) and lines[i].startswith("{") else None
            if j is None:
                return None
            chunks.append(lines[i:j + 1])
            i = j + 1
        elif m == "text":
            if i >= len(lines) or lines[i] != "":
                return None
            j = i + 1
            while j < len(lines) and not lines[j].startswith("{") and lines[j] != "" and (_LINE.match(lines[j]) or lines[j - 1].endswith("\\")):
                j += 1
            chunks.append(lines[i + 1:j])
            i = j
        else:
            if i >= len(lines):
                return None
            chunks.append([lines[i]])
            i += 1
    if i != len(lines):
        return None
    return chunks


def read_text(lines):
    """label lines -> [(label, value)]; a value ending in a backslash continues on the next line"""
    rows = []
    i = 0
    while i < len(lines):
        m = _LINE.match(lines[i])
        if not m:
            return None
        lab, val = m.group(1), m.group(2)
        while val.endswith("\\") and i + 1 < len(lines):
            i += 1
            val = val[:-1] + lines[i].strip()
        rows.append((lab, val))
        i += 1
    return rows


def read_json(lines):
    try:
        d = json.loads("\n".join(lines))
    except ValueError:
        return None
    return d if isinstance(d, dict) else None


# ---------------------------------------------------------------- (d) recording invocations for the trace spec
_HEXRE = re.compile(r"^([0-9a-f]{2})+$")
_HEXMIN = re.compile(r"^(0|[1-9a-f][0-9a-f]*)$")
_DECRE = re.compile(r"^(0|[1-9][0-9]*)$")


def _min_bytes(v):
    return list(v.to_bytes((v.bit_length() + 7) // 8, "big"))


def decode_value(s):
    """every decoding of a printed value that applies (independent decoders; nothing is assumed about which one is meant)"""
    v = {"s": s, "hex": [], "hexmin": [], "dec": [], "b58": [], "segd": [], "seghrp": [], "segver": -1, "segvar": ""}
    if _HEXRE.match(s):
        v["hex"] = list(bytes.fromhex(s))
    if _HEXMIN.match(s) and len(s) <= 140:
        v["hexmin"] = _min_bytes(int(s, 16))
    if _DECRE.match(s) and len(s) <= 200:
        v["dec"] = _min_bytes(int(s))
    p = nets.b58check_dec(s)
    if p is not None:
        v["b58"] = list(p)
    sg = nets.segwit_dec(s) if s == s.lower() else None
    if sg is not None:
        v["seghrp"], v["segver"], v["segd"], v["segvar"] = [ord(c) for c in sg[0]], sg[1], list(sg[2]), sg[3]
    return v


def parse_stdout(out):
    """stdout -> printouts [{"mode": json|text|line, "rows": [{"k", "lab", "v"}]}] by shape alone; None if unreadable"""
    lines = out.split("\n")
    if lines and lines[-1] == "":
        lines.pop()
    res = []
    i = 0
    while i < len(lines):
        ln = lines[i]
        if ln.startswith("{"):
            j = _json_span(lines, i)
            d = read_json(lines[i:j + 1]) if j is not None else None
            if d is None or not all(isinstance(x, str) for x in d.values()):
                return None
            res.append({"mode": "json", "rows": [{"k": k, "lab": "", "v": decode_value(d[k])} for k in sorted(d)]})
            i = j + 1
        elif ln == "":
            j = i + 1
            while j < len(lines) and not lines[j].startswith("{") and lines[j] != "" and (_LINE.match(lines[j]) or lines[j - 1].endswith("\\")):
                j += 1
            rows = read_text(lines[i + 1:j])
            if not rows:
                return None
            res.append({"mode": "text", "rows": [{"k": "", "lab": lab, "v": decode_value(val)} for lab, val in rows]})
            i = j
        else:
            res.append({"mode": "line", "rows": [{"k": "", "lab": "", "v": decode_value(ln)}]})
            i += 1
    return res


class HmacTap:
    """records the HMAC-SHA512 computations made through the stdlib `hmac` module while armed (hmac.HMAC, hence hmac.new,
    and the one-shot hmac.digest are replaced inside the module for the duration; same idea as the C09 recorder)"""

    def __init__(self):
        import hmac
        self.mod = hmac
        self.calls = []
        self.armed = False
        self.saved = None

    def __enter__(self):
        tap, mod = self, self.mod
        real_HMAC, real_new, real_digest = mod.HMAC, mod.new, getattr(mod, "digest", None)
        self.saved = (real_HMAC, real_new, real_digest)

        class TapHMAC(real_HMAC):
            def __init__(self, key, msg=None, digestmod=""):
                self._tap_key, self._tap_msg = bytes(key), b""
                real_HMAC.__init__(self, key, None, digestmod)
                if msg is not None:
                    self.update(msg)

            def update(self, msg):
                self._tap_msg += bytes(msg)
                real_HMAC.update(self, msg)

            def copy(self):
                other = real_HMAC.copy(self)
                other._tap_key, other._tap_msg = self._tap_key, self._tap_msg
                return other

            def digest(self):
                d = real_HMAC.digest(self)
                if tap.armed and len(d) == 64:
                    tap.calls.append((self._tap_key, self._tap_msg, d))
                return d

            def hexdigest(self):
                return self.digest().hex()

        def digest(key, msg, digest):
            d = real_digest(key, msg, digest)
            if tap.armed and len(d) == 64:
                tap.calls.append((bytes(key), bytes(msg), d))
            return d
        mod.HMAC = TapHMAC
        mod.new = lambda key, msg=None, digestmod="": TapHMAC(key, msg, digestmod)
        if real_digest is not None:
            mod.digest = digest
        return self

    def __exit__(self, *a):
        self.mod.HMAC, self.mod.new = self.saved[0], self.saved[1]
        if self.saved[2] is not None:
            self.mod.digest = self.saved[2]
        self.armed = False

    def run(self, f):
        del self.calls[:]
        self.armed = True
        try:
            return f()
        finally:
            self.armed = False


def _hmac_sha512(key, msg):
    """RFC 2104 on hashlib only (the hmac module's names are replaced while recording)"""
    if len(key) > 128:
        key = hashlib.sha512(key).digest()
    key = key.ljust(128, b"\0")
    inner = hashlib.sha512(bytes(x ^ 0x36 for x in key) + msg).digest()
    return hashlib.sha512(bytes(x ^ 0x5C for x in key) + inner).digest()


def numbers_in(sub, cap=40):
    """the integers a sub-key option text mentions, spans expanded (at most `cap` per span), plus 0 and 1"""
    out = {0, 1}
    for comp in re.split(r"[/,]", sub):
        m = re.match(r"^(\d+)(?:-(\d+))?", comp)
        if m:
            a = int(m.group(1))
            b = int(m.group(2)) if m.group(2) else a
            out.update(range(a, min(b, a + cap) + 1))
    return tuple(sorted(out))


class Facts:
    """tables of TRUE facts about the functions TLC cannot compute, for the values of one run.  Supplying more facts
    than a run needs is harmless; which fact is used where is decided by the spec."""

    def __init__(self):
        self.F = {"hmac": [], "h160": [], "pub": [], "add": [], "xy": [], "h256d": [], "stretch": []}
        self._seen = set()
        self.ev = D.Evaluator()

    def _add(self, tab, *row):
        key = (tab,) + tuple(bytes(r) for r in row[:-1])
        if key not in self._seen:
            self._seen.add(key)
            self.F[tab].append([list(r) for r in row])

    def h160(self, b):
        d = h160(b)
        self._add("h160", b, d)
        return d

    def point(self, secc):
        """a public key in compressed form: its coordinates, the hashes of both forms and of the P2WPKH script"""
        try:
            x, y = D.parse_p(secc)
        except ValueError:
            return
        xy = x.to_bytes(32, "big") + y.to_bytes(32, "big")
        self._add("xy", secc, xy)
        hc = self.h160(secc)
        self.h160(b"\4" + xy)
        self.h160(b"\0\x14" + hc)
        return xy

    def scalar(self, kb):
        k = int.from_bytes(kb, "big")
        if not 0 < k < D.N:
            return None
        K = D.ser_p(self.ev.mulG(k))
        self._add("pub", kb, K)
        self.point(K)
        return K

    def hmac_calls(self, calls, roots):
        """the calls pycoin made (digest re-computed); every call keyed by the chain code of a known node makes a child
        node known (k + IL resp. IL G + K, chain IR) - the split IL | IR is all that is assumed"""
        nodes = list(roots)          # (chain, scalar bytes or None, sec)
        for key, msg, out in calls:
            if _hmac_sha512(key, msg) != out:
                raise ValueError("intercepted HMAC digest is not HMAC-SHA512(key, msg)")
            self._add("hmac", key, msg, out)
        changed = True
        done = set()
        while changed:
            changed = False
            for ci, (key, msg, out) in enumerate(calls):
                il, ir = out[:32], out[32:]
                ilv = int.from_bytes(il, "big")
                if ilv >= D.N:
                    continue
                known_chains = {n[0] for n in nodes}
                if key not in known_chains:
                    if ("root", ci) not in done:          # a master key: (IL, IR) of an HMAC keyed by a constant
                        done.add(("root", ci))
                        K = self.scalar(il)
                        if K:
                            nodes.append((ir, il, K))
                            changed = True
                    continue
                for chain, kb, K in list(nodes):
                    if chain != key or (ci, chain, kb, K) in done:
                        continue
                    done.add((ci, chain, kb, K))
                    if kb is not None:
                        ck = ((ilv + int.from_bytes(kb, "big")) % D.N).to_bytes(32, "big")
                        cK = self.scalar(ck)
                        if cK:
                            nodes.append((ir, ck, cK))
                            nodes.append((ir, None, cK))
                            changed = True
                    else:
                        try:
                            R = D.ec_add(self.ev.mulG(ilv), D.parse_p(K))
                        except ValueError:
                            R = None
                        if R is not None:
                            cK = D.ser_p(R)
                            self._add("add", il, K, cK)
                            self.point(cK)
                            nodes.append((ir, None, cK))
                            changed = True
        return nodes

    nums = (0, 1)           # the numbers a run's sub-key option mentions (set by the recorder)

    def electrum(self, secc, kb=None):
        """SHA256d of Electrum's sequence strings "n:c:" + x||y for every pair of numbers the run mentions, and what
        they add to the key (true facts about SHA-256 and the curve; which pair is used where is the spec's business)"""
        xy = self.point(secc)
        if xy is None:
            return
        for n in self.nums:
            for c in self.nums:
                data = ("%d:%d:" % (n, c)).encode() + xy
                z = hashlib.sha256(hashlib.sha256(data).digest()).digest()
                self._add("h256d", data, z)
                if int.from_bytes(z, "big") < D.N:
                    if kb is not None:
                        self.scalar(((int.from_bytes(z, "big") + int.from_bytes(kb, "big")) % D.N).to_bytes(32, "big"))
                    R = D.ec_add(self.ev.mulG(int.from_bytes(z, "big")), D.parse_p(secc))
                    if R is not None:
                        self._add("add", z, secc, D.ser_p(R))
                        self.point(D.ser_p(R))

    def of_structure(self, t):
        """facts about the key material an input text carries; -> root nodes (chain, scalar, sec) for hmac_calls"""
        roots = []
        d = bytes(t["d"])
        if t["f"] == "b58c":
            if len(d) >= 78 and len(d) - 74 in (4,):
                body = d[-74:]
                chain, kd = body[9:41], body[41:]
                if kd[0] == 0:
                    K = self.scalar(kd[1:])
                    if K:
                        roots += [(chain, kd[1:], K), (chain, None, K)]
                else:
                    self.point(kd)
                    roots.append((chain, None, kd))
            else:
                for cut in (32, 33):            # a WIF: the exponent is the last 32 bytes (before the marker)
                    for pl in range(1, 3):
                        if len(d) == pl + cut:
                            self.scalar(d[pl:pl + 32])
        elif t["f"] == "num":
            if len(d) <= 32:
                self.scalar(d.rjust(32, b"\0"))
            b = bytes(t["d2"])
            self._sec(b)
        elif t["f"] == "hexsec":
            self._sec(d)
        elif t["f"] == "pair":
            x = int.from_bytes(d, "big")
            for odd in (0, 1):
                y = nets.y_for_x(x, odd)
                if y is not None:
                    self.point(bytes([2 + odd]) + x.to_bytes(32, "big"))
        elif t["f"] == "colon" and t["a"] == [69] and t["w"] == "hex":
            if len(d) == 16:
                st = nets.electrum_stretch(d)           # (hashes the 32 hex characters of the seed)
                self._add("stretch", d.hex().encode(), st)
                K = self.scalar(st)
                if K:
                    self.electrum(K, kb=st)
            elif len(d) == 32:
                K = self.scalar(d)
                if K:
                    self.electrum(K, kb=d)
            elif len(d) == 64:
                x, y = int.from_bytes(d[:32], "big"), int.from_bytes(d[32:], "big")
                if nets.on_curve(x, y):
                    self.electrum(bytes([2 + (y & 1)]) + d[:32])
        return roots

    def _sec(self, b):
        if len(b) == 33 and b[0] in (2, 3):
            self.point(b)
        elif len(b) == 65 and b[0] == 4:
            self.point(bytes([2 + (b[64] & 1)]) + b[1:33])

    def of_printed(self, printouts):
        """facts about every printed value that could be a key or a public key"""
        for p in printouts:
            for r in p["rows"]:
                v = r["v"]
                if len(v["hex"]) == 33:
                    self._sec(bytes(v["hex"]))
                if v["dec"] and 0 < len(v["dec"]) <= 32 and len(v["s"]) > 20:
                    self.scalar(bytes(v["dec"]).rjust(32, b"\0"))


def parse_cmdline(words):
    """a ku command line (option letters as in ku --help) -> the fields of an event; None if it uses anything else"""
    ev = {"nopt": "", "ov": "", "sub": [], "opts": {"pub": False, "json": False, "unc": False, "sel": "", "brief": []}, "items": []}
    o = ev["opts"]
    i = 0
    sels = []
    while i < len(words):
        w = words[i]
        if w in ("-n", "--network", "--override-network", "-s", "--subkey"):
            if i + 1 >= len(words):
                return None
            val = words[i + 1]
            i += 2
            if w in ("-n", "--network"):
                ev["nopt"] = val
            elif w == "--override-network":
                ev["ov"] = val
            else:
                ev["sub"] = list(val)
            continue
        if w.startswith("-s") and len(w) > 2 and not w.startswith("--"):
            ev["sub"] = list(w[2:])
        elif w.startswith("-") and not w.startswith("--") and len(w) > 1 and all(c in "jauWwP" for c in w[1:]):
            for c in w[1:]:
                if c == "j":
                    o["json"] = True
                elif c == "u":
                    o["unc"] = True
                elif c == "P":
                    o["pub"] = True
                else:
                    sels.append(c)
        elif w.startswith("-"):
            return None
        else:
            ev["items"].append(w)
        i += 1
    if len(sels) > 1:
        return None
    o["sel"] = sels[0] if sels else ""
    return ev
