"""Driver + projection for pycoin's script codecs (C12).

Abstract values used by the specs (spec/ScriptNum.tla, ScriptPush.tla, Disasm.tla):
  * integers   (neg, mag)  - sign and little-endian magnitude bytes (beyond 32 bits)
  * byte strings as run-length lists [{"n": count, "b": byte}, ...]  (70,000-byte pushes are two runs)
This module concretizes them, calls the real code and projects what it returns.
Nothing here knows an expected value.
"""
from __future__ import annotations

import contextlib
import signal

_CACHE = {}


class Hang(BaseException):
    """raised by the alarm: not an Exception, so the catch-alls below do not swallow it"""


@contextlib.contextmanager
def time_limit(seconds=20.0):
    """the code under test may loop forever (a cursor that moves backwards): bound every stage that calls it"""
    def on_alarm(signum, frame):
        raise Hang()
    old = signal.signal(signal.SIGALRM, on_alarm)
    signal.setitimer(signal.ITIMER_REAL, seconds)
    try:
        yield
    finally:
        signal.setitimer(signal.ITIMER_REAL, 0)
        signal.signal(signal.SIGALRM, old)


def api():
    """the objects under test, as the property's observe_at names them"""
    if "st" not in _CACHE:
        from pycoin.symbols.btc import network
        from pycoin.coins.SolutionChecker import ScriptError
        st = network.script
        _CACHE.update(st=st, ss=st.scriptStreamer, ints=st.intStreamer, ScriptError=ScriptError)
    return _CACHE


# ---------------------------------------------------------------- concretization

def expand(rle):
    return b"".join(bytes([r["b"]]) * r["n"] for r in rle)


def rle(bs):
    out = []
    for x in bs:
        if out and out[-1]["b"] == x:
            out[-1]["n"] += 1
        else:
            out.append({"n": 1, "b": x})
    return out


def rle_blob(length, first, fill):
    if length == 0:
        return []
    if length == 1:
        return [{"n": 1, "b": first}]
    return rle_cat([{"n": 1, "b": first}], [{"n": length - 1, "b": fill}])


def rle_cat(a, b):
    a = [dict(r) for r in a]
    for r in b:
        if a and a[-1]["b"] == r["b"]:
            a[-1]["n"] += r["n"]
        else:
            a.append(dict(r))
    return a


def to_int(neg, mag):
    v = int.from_bytes(bytes(mag), "little")
    return -v if neg else v


def from_int(v):
    a = abs(v)
    return v < 0, list(a.to_bytes((a.bit_length() + 7) // 8, "little"))


# ---------------------------------------------------------------- calls + projection

def _exc(e):
    return type(e).__name__


def int_encode(v):
    try:
        return {"out": bytes(api()["ints"].int_to_script_bytes(v))}
    except Exception as e:      # noqa: BLE001 - any exception is the observation
        return {"exc": _exc(e)}


def int_decode(b, strict):
    """-> {"v": int} or {"exc": name, "script_error": bool}"""
    a = api()
    try:
        return {"v": a["ints"].int_from_script_bytes(b, require_minimal=strict)}
    except a["ScriptError"] as e:
        return {"exc": _exc(e), "script_error": True}
    except Exception as e:      # noqa: BLE001
        return {"exc": _exc(e), "script_error": False}


def push(data):
    a = api()
    try:
        one = bytes(a["ss"].compile_push_data(data))
        lst = bytes(a["st"].compile_push_data_list([data]))
        return {"out": one, "list_out": lst}
    except Exception as e:      # noqa: BLE001
        return {"exc": _exc(e)}


def get_opcode(script, pc, vmin):
    """-> {"res": "ok", op, data (bytes|None), pc} | {"res": "bad"} | {"res": "nonminimal"} | {"res": "exc", exc}"""
    a = api()
    try:
        op, data, npc, ok = a["ss"].get_opcode(script, pc, verify_minimal_data=vmin)
    except a["ScriptError"] as e:
        return {"res": "nonminimal", "msg": str(e)}
    except Exception as e:      # noqa: BLE001
        return {"res": "exc", "exc": _exc(e)}
    if not ok:
        return {"res": "bad"}
    return {"res": "ok", "op": op, "data": None if data is None else bytes(data), "pc": npc}


def walk(script, max_steps=100000):
    """ScriptTools.get_opcodes over the whole script -> {"steps": [[pc, new_pc], ...]} | {"exc": name}
    (stops by itself after max_steps or when the cursor does not advance, which is recorded as the last step)"""
    steps = []
    a = api()
    try:
        for opcode, data, pc, new_pc in a["st"].get_opcodes(script):
            steps.append([pc, new_pc])
            if new_pc <= pc or len(steps) >= max_steps:
                break
    except a["ScriptError"]:
        return {"steps": steps, "stopped": "ScriptError"}     # a walker may stop with the library's own error
    except Exception as e:      # noqa: BLE001
        return {"exc": _exc(e), "steps": steps}
    return {"steps": steps}


def vm_run(script, minimaldata):
    """evaluate the script alone in the Bitcoin VM -> {"stack": [bytes]} | {"exc": name, "script_error": bool}"""
    a = api()
    from pycoin.coins.bitcoin.VM import BitcoinVM
    from pycoin.satoshi.flags import VERIFY_MINIMALDATA
    try:
        vm = BitcoinVM(script, None, None, VERIFY_MINIMALDATA if minimaldata else 0)
        return {"stack": [bytes(x) for x in vm.eval_script()]}
    except a["ScriptError"] as e:
        return {"exc": _exc(e), "script_error": True, "msg": str(e)}
    except Exception as e:      # noqa: BLE001
        return {"exc": _exc(e), "script_error": False}


def asm_roundtrip(script):
    """-> {"text": str, "re": bytes} | {"exc": name, "stage": ...}"""
    a = api()
    try:
        text = a["st"].disassemble(script)
    except Exception as e:      # noqa: BLE001
        return {"exc": _exc(e), "stage": "disassemble"}
    try:
        re_ = bytes(a["st"].compile(text))
    except Exception as e:      # noqa: BLE001
        return {"exc": _exc(e), "stage": "compile", "text": text}
    return {"text": text, "re": re_}


def compile_text(text):
    try:
        return {"out": bytes(api()["st"].compile(text))}
    except Exception as e:      # noqa: BLE001
        return {"exc": _exc(e)}


def tokenize(text):
    """project pycoin's disassembly onto the spec's token records; parsed=False when a token is
    neither [hex] nor a word"""
    toks = []
    parsed = True
    for t in text.split():
        if t.startswith("[") and t.endswith("]"):
            try:
                toks.append({"t": "data", "d": rle(bytes.fromhex(t[1:-1])), "name": ""})
                continue
            except ValueError:
                pass
        if t.replace("_", "").isalnum():
            toks.append({"t": "op", "d": [], "name": t})
        else:
            toks.append({"t": "other", "d": [], "name": t})
            parsed = False
    return toks, parsed


def render(toks):
    """the spec's token records as text (Disasm!Text), data tokens expanded here"""
    return " ".join("[%s]" % expand(t["d"]).hex() if t["t"] == "data" else t["name"] for t in toks)
