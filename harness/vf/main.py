"""./check <Cnn> [--tier quick|thorough] [--replay FILE]"""
from __future__ import annotations

import argparse
import importlib
import json
import os
import sys
import traceback

from .ctx import Ctx, MachineryError
from .tlc import TLCError


def _limit_memory():
    """A change to pycoin that makes it allocate without bound must end as a MemoryError inside the
    case being executed (reported as a violation), not as the kernel killing the whole check.
    Soft limit only; vf.tlc lifts it again for the JVM."""
    try:
        import resource
        gb = float(os.environ.get("VERIF_MEM_GB", "16"))
        soft, hard = resource.getrlimit(resource.RLIMIT_AS)
        want = int(gb * (1 << 30))
        if hard != resource.RLIM_INFINITY:
            want = min(want, hard)
        resource.setrlimit(resource.RLIMIT_AS, (want, hard))
    except Exception:  # noqa
        pass


def main(argv=None):
    _limit_memory()
    ap = argparse.ArgumentParser()
    ap.add_argument("pid")
    ap.add_argument("--tier", default=os.environ.get("VERIF_TIER", "quick"), choices=["quick", "thorough"])
    ap.add_argument("--replay")
    ap.add_argument("--only", default=None, help="comma-separated stage names (debugging)")
    a = ap.parse_args(argv)
    seed = int(os.environ.get("VERIF_SEED", "0") or 0)
    pid = a.pid.upper()
    ctx = Ctx(pid, a.tier, seed)
    ctx.only = set(a.only.split(",")) if a.only else None
    try:
        mod = importlib.import_module("vf.props." + pid.lower())
    except ModuleNotFoundError:
        print("no check for", pid)
        return 2
    try:
        if a.replay:
            obj = json.load(open(a.replay))
            if hasattr(mod, "replay"):
                mod.replay(ctx, obj)
            else:
                print(json.dumps(obj, indent=1))
                print("(this check has no single-case replayer; the record above is the failing case)")
            return 1 if ctx.violations else 0
        mod.run(ctx)
    except (MachineryError, TLCError) as e:
        print("MACHINERY-FAILURE %s: %s" % (pid, e), flush=True)
        ctx.write_evidence(status="machinery-failure")
        # violations already established stay violations (a broken tree can also trip a self-test)
        return 1 if ctx.violations else 2
    except Exception:
        traceback.print_exc()
        print("MACHINERY-FAILURE %s: unexpected exception in harness" % pid, flush=True)
        ctx.write_evidence(status="machinery-failure")
        return 1 if ctx.violations else 2
    ctx.write_evidence()
    if ctx.violations:
        print("%s: %d violation class(es)" % (pid, len(ctx.violations)))
        return 1
    print("%s: OK (%d states, %d transitions, %d traces, %d evaluations, %d known findings seen)" % (
        pid, ctx.states, ctx.transitions, ctx.traces, ctx.evaluations, len(ctx.known_seen)))
    return 0


if __name__ == "__main__":
    sys.exit(main())
