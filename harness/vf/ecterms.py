"""Evaluator for the HMAC terms emitted by spec/RFC6979.tla in term mode (stdlib hmac/hashlib only).

A definition is {"key": part, "msg": [part, ...]}; a part is {"b": [bytes]} (literal) or {"t": i}
(the value of definition i, 1-based).  The hash is selected by its output length.  The structure of
what is hashed lives in the TLA+ module; this file only computes digests, turns each candidate term
into a number (leftmost qlen bits) and returns the first one in [1, q-1] - the step TLC cannot take.
"""
import hashlib
import hmac

HASH_BY_LEN = {20: hashlib.sha1, 28: hashlib.sha224, 32: hashlib.sha256, 48: hashlib.sha384, 64: hashlib.sha512}


def eval_defs(defs, hlen):
    vals = []

    def part(p):
        return bytes(p["b"]) if "b" in p else vals[p["t"] - 1]
    for d in defs:
        vals.append(hmac.new(part(d["key"]), b"".join(part(p) for p in d["msg"]), HASH_BY_LEN[hlen]).digest())
    return vals, part


def nonce(rec):
    """(k, index of the accepted candidate, hmac oracle) for an exported 'rfc' record; k is None when none of
    the exported candidates is in range"""
    vals, part = eval_defs(rec["defs"], rec["hlen"])
    q = int.from_bytes(bytes(rec["q"]), "big")
    oracle = [{"key": list(part(d["key"])), "msg": list(b"".join(part(p) for p in d["msg"])), "out": list(v)}
              for d, v in zip(rec["defs"], vals)]
    for i, T in enumerate(rec["cands"]):
        t = b"".join(part(p) for p in T)
        k = int.from_bytes(t, "big")
        if 8 * len(t) > rec["qlen"]:
            k >>= 8 * len(t) - rec["qlen"]
        if 1 <= k < q:
            return k, i, oracle
    return None, None, oracle
