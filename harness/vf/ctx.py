"""Per-check context: counters, findings, evidence, TLC wrapper."""
from __future__ import annotations

import hashlib
import json
import os
import sys
import time

from . import tlc as _tlc

ROOT = os.path.dirname(os.path.dirname(os.path.dirname(os.path.abspath(__file__))))
REPO = os.environ.get("VERIF_REPO", "/repo")
# where evidence/ and replays/ are written (seeded-change runs against scratch trees write elsewhere)
OUT = os.environ.get("VERIF_OUT", ROOT)
FINDINGS_FILE = os.path.join(ROOT, "known_findings.json")


class MachineryError(Exception):
    pass


def _jsonable(o):
    if isinstance(o, bytes):
        return {"hex": o.hex()}
    if isinstance(o, (set, frozenset)):
        return sorted((_jsonable(x) for x in o), key=repr)
    if isinstance(o, (list, tuple)):
        return [_jsonable(x) for x in o]
    if isinstance(o, dict):
        return {str(k): _jsonable(v) for k, v in o.items()}
    if isinstance(o, (int, float, str, bool)) or o is None:
        return o
    return repr(o)


class Ctx:
    MAX_SAMPLES = 12
    MAX_PRINT = 25

    def __init__(self, pid, tier="quick", seed=0):
        self.pid = pid
        # extension specifications (ids X..) are not among the listed properties: their output stays out of evidence/
        self.out = OUT if not pid.upper().startswith("X") else os.path.join(OUT, "ext")
        self.tier = tier
        self.seed = seed
        self.quick = tier == "quick"
        self.t0 = time.time()
        self.states = 0
        self.transitions = 0
        self.traces = 0
        self.evaluations = 0
        self.replayed = 0
        self._distinct = set()
        self.samples = []
        self.by_action = {}
        self.tlc_runs = []
        self.assumptions = []
        self.rule = ""
        self.extra = {}
        self.exhaustive = None
        self.selftests = {}
        self.violations = {}       # key -> replay path
        self.known_seen = {}       # key -> what
        self._known = {}
        self._fixed = {}
        files = [FINDINGS_FILE] if os.path.exists(FINDINGS_FILE) else []
        fd = os.path.join(ROOT, "findings.d")
        if os.path.isdir(fd):
            files += sorted(os.path.join(fd, f) for f in os.listdir(fd) if f.endswith(".json"))
        for fn in files:
            for e in json.load(open(fn))["findings"]:
                if e["property"] != pid:
                    continue
                (self._known if e["status"] == "known" else self._fixed)[e["key"]] = e

    # ---- logging
    def log(self, *a):
        print("[%s %6.1fs]" % (self.pid, time.time() - self.t0), *a, flush=True)

    # ---- TLC
    def tlc(self, module, cfg=None, *, expect_ok=True, count=True, require_actions=(), **kw):
        """Run TLC; accumulate states/transitions; a violated invariant in a *model* run
        (as opposed to a trace run) is reported by the caller."""
        r = _tlc.run(module, cfg, **kw)
        if count:
            self.states += r.distinct
            self.transitions += r.generated
        for a, (d, g) in r.coverage.items():
            c = self.by_action.setdefault(module + "." + a, [0, 0])
            c[0] += d
            c[1] += g
        self.tlc_runs.append({"module": module, "cfg": cfg or module, "states": r.distinct,
                              "transitions": r.generated, "depth": r.depth, "wall_s": round(r.wall_s, 1),
                              "ok": r.ok, "violated": r.violated})
        self.log("TLC %s/%s: %d distinct states, %d transitions, depth %d, %.1fs%s" % (
            module, cfg or module, r.distinct, r.generated, r.depth, r.wall_s,
            "" if r.ok else " VIOLATED " + str(r.violated)))
        if expect_ok and not r.ok:
            raise MachineryError("TLC run %s/%s expected to pass but %s violated:\n%s" % (
                module, cfg, r.violated, r.error_text[:3000]))
        for a in require_actions:
            if r.coverage.get(a, [0, 0])[1] == 0:
                raise MachineryError("vacuity: action %s of %s never taken" % (a, module))
        return r

    # ---- coverage accounting
    def case(self, key=None, n=1):
        """Count n evaluated cases; key (hashable) marks a distinct non-trivial class."""
        self.evaluations += n
        if key is not None:
            self._distinct.add(key)

    def sample(self, obj):
        if len(self.samples) < self.MAX_SAMPLES:
            self.samples.append(_jsonable(obj))

    def action(self, name, n=1):
        c = self.by_action.setdefault(name, [0, 0])
        c[1] += n

    # ---- verdicts
    def fail(self, key, what, detail=None):
        """Report a disagreement between implementation and specification.
        key: class-level signature of the failing case."""
        if key in self._known:
            if key not in self.known_seen:
                self.known_seen[key] = what
                print("KNOWN-FINDING: property=%s %s [%s]" % (self.pid, self._known[key].get("what", what), key), flush=True)
            return False
        if key in self.violations:
            return True
        d = os.path.join(self.out, "replays", self.pid)
        os.makedirs(d, exist_ok=True)
        path = os.path.join(d, hashlib.sha1(key.encode()).hexdigest()[:12] + ".json")
        with open(path, "w") as f:
            json.dump({"property": self.pid, "key": key, "what": what, "detail": _jsonable(detail),
                       "tier": self.tier, "seed": self.seed}, f, indent=1)
        self.violations[key] = path
        if len(self.violations) <= self.MAX_PRINT:
            print("VIOLATION property=%s replay=%s" % (self.pid, path), flush=True)
            print("  key=%s\n  %s" % (key, what), flush=True)
        return True

    def selftest(self, name, ok):
        self.selftests[name] = "ok" if ok else "FAILED"
        if not ok:
            raise MachineryError("binding self-test %s failed: a deliberately corrupted case was not rejected" % name)

    # ---- evidence
    def write_evidence(self, status="ok"):
        cov = {
            "states": self.states,
            "transitions": self.transitions,
            "traces_validated_against_impl": self.traces,
            "samples": self.samples or [{"note": "no sample recorded"}],
            "evaluations": self.evaluations,
            "distinct_nontrivial": len(self._distinct),
            "rule": self.rule,
            "replayed_transitions": self.replayed,
            "coverage_by_action": {k: v[1] for k, v in sorted(self.by_action.items())},
            "tlc_runs": self.tlc_runs,
            "binding_selftest": self.selftests,
            "known_findings_seen": sorted(self.known_seen),
            "violation_keys": sorted(self.violations)[:50],
            "status": status,
        }
        if self.exhaustive is not None:
            cov["exhaustive"] = self.exhaustive
        cov.update(self.extra)
        ev = {
            "property_id": self.pid,
            "tier": self.tier,
            "seed": self.seed,
            "level": "model_checking",
            "coverage": cov,
            "assumptions": self.assumptions,
            "wall_s": round(time.time() - self.t0, 2),
            "violations": len(self.violations),
        }
        d = os.path.join(self.out, "evidence")
        os.makedirs(d, exist_ok=True)
        tmp = os.path.join(d, self.pid + ".json.tmp")
        with open(tmp, "w") as f:
            json.dump(ev, f, indent=1, sort_keys=True)
            f.write("\n")
        os.replace(tmp, os.path.join(d, self.pid + ".json"))
