"""Process-parallel map (fork), order preserving, chunked."""
from __future__ import annotations

import multiprocessing as mp
import os

NPROC = min(16, os.cpu_count() or 1)


def pmap(func, items, chunk=None, procs=None):
    items = list(items)
    procs = procs or NPROC
    if len(items) < 2 or procs == 1:
        return [func(x) for x in items]
    chunk = chunk or max(1, len(items) // (procs * 8))
    ctx = mp.get_context("fork")
    with ctx.Pool(procs) as pool:
        return pool.map(func, items, chunksize=chunk)


def split(items, n):
    items = list(items)
    k = max(1, (len(items) + n - 1) // n)
    return [items[i:i + k] for i in range(0, len(items), k)]
