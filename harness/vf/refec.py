"""Affine short-Weierstrass reference arithmetic (textbook formulas, stdlib only).

Takes part in the C02 differential runs as one more backend on the production curves,
where TLC cannot compute; it is itself replayed against the tables TLC prints from
spec/EC.tla on the toy curves (props/c02.py, stage "ref"), so it is not trusted blindly.
A point is () for infinity or (x, y) with 0 <= x, y < p.
"""


class RefCurve:
    def __init__(self, p, a, b, G, n):
        self.p, self.a, self.b, self.G, self.n = p, a, b, (G[0] % p, G[1] % p), n

    def on_curve(self, P):
        return P == () or (P[1] * P[1] - (P[0] ** 3 + self.a * P[0] + self.b)) % self.p == 0

    def neg(self, P):
        return () if P == () else (P[0], -P[1] % self.p)

    def add(self, P, Q):
        p = self.p
        if P == ():
            return Q
        if Q == ():
            return P
        if P[0] == Q[0] and (P[1] + Q[1]) % p == 0:
            return ()
        if P[0] == Q[0]:
            lam = (3 * P[0] * P[0] + self.a) * pow(2 * P[1], -1, p) % p
        else:
            lam = (Q[1] - P[1]) * pow(Q[0] - P[0], -1, p) % p
        x = (lam * lam - P[0] - Q[0]) % p
        return (x, (lam * (P[0] - x) - P[1]) % p)

    def mul(self, k, P):
        k %= self.n
        R = ()
        while k:
            if k & 1:
                R = self.add(R, P)
            P = self.add(P, P)
            k >>= 1
        return R
