"""Run TLC (model check / simulate / trace validation) and parse what it prints.

The specs export data to the harness with PrintT(ToJson(..)): TLC prints one
JSON *string literal* per call, e.g. "{\"a\":1}" - json.loads twice.  Specs
that export tag their records with a field "k" (kind) so several streams can
share one run.
"""
from __future__ import annotations

import json
import os
import re
import shutil
import subprocess
import tempfile
import threading
import time

JAR = "/opt/veriftools/tla/tla2tools.jar:/opt/veriftools/tla/CommunityModules-deps.jar"
SPEC_DIR = os.path.join(os.path.dirname(os.path.dirname(os.path.dirname(os.path.abspath(__file__)))), "spec")

_RE_STATES = re.compile(r"^(\d+) states generated, (\d+) distinct states found, (\d+) states left on queue")
_RE_DEPTH = re.compile(r"^The depth of the complete state graph search is (\d+)")
_RE_COV = re.compile(r"^<(\w+) line \d+, col \d+ to line \d+, col \d+ of module (\w+)(?: \([\d ]+\))?>: (\d+):(\d+)")
_RE_INV = re.compile(r"^Error: (Invariant|Action property|Temporal propert\w+) (\w+) (is|was) violated")


class TLCError(Exception):
    """Machinery failure (parse error, crash, timeout)."""


class TLCResult:
    def __init__(self):
        self.generated = 0          # transitions ("states generated")
        self.distinct = 0           # distinct states
        self.depth = 0
        self.coverage = {}          # action -> [distinct, generated]
        self.records = []           # parsed PrintT(ToJson(..)) records (when not streamed)
        self.printed = []           # other PrintT output (TLA+ values as text)
        self.violated = None        # name of violated invariant/property, if any
        self.error_text = ""        # text following an Error:
        self.ok = False
        self.wall_s = 0.0
        self.cmd = ""
        self.raw_tail = []

    def by_kind(self, k):
        return [r for r in self.records if isinstance(r, dict) and r.get("k") == k]


def _java_cmd(extra_jvm=()):
    return ["java", "-XX:+UseParallelGC", "-Xss64m", *extra_jvm, "-cp", JAR, "tlc2.TLC"]


def run(module, cfg=None, *, workers=16, timeout=1800, simulate=None, depth=None,
        seed=None, env=None, coverage=False, on_record=None, jvm=(), deadlock=None,
        spec_dir=None, keep_records=True, extra=()):
    """Run TLC on spec/<module>.tla with spec/<cfg>.cfg.

    simulate: e.g. "num=1000" -> -simulate num=1000 ; depth -> -depth N.
    on_record: callback for each exported JSON record (streaming); records are
    also kept in result.records unless keep_records is False.
    Returns TLCResult.  Raises TLCError on machinery failure (timeout, parse
    errors, TLC crash) - a violated invariant is *not* an exception.
    """
    spec_dir = spec_dir or SPEC_DIR
    cfg = cfg or module
    meta = tempfile.mkdtemp(prefix="vf-tlc-")
    cmd = _java_cmd(jvm) + ["-workers", str(workers), "-metadir", meta, "-noGenerateSpecTE"]
    if coverage:
        cmd += ["-coverage", "1"]
    if simulate:
        cmd += ["-simulate", simulate]
    if depth:
        cmd += ["-depth", str(depth)]
    if seed is not None:
        cmd += ["-seed", str(seed)]
    if deadlock is False:
        cmd += ["-deadlock"]
    cmd += list(extra)
    cmd += ["-config", cfg + ".cfg", module + ".tla"]
    res = TLCResult()
    res.cmd = " ".join(cmd)
    e = dict(os.environ)
    if env:
        e.update({k: str(v) for k, v in env.items()})
    t0 = time.time()
    def _unlimit():
        # the JVM reserves a large address space; vf.main only lowers the soft limit
        try:
            import resource
            soft, hard = resource.getrlimit(resource.RLIMIT_AS)
            resource.setrlimit(resource.RLIMIT_AS, (hard, hard))
        except Exception:  # noqa
            pass
    proc = subprocess.Popen(cmd, cwd=spec_dir, env=e, stdout=subprocess.PIPE,
                            stderr=subprocess.STDOUT, text=True, bufsize=1 << 20, preexec_fn=_unlimit)
    tail = []
    in_error = False
    err_lines = []
    timed_out = []

    def _kill():
        timed_out.append(1)
        proc.kill()
    timer = threading.Timer(timeout, _kill)
    timer.daemon = True
    timer.start()
    try:
        for line in proc.stdout:
            line = line.rstrip("\n")
            if line.startswith('"') and line.endswith('"'):
                try:
                    rec = json.loads(json.loads(line))
                except Exception:
                    res.printed.append(line)
                    continue
                if on_record is not None:
                    on_record(rec)
                if keep_records:
                    res.records.append(rec)
                continue
            tail.append(line)
            if len(tail) > 400:
                del tail[:200]
            m = _RE_STATES.match(line)
            if m:
                res.generated, res.distinct = int(m.group(1)), int(m.group(2))
                continue
            m = _RE_DEPTH.match(line)
            if m:
                res.depth = int(m.group(1))
                continue
            m = _RE_COV.match(line)
            if m:
                c = res.coverage.setdefault(m.group(1), [0, 0])
                c[0] += int(m.group(3))
                c[1] += int(m.group(4))
                continue
            m = _RE_INV.match(line)
            if m:
                res.violated = m.group(2)
                in_error = True
                continue
            if line.startswith("Error:"):
                in_error = True
                err_lines.append(line)
                continue
            if in_error and len(err_lines) < 200:
                err_lines.append(line)
            if line.startswith("<<") or line.startswith("[") or line.startswith("{"):
                res.printed.append(line)
        proc.wait()
    finally:
        timer.cancel()
        if proc.poll() is None:
            proc.kill()
        shutil.rmtree(meta, ignore_errors=True)
    res.wall_s = time.time() - t0
    res.error_text = "\n".join(err_lines)
    res.raw_tail = tail[-60:]
    rc = proc.returncode
    if timed_out:
        raise TLCError("TLC timeout after %ss: %s" % (timeout, res.cmd))
    # TLC exit codes: 0 ok, 12 safety violation, 13 liveness, 11 deadlock, 10 assumption, 150.. parse errors
    if rc == 0:
        res.ok = True
    elif rc in (12, 13, 11, 10) or res.violated:
        res.ok = False
        if res.violated is None:
            res.violated = {11: "Deadlock", 10: "Assumption", 13: "Liveness", 12: "Safety"}.get(rc, "Unknown")
    else:
        raise TLCError("TLC failed rc=%s cmd=%s\n%s\n%s" % (rc, res.cmd, res.error_text, "\n".join(tail[-40:])))
    return res


def sany(module, spec_dir=None):
    spec_dir = spec_dir or SPEC_DIR
    p = subprocess.run(["java", "-cp", JAR, "tla2sany.SANY", module + ".tla"], cwd=spec_dir,
                       capture_output=True, text=True)
    return p.returncode == 0 and "error" not in p.stdout.lower().replace("errors: 0", ""), p.stdout
