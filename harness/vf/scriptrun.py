"""Run cases through the consensus spec (MC_ScriptRun) with oracle resolution."""
from __future__ import annotations

import json
import os
import tempfile

from .ctx import MachineryError
from .drv import script as S


def _pushes(script):
    """data items pushed by a script (best effort; stops at a malformed push)"""
    out = []
    pc = 0
    n = len(script)
    while pc < n:
        op = script[pc]
        if op < 76:
            ln, hdr = op, 1
        elif op == 76 and pc + 1 < n:
            ln, hdr = script[pc + 1], 2
        elif op == 77 and pc + 2 < n:
            ln, hdr = script[pc + 1] + 256 * script[pc + 2], 3
        elif op in (76, 77, 78):
            break
        else:
            pc += 1
            continue
        if pc + hdr + ln > n:
            break
        if ln:
            out.append(bytes(script[pc + hdr:pc + hdr + ln]))
        pc += hdr + ln
    return out


def preseed(case):
    """answer in advance the hash questions a case is likely to ask: every hash opcode that occurs in one of
    its scripts, applied to every pushed item / witness item / initial stack item (saves TLC rounds;
    entries that are never asked for are harmless)"""
    scripts = [bytes(case["sig"]), bytes(case["pk"])] + [bytes(w) for w in case["wit"]]
    items = set()
    for sc in scripts:
        for d in _pushes(sc):
            items.add(d)
            for d2 in _pushes(d):          # pushes inside a pushed script (P2SH redeem scripts)
                items.add(d2)
    for w in case["wit"]:
        items.add(bytes(w))
        for d in _pushes(bytes(w)):
            items.add(d)
    for x in case["stack"]:
        items.add(bytes(x))
    blob = b"".join(scripts)
    ops = [op for op in (166, 167, 168, 169, 170) if op in blob]
    if case["kind"] == "spend" and case["wit"]:
        ops = sorted(set(ops) | {168, 169})
    have = {(e[0], bytes(e[1])) for e in case["hashes"]}
    wits = {bytes(w) for w in case["wit"]}
    for op in ops:
        for d in items:
            if (len(d) <= 600 or (op == 168 and d in wits)) and (op, d) not in have:
                have.add((op, d))
                case["hashes"].append([op, list(d), list(S.hash_oracle(op, d))])


def spec_run(ctx, cases, sig_oracle, workers=16, max_rounds=8, label=""):
    """cases: list of case dicts (mutated: oracle entries are appended).
    sig_oracle(case, sig, key, code, sv) -> bool.
    Returns list of result records (status ok/fail, err, stack) aligned with cases."""
    results = [None] * len(cases)
    for c in cases:
        if len(c["hashes"]) == 0:
            preseed(c)
    todo = list(range(len(cases)))
    for rnd in range(max_rounds):
        if not todo:
            break
        # TLC reads the cases from one JSON file: keep each file moderate (big batches deserialise slowly)
        got = {}
        CH = 2500
        for lo in range(0, len(todo), CH):
            part = todo[lo:lo + CH]
            fd, path = tempfile.mkstemp(prefix="vf-c03-cases-", suffix=".json")
            with os.fdopen(fd, "w") as f:
                json.dump([cases[i] for i in part], f)
            try:
                r = ctx.tlc("MC_ScriptRun", "MC_ScriptRun", workers=workers, env={"CASES_FILE": path}, timeout=3000)
            finally:
                os.unlink(path)
            n = 0
            for rec in r.records:
                if rec.get("k") == "res":
                    got[lo + rec["id"]] = rec
                    n += 1
            if n != len(part):
                raise MachineryError("MC_ScriptRun %s: %d cases in, %d verdicts out; tail=%s" % (
                    label, len(part), n, r.raw_tail[-8:]))
        nxt = []
        for j, i in enumerate(todo, 1):
            rec = got[j]
            if rec["status"] == "need":
                nd = rec["need"]
                c = cases[i]
                if nd[0] == "hash":
                    # also the iterated chain x, H(x), H(H(x)).. (scripts that hash repeatedly)
                    x = bytes(nd[2])
                    have = {(e[0], bytes(e[1])) for e in c["hashes"]}
                    for _ in range(24):
                        if (nd[1], x) in have:
                            break
                        have.add((nd[1], x))
                        y = S.hash_oracle(nd[1], x)
                        c["hashes"].append([nd[1], list(x), list(y)])
                        x = y
                else:
                    if nd[0] == "sig":
                        pairs = [(bytes(nd[1]), bytes(nd[2]))]
                    else:
                        pairs = [(bytes(sg), bytes(ky)) for sg in nd[1] for ky in nd[2]]
                    code, sv = bytes(nd[3]), nd[4]
                    keycode = [] if c["sigmode"] == "fixed" else list(code)
                    have = {(bytes(e[0]), bytes(e[1]), bytes(e[2]), e[4]) for e in c["sigs"]}
                    for sig, key in pairs:
                        if (sig, key, bytes(keycode), sv) in have or not sig:
                            continue
                        have.add((sig, key, bytes(keycode), sv))
                        res = sig_oracle(c, sig, key, code, sv)
                        c["sigs"].append([list(sig), list(key), keycode, 1 if res else 0, sv])
                nxt.append(i)
            else:
                results[i] = rec
        todo = nxt
    if todo:
        raise MachineryError("oracle resolution did not converge for %d cases, e.g. %s needs=%s" % (
            len(todo), cases[todo[0]].get("text"), [x[:1] + [len(x[1])] for x in cases[todo[0]]["hashes"]][-5:]))
    return results
