"""Run cases through the consensus spec (MC_ScriptRun) with oracle resolution."""
from __future__ import annotations

import json
import os
import tempfile

from .ctx import MachineryError
from .drv import script as S


def spec_run(ctx, cases, sig_oracle, workers=16, max_rounds=8, label=""):
    """cases: list of case dicts (mutated: oracle entries are appended).
    sig_oracle(case, sig, key, code, sv) -> bool.
    Returns list of result records (status ok/fail, err, stack) aligned with cases."""
    results = [None] * len(cases)
    todo = list(range(len(cases)))
    for rnd in range(max_rounds):
        if not todo:
            break
        fd, path = tempfile.mkstemp(prefix="vf-c03-cases-", suffix=".json")
        with os.fdopen(fd, "w") as f:
            json.dump([cases[i] for i in todo], f)
        try:
            r = ctx.tlc("MC_ScriptRun", "MC_ScriptRun", workers=workers, env={"CASES_FILE": path}, timeout=3000)
        finally:
            os.unlink(path)
        got = {}
        for rec in r.records:
            if rec.get("k") == "res":
                got[rec["id"]] = rec
        if len(got) != len(todo):
            raise MachineryError("MC_ScriptRun %s: %d cases in, %d verdicts out; tail=%s" % (
                label, len(todo), len(got), r.raw_tail[-8:]))
        nxt = []
        for j, i in enumerate(todo, 1):
            rec = got[j]
            if rec["status"] == "need":
                nd = rec["need"]
                c = cases[i]
                if nd[0] == "hash":
                    # also the iterated chain x, H(x), H(H(x)).. (scripts that hash repeatedly)
                    x = bytes(nd[2])
                    have = {(e[0], bytes(e[1])) for e in c["hashes"]}
                    for _ in range(24):
                        if (nd[1], x) in have:
                            break
                        have.add((nd[1], x))
                        y = S.hash_oracle(nd[1], x)
                        c["hashes"].append([nd[1], list(x), list(y)])
                        x = y
                else:
                    if nd[0] == "sig":
                        pairs = [(bytes(nd[1]), bytes(nd[2]))]
                    else:
                        pairs = [(bytes(sg), bytes(ky)) for sg in nd[1] for ky in nd[2]]
                    code, sv = bytes(nd[3]), nd[4]
                    keycode = [] if c["sigmode"] == "fixed" else list(code)
                    have = {(bytes(e[0]), bytes(e[1]), bytes(e[2]), e[4]) for e in c["sigs"]}
                    for sig, key in pairs:
                        if (sig, key, bytes(keycode), sv) in have or not sig:
                            continue
                        have.add((sig, key, bytes(keycode), sv))
                        res = sig_oracle(c, sig, key, code, sv)
                        c["sigs"].append([list(sig), list(key), keycode, 1 if res else 0, sv])
                nxt.append(i)
            else:
                results[i] = rec
        todo = nxt
    if todo:
        raise MachineryError("oracle resolution did not converge for %d cases, e.g. %s needs=%s" % (
            len(todo), cases[todo[0]].get("text"), [x[:1] + [len(x[1])] for x in cases[todo[0]]["hashes"]][-5:]))
    return results
