"""Helpers shared by the C01/C02 checks: concurrent TLC runs, toy-curve catalogue."""
from __future__ import annotations

from concurrent.futures import ThreadPoolExecutor

from . import tlc as _tlc
from .ctx import MachineryError

# (cfg suffix, p, a, b, G, n); prime order, p % 4 == 3 (pycoin's Generator accepts them unchanged)
CURVES = {
    "p11": (11, 1, 6, (2, 4), 13),
    "p23": (23, 1, 19, (2, 11), 19),       # n < p, small enough for complete ECDSA tables in the quick tier
    "p31": (31, 1, 28, (0, 11), 23),       # n < p, Gx = 0 (r = 0 for k = 1: the signing retry path)
    "p43": (43, 0, 7, (2, 12), 31),        # a miniature secp256k1
    "p67": (67, 0, 2, (2, 12), 73),
    "p79": (79, 0, 3, (1, 2), 97),
    "p83": (83, 1, 7, (0, 16), 79),        # n < p: x >= n occurs
    "p103": (103, 0, 5, (2, 42), 97),      # n < p
    "p251a": (251, 1, 25, (0, 5), 241),    # n < p   (trace curves, beyond the enumerated grid)
    "p251b": (251, 1, 4, (0, 2), 271),
    "p1019": (1019, 1, 24, (1, 364), 1009),
}


def tlc_many(ctx, jobs, threads=4):
    """Run several TLC jobs concurrently (each job: dict of ctx.tlc keyword arguments incl. module, cfg).
    Book-keeping is the same as ctx.tlc's, done serially afterwards."""
    def one(j):
        j = dict(j)
        j.pop("expect_ok", None)
        j.pop("count", None)
        j.pop("require_actions", None)
        return _tlc.run(j.pop("module"), j.pop("cfg"), **j)
    with ThreadPoolExecutor(max_workers=threads) as ex:
        results = list(ex.map(one, jobs))
    for j, r in zip(jobs, results):
        module, cfg = j["module"], j["cfg"]
        if j.get("count", True):
            ctx.states += r.distinct
            ctx.transitions += r.generated
        for a, (d, g) in r.coverage.items():
            c = ctx.by_action.setdefault(module + "." + a, [0, 0])
            c[0] += d
            c[1] += g
        ctx.tlc_runs.append({"module": module, "cfg": cfg, "states": r.distinct, "transitions": r.generated,
                             "depth": r.depth, "wall_s": round(r.wall_s, 1), "ok": r.ok, "violated": r.violated})
        ctx.log("TLC %s/%s: %d distinct states, %d transitions, %.1fs%s" % (
            module, cfg, r.distinct, r.generated, r.wall_s, "" if r.ok else " VIOLATED " + str(r.violated)))
        if j.get("expect_ok", True) and not r.ok:
            raise MachineryError("TLC run %s/%s expected to pass but %s violated:\n%s" % (
                module, cfg, r.violated, r.error_text[:3000]))
        for a in j.get("require_actions", ()):
            if r.coverage.get(a, [0, 0])[1] == 0:
                raise MachineryError("vacuity: action %s of %s never taken" % (a, module))
    return results
