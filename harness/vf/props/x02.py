"""X02 - signature attribution (pycoin/contrib/who_signed.py) and script annotation (pycoin/vm/annotate.py)
tell the truth about a transaction.  See ext/X02.md for the statement.

 (a) attribution
  attr_model   X02_Attribution.tla (Signer.tla's signing histories followed by TxValidate.tla's editing histories;
               Attribution = the listed keys whose signature is present and verifies NOW) - lemmas by TLC
  attr_replay  TLC prints every bounded history with the attribution demanded for every input position; the
               history is performed on a real transaction and who_signed / annotate are asked
  attr_trace   seeded random larger sessions (more inputs, bigger multisigs, over-supplied passes, several
               edits), what who_signed reported after every event; TLC validates the logs (X02_Trace_Attribution)
 (b) annotation
  ann_model    X02_Annotate.tla (the listing as a projection of VerifyScript's step sequence) - lemmas by TLC
  ann_enum     TLC enumerates small scriptSig / scriptPubKey pairs and prints the listing demanded
  ann_run      spend shapes of MC_SpendShapes (bare / P2SH / witness x deviations), Bitcoin Core's script vectors
               and the signed transactions of (a): TLC computes the listing, annotate_scripts must agree
  ann_trace    seeded random scripts and spends: recorded listings validated by TLC (X02_Trace_Annotate)
"""
from __future__ import annotations

import collections
import copy
import json
import os
import random
import tempfile

from ..ctx import MachineryError, ROOT
from ..drv import signing as SG
from ..drv import x02_attr as XA
from ..drv import x02_annot as XN
from ..drv import script as SC
from ..par import NPROC

FINDINGS = os.path.join(ROOT, "ext", "X02_findings.json")


class Judge(object):
    """ctx.fail with the extension's own findings file (ctx only reads the main findings files)"""

    def __init__(self, ctx):
        self.ctx = ctx
        self.known = {}
        if os.path.exists(FINDINGS):
            for e in json.load(open(FINDINGS))["findings"]:
                if e["property"] == "X02" and e["status"] == "known":
                    self.known[e["key"]] = e

    def fail(self, key, what, detail=None):
        ctx = self.ctx
        if key in self.known:
            if key not in ctx.known_seen:
                ctx.known_seen[key] = what
                print("KNOWN-FINDING: property=X02 %s [%s]" % (self.known[key].get("what", what), key), flush=True)
            return False
        return ctx.fail(key, what, detail)


# =================================================================== (a) attribution: spec -> code

FORKID = ("BCH", "BTG")
WITNESS_KINDS = SG.WITNESS_KINDS
MULTI = SG.MULTI_KINDS


def _case_key(rec):
    return json.dumps([rec["coin"], rec["shape"], rec["nout"]], sort_keys=True)


def _ev_key(e):
    return json.dumps(e, sort_keys=True)


def _pass_of(e):
    return {"mech": "lookup", "K": list(e["K"]), "I": list(e["I"]), "ht": e["ht"], "scr": True, "reg": [], "sec": [],
            "fresh": True, "ic": e["ic"]}


class _St(object):
    """the concrete state after a history: a signing Session, then (after the first edit) a Mutator"""
    __slots__ = ("ses", "mut", "exc")

    def __init__(self, ses, mut=None):
        self.ses, self.mut, self.exc = ses, mut, None

    def clone(self):
        return _St(self.ses.clone() if self.mut is None else self.ses, None if self.mut is None else self.mut.clone())

    @property
    def tx(self):
        return self.mut.tx if self.mut is not None else self.ses.tx

    def unl(self):
        return self.mut.unl if self.mut is not None else [k + 1 for k in range(len(self.ses.tx.txs_in))]

    def ids(self):
        return [m["id"] for m in self.mut.meta] if self.mut is not None else [k + 1 for k in range(len(self.ses.tx.txs_in))]

    def step(self, coin, e):
        try:
            if e["t"] == "sign":
                self.ses.sign(_pass_of(e))
                return
            if self.mut is None:
                self.mut = XA.Mutator(coin, copy.deepcopy(self.ses.tx), self.ses.puzzles)
                self.mut.blobs = self.mut.signature_blobs()
            if e["t"] == "retag":
                self.mut.retag(e["a"], e["key"], e["b"])
            else:
                self.mut.apply({"m": e["m"], "a": e["a"], "b": e["b"]})
        except SG.NotInjective as x:
            self.exc = "NotInjective: %s" % x


def _exc_feat(exc_text, feat, foreign=False):
    """the input-class feature that goes into the key of an exception: only the one that explains this exception type
    (otherwise every exception type would get one key per unrelated feature of the input).  foreign: the unlocking
    data at this position was made for another input / the spent script was replaced - the only states of part (a)
    in which something that is not a signature can reach a signature check"""
    t = exc_text.split(":")[0]
    if (t, feat) in (("NoSuchPointError", "offcurve-key-listed"), ("AttributeError", "unspent-missing")):
        return feat
    if t == "UnexpectedDER" and foreign:
        return "foreign-unlocking-data"
    return "-"


def _listed_now(st, shape, pos):
    return XA.listed_now(st.mut, shape, pos)


def _features(coin, st, pos):
    return XA.features(coin, st.tx, pos)


def _judge_state(rec, st, last):
    """ask pycoin about every input position of the concrete state and compare with what TLC demands.
    -> list of (key, what, detail)"""
    coin, shape = rec["coin"], rec["shape"]
    fails = []
    tx = st.tx
    unl = st.unl()
    if unl != rec["unl"] or len(tx.txs_in) != len(rec["att"]):
        raise MachineryError("concretization lost track of the unlocking data: %s vs %s" % (unl, rec["unl"]))
    for pos in range(len(tx.txs_in)):
        exp = sorted([list(x) for x in rec["att"][pos]])
        u = unl[pos]
        d = shape[u - 1] if u else None
        # R2: where the structure is as signed, the attribution TLC demands must equal C05's independent projection
        # (plain ECDSA verification of every blob against every listed key under the digest its byte selects)
        if d is not None and st.ids()[pos] == u == pos + 1 and tx.unspents[pos] is not None and \
                bytes(tx.unspents[pos].script) == st.ses.puzzles[pos].spk:
            proj = SG.project_input(coin, tx, pos, st.ses.puzzles[pos], 0)["signed"]
            if proj != exp:
                raise MachineryError("specification and direct verification disagree on %s input %d after %s: TLC %s, verification %s" % (
                    coin, pos, [_short(e) for e in rec["hist"]], exp, proj))
        before = XA.frozen(tx)
        rep = XA.report(coin, tx, pos)
        ann = XA.annotated_signers(coin, tx, pos) if d is not None and d["kind"] not in WITNESS_KINDS else None
        obs = {"rep": rep, "ann": ann, "changed": XA.frozen(tx) != before, "feat": _features(coin, st, pos),
               "listed": _listed_now(st, shape, pos),
               "foreign": bool(u) and (st.ids()[pos] != u or _listed_now(st, shape, pos) != list(d["keys"]))}
        fails += compare_reports(rec, pos, last, obs)
    return fails


def compare_reports(rec, pos, last, obs):
    """pure: what pycoin reported for input position pos (obs) against what TLC demands (rec).  -> [(key, what, detail)]"""
    coin, shape = rec["coin"], rec["shape"]
    fails = []
    state = "as-signed" if last["t"] == "sign" else ("retag" if last["t"] == "retag" else "edit:" + last["m"])
    exp = sorted([list(x) for x in rec["att"][pos]])
    may = sorted([list(x) for x in rec.get("may", rec["att"])[pos]])
    u = rec["unl"][pos]
    d = shape[u - 1] if u else None
    kc = "none" if d is None else ("multi" if d["kind"] in MULTI else "single")
    cc = "forkid" if coin in FORKID else "plain"
    feat = obs["feat"]
    cls = feat if feat else "kind=%s|coin=%s|%s" % (kc, cc, state)
    listed = obs["listed"]
    rep, ann = obs["rep"], obs["ann"]
    if obs["changed"]:
        fails.append(("X02|readonly|who_signed-or-annotate-changed-the-transaction", "asking who signed input %d changed the transaction" % pos, None))
    det = {"coin": coin, "shape": shape, "nout": rec["nout"], "hist": rec["hist"], "pos": pos, "expected": exp, "may": may, "report": rep,
           "annotated": ann}
    for call, text in sorted(rep["exc"].items()):
        fails.append(("X02|who_signed|exception=%s|call=%s|%s" % (text.split(":")[0], call, _exc_feat(text, feat, obs["foreign"])),
                      "%s(tx, %d) raised %s" % (call, pos, text), det))
    if "pairs" in rep:
        got = rep["pairs"]
        gk, ek, mk = set(map(tuple, got)), set(map(tuple, exp)), set(map(tuple, may))
        if ek <= gk <= mk:
            exp = got              # (a corner the specification leaves open: the report is within its bounds)
        if got != exp:
            if gk < ek:
                rel = "missing"
            elif gk > ek:
                rel = "invented"
            elif set(k for k, b in gk) == set(k for k, b in ek):
                rel = "wrong-type"
            else:
                rel = "other"
            fails.append(("X02|who_signed|pairs|%s|%s" % (rel, cls),
                          "input %d: public_pairs_signed reports %s, the specification demands %s (history %s)" % (
                              pos, got, exp, [_short(e) for e in rec["hist"]]), det))
        elif "addr" in rep:
            want = sorted([k, d["form"], b] for k, b in exp)
            if rep["addr"] != want:
                forms = sorted(set(x[1] for x in rep["addr"]))
                fails.append(("X02|who_signed_tx|address|key-form=%s|reported-form=%s" % (d["form"] if d else "?", ",".join(forms)),
                              "input %d: who_signed_tx names the addresses %s (key id, form, type); the keys that signed are %s" % (
                                  pos, rep["addr"], want), det))
    if ann is not None:
        if "exc" in ann:
            ef = _exc_feat(ann["exc"], feat, obs["foreign"])
            fails.append(("X02|annotate|exception=%s%s" % (ann["exc"].split(":")[0], "|" + ef if ef != "-" else ""),
                          "annotate_scripts(tx, %d) raised %s" % (pos, ann["exc"]), det))
        else:
            want = sorted([k, XA.type_text(b)] for k, b in exp)
            got = [x for x in ann["pairs"] if x[0] in listed]
            if got != want:
                rel = "missing" if set(map(tuple, got)) < set(map(tuple, want)) else "invented" if set(map(tuple, got)) > set(map(tuple, want)) else "other"
                fails.append(("X02|annotate|signers|%s|%s" % (rel, cls),
                              "input %d: the annotation of the signature pushes names the signers %s, the specification demands %s" % (
                                  pos, got, want), det))
    return fails


def _short(e):
    if e["t"] == "sign":
        return "sign(K=%s,I=%s,ht=%s)" % (e["K"], e["I"], e["ht"])
    if e["t"] == "retag":
        return "retag(in%s,key%s->%s)" % (e["a"], e["key"], e["b"])
    return "%s(%s,%s)" % (e["m"], e["a"], e["b"])


def _attr_chunk(recs):
    """records of ONE case; walks them depth-first, cloning the concrete state at branch points"""
    recs = sorted(recs, key=lambda r: [_ev_key(e) for e in r["hist"]])
    coin, shape, nout = recs[0]["coin"], recs[0]["shape"], recs[0]["nout"]
    fails = []
    stats = {"states": 0, "skipped": 0, "classes": set(), "events": 0}
    stack = []       # [(event key, _St)]
    root = _St(SG.Session(coin, shape, n_out=nout))
    for rec in recs:
        keys = [_ev_key(e) for e in rec["hist"]]
        L = 0
        while L < len(stack) and L < len(keys) and stack[L][0] == keys[L]:
            L += 1
        del stack[L:]
        for j in range(L, len(keys)):
            parent = stack[-1][1] if stack else root
            st = parent.clone()
            if parent.exc is None:
                st.step(coin, rec["hist"][j])
                stats["events"] += 1
            else:
                st.exc = parent.exc
            stack.append((keys[j], st))
        st = stack[-1][1]
        if st.exc is not None:
            stats["skipped"] += 1
            continue
        stats["states"] += 1
        last = rec["hist"][-1]
        stats["classes"].add((coin, tuple(d["kind"] + d["form"] for d in shape), nout, last["t"], last.get("m"),
                              json.dumps([sorted(x) for x in rec["att"]]) == json.dumps([sorted(x) for x in rec["signed"]])))
        fails += _judge_state(rec, st, last)
    return fails, stats


def attr_replay_records(records, procs=NPROC):
    import multiprocessing as mp
    groups = collections.OrderedDict()
    for r in records:
        # one chunk per (case, first event): the first event is always a signing pass
        groups.setdefault(_case_key(r) + _ev_key(r["hist"][0]), []).append(r)
    chunks = sorted(groups.values(), key=lambda g: -len(g))
    if procs > 1 and len(chunks) > 1:
        with mp.get_context("fork").Pool(procs) as pool:
            res = pool.map(_attr_chunk, chunks, chunksize=1)
    else:
        res = [_attr_chunk(c) for c in chunks]
    fails = []
    tot = {"states": 0, "skipped": 0, "events": 0, "classes": set()}
    for f, st in res:
        fails += f
        for k in ("states", "skipped", "events"):
            tot[k] += st[k]
        tot["classes"] |= st["classes"]
    return fails, tot


def stage_attr_model(ctx):
    q = ctx.quick
    ctx.tlc("X02_MC_Attribution", "X02_MC_Attribution_dev", workers=4, timeout=1200)
    for cfg in (["X02_MC_Attribution_model_q"] if q else ["X02_MC_Attribution_model_t", "X02_MC_Attribution_model_t2"]):
        ctx.tlc("X02_MC_Attribution", cfg, coverage=not q, timeout=3000,
                require_actions=() if q else ("MStepSign", "MStepEdit"))
    # vacuity: the corners the lemmas speak about are reachable (TLC must find the "never" claims violated)
    for inv in ("NeverPartialLoss", "NeverSurvivesTransplant", "NeverSurvivesRetag", "NeverOpen"):
        r = ctx.tlc("X02_MC_Attribution", "X02_MC_Attribution_reach_" + inv, expect_ok=False, count=False, workers=4, timeout=1200)
        if r.ok or r.violated != inv:
            raise MachineryError("vacuity: no reachable state violates %s (%s)" % (inv, r.violated))


def _corners(recs):
    """how many printed histories end in the corners the lemmas speak about: an input that kept one signer and lost
    another; transplanted unlocking data that still verifies; a relabelled signature that still verifies"""
    pl = tr = rt = 0
    for r in recs:
        last = r["hist"][-1]
        for pos, u in enumerate(r["unl"]):
            if not u:
                continue
            a = set(map(tuple, r["att"][pos]))
            sg = set(map(tuple, r["signed"][u - 1]))
            if last["t"] == "mut" and a and a < sg:
                pl += 1
            if last["t"] == "mut" and last["m"] == "unl_swap" and u != pos + 1 and a:
                tr += 1
            if last["t"] == "retag" and last["a"] == u and any(k == last["key"] for k, b in a):
                rt += 1
    return [pl, tr, rt]


def stage_attr_replay(ctx, J):
    q = ctx.quick
    corners = [0, 0, 0]
    for cfg in (["X02_MC_Attribution_replay_q", "X02_MC_Attribution_replay_light_q", "X02_MC_Attribution_replay_deep_q"] if q else
                ["X02_MC_Attribution_replay_t", "X02_MC_Attribution_replay_light_t", "X02_MC_Attribution_replay_deep_t"]):
        if getattr(ctx, "cfg_only", None) and ctx.cfg_only not in cfg:
            continue
        recs = []
        ctx.tlc("X02_MC_Attribution", cfg, on_record=lambda rec: recs.append(rec) if rec.get("k") == "x" else None,
                keep_records=False, timeout=3000)
        if not recs:
            raise MachineryError("no history printed by %s" % cfg)
        corners = [x + y for x, y in zip(corners, _corners(recs))]
        fails, tot = attr_replay_records(recs)
        ctx.log("replayed %d histories of %s: %d events executed, %d states judged (%d not concretizable), %d disagreements" % (
            len(recs), cfg, tot["events"], tot["states"], tot["skipped"], len(fails)))
        if tot["states"] < len(recs) * 0.9:
            raise MachineryError("vacuity: only %d of %d histories of %s could be performed" % (tot["states"], len(recs), cfg))
        ctx.replayed += tot["states"]
        ctx.case(None, tot["states"])
        ctx.action("attr_replay." + cfg, len(recs))
        for c in tot["classes"]:
            ctx.case(("attr",) + c, 0)
        ctx.sample({"history": {k: v for k, v in recs[len(recs) // 2].items() if k != "sigbytes"}})
        for key, what, detail in fails:
            J.fail(key, what, detail)
    if not getattr(ctx, "cfg_only", None) and min(corners) == 0:
        raise MachineryError("vacuity: replayed histories reach partial loss / surviving transplant / surviving retag %s times" % corners)
    ctx.extra["attr_replay_corners"] = {"partial_loss": corners[0], "transplant_survives": corners[1], "retag_survives": corners[2]}
    # binding self-test on CANNED observations: a report that differs from the demanded attribution must be rejected
    rec = {"k": "x", "coin": "BTC", "shape": [{"kind": "p2pkh", "m": 1, "keys": [1], "form": "c"},
                                               {"kind": "ms_bare", "m": 2, "keys": [2, 3], "form": "c"}], "nout": 2,
           "hist": [{"t": "sign", "K": [1, 2, 3], "I": [1, 2], "ht": 1, "ic": "none"}, {"t": "mut", "m": "lock", "a": 0, "b": 1}],
           "att": [[], [[2, 1], [3, 1]]], "may": [[], [[2, 1], [3, 1]]], "unl": [1, 2], "signed": [[[1, 1]], [[2, 1], [3, 1]]]}

    def ob(pairs, addr, ann):
        return {"rep": {"exc": {}, "pairs": pairs, "dups": 0, "addr": addr, "secs": []}, "ann": {"pairs": ann, "nsig": len(ann)},
                "changed": False, "feat": None, "listed": [2, 3], "foreign": False}
    last = rec["hist"][-1]
    good = compare_reports(rec, 1, last, ob([[2, 1], [3, 1]], [[2, "c", 1], [3, "c", 1]], [[2, "SIGHASH_ALL"], [3, "SIGHASH_ALL"]]))
    b1 = compare_reports(rec, 1, last, ob([[2, 1]], [[2, "c", 1]], [[2, "SIGHASH_ALL"], [3, "SIGHASH_ALL"]]))
    b2 = compare_reports(rec, 0, last, ob([[1, 1]], [[1, "c", 1]], []))
    b3 = compare_reports(rec, 1, last, ob([[2, 1], [3, 1]], [[2, "u", 1], [3, "c", 1]], [[2, "SIGHASH_ALL"], [3, "SIGHASH_NONE"]]))
    ctx.selftest("attr_replay_rejects_corrupted_report",
                 (not good) and any("pairs|missing" in f[0] for f in b1) and any("pairs|invented" in f[0] for f in b2)
                 and any("who_signed_tx|address" in f[0] for f in b3) and any("annotate|signers" in f[0] for f in b3))


# =================================================================== (a) attribution: code -> spec

def _record_sessions(seeds):
    return [XA.record_session(sd) for sd in seeds]


def validate_attr_traces(ctx, traces):
    """-> {trace index: (bad event index (1-based) or 0, what the specification demands there)}; raises
    MachineryError for a trace the specification could not replay to its end"""
    out = {}
    for lo in range(0, len(traces), 1500):
        part = traces[lo:lo + 1500]
        fd, path = tempfile.mkstemp(prefix="vf-x02-attr-", suffix=".json")
        with os.fdopen(fd, "w") as f:
            json.dump([{k: v for k, v in t.items() if not k.startswith("_")} for t in part], f)
        try:
            r = ctx.tlc("X02_Trace_Attribution", "X02_Trace_Attribution", workers=8, env={"TRACE_FILE": path}, count=False, timeout=3000)
        finally:
            os.unlink(path)
        for rec in r.records:
            if isinstance(rec, dict) and rec.get("k") == "res":
                out[lo + rec["tid"] - 1] = (rec["bad"], rec["want"])
    missing = [i for i in range(len(traces)) if i not in out]
    if missing:
        t = traces[missing[0]]
        raise MachineryError("X02_Trace_Attribution could not replay %d of %d recorded sessions to their end, e.g. seed %s: %s" % (
            len(missing), len(traces), t.get("_seed"), json.dumps([{k: v for k, v in e.items() if k not in ("att", "signed")} for e in t["ev"]])[:600]))
    return out


def stage_attr_trace(ctx, J):
    n = 320 if ctx.quick else 2000
    seeds = [ctx.seed * 1000003 + 7919 * i + 11 for i in range(n)]
    import multiprocessing as mp
    chunks = [seeds[i::NPROC] for i in range(NPROC)]
    with mp.get_context("fork").Pool(NPROC) as pool:
        res = pool.map(_record_sessions, chunks, chunksize=1)
    traces = [t for ch in res for t in ch]
    verdicts = validate_attr_traces(ctx, traces)
    nbad = 0
    nev = 0
    for i, t in enumerate(traces):
        bad, want = verdicts[i]
        nev += len(t["ev"])
        ctx.case(("attr_trace", t["coin"], tuple(sorted(set(d["kind"] for d in t["shape"]))), len(t["ev"])), len(t["ev"]))
        if bad == 0:
            ctx.traces += 1
            continue
        nbad += 1
        e = t["ev"][bad - 1]
        got = e["att"]
        state = "as-signed" if e["t"] == "sign" else ("retag" if e["t"] == "retag" else "edit:" + e["m"])
        for pos in range(len(got)):
            w = sorted([list(x) for x in want[pos]["must"]]) if pos < len(want) else None
            wm = set(map(tuple, want[pos]["may"])) if pos < len(want) else set()
            if w is not None and set(map(tuple, w)) <= set(map(tuple, got[pos])) <= wm:
                continue
            feat, exc, foreign = t["_exc"][bad - 1][pos]
            cc = "forkid" if t["coin"] in FORKID else "plain"
            cls = feat if feat else "coin=%s|%s" % (cc, state)
            if exc:
                key = "X02|trace|who_signed|exception=%s|%s" % (exc.split(":")[0], _exc_feat(exc, feat, foreign))
            else:
                gk, wk = set(map(tuple, got[pos])), set(map(tuple, w or []))
                rel = "missing" if gk < wk else "invented" if gk > wk else "other"
                key = "X02|trace|who_signed|pairs|%s|%s" % (rel, cls)
            J.fail(key, "recorded session (seed %s, %s): after event %d %s who_signed reports %s for input %d; the specification demands %s" % (
                t["_seed"], t["coin"], bad, _short(e), got[pos], pos, w),
                {"trace": {k: v for k, v in t.items() if k != "_exc"}, "event": bad, "pos": pos, "want": w, "exception": exc})
            break
    ctx.log("validated %d recorded signing/editing sessions (%d events): %d with a report the specification rejects" % (len(traces), nev, nbad))
    ctx.sample({"session": {k: v for k, v in traces[0].items() if not k.startswith("_")}})
    # binding self-test on canned observations
    good = {"coin": "BTC", "shape": [{"kind": "p2pkh", "m": 1, "keys": [1], "form": "c"}, {"kind": "ms_bare", "m": 1, "keys": [2, 3], "form": "c"}],
            "nout": 2, "ev": [{"t": "sign", "K": [1, 3], "I": [1, 2], "ht": 2, "ic": "none", "signed": [[[1, 2]], [[3, 2]]], "att": [[[1, 2]], [[3, 2]]]},
                              {"t": "mut", "m": "out_amt", "a": 1, "b": 3, "att": [[[1, 2]], [[3, 2]]]},
                              {"t": "mut", "m": "seq", "a": 2, "b": 1, "att": [[[1, 2]], []]}]}
    b1 = json.loads(json.dumps(good))
    b1["ev"][2]["att"] = [[[1, 2]], [[3, 2]]]          # claims a signer whose signature no longer verifies
    b2 = json.loads(json.dumps(good))
    b2["ev"][0]["att"] = [[[1, 2]], []]                # forgets a signer
    v = validate_attr_traces(ctx, [good, b1, b2])
    ctx.selftest("attr_trace_rejects_corrupted_report", v[0][0] == 0 and v[1][0] == 3 and v[2][0] == 1)


# =================================================================== (b) annotation: spec -> code

def _ann_case(sig, pk, wit=(), amount=0, **kw):
    return SC.mk_case("spend", bytes(sig), bytes(pk), [bytes(w) for w in wit], flags=["P2SH", "WITNESS"], amount=amount, **kw)


def _ann_enum_chunk(recs):
    out = []
    for rec in recs:
        case = _ann_case(rec["sig"], rec["pk"])
        tx, idx = XN.tx_of_case(case)
        obs = XN.observe(tx, idx)
        lst = rec["lst"]
        fl = XN.judge(lst, obs)
        cls = (lst["status"], lst["err"], lst["endphase"], len(lst["fail"]), bool(lst["rest"]), bool(lst["keys"] or lst["sigs"]))
        out.append((fl, cls))
    return out


def _ann_report(ctx, J, stage, rec_or_case, fl, detail):
    for suffix, what in fl:
        J.fail("X02|annotate|" + suffix, "%s: %s" % (stage, what), detail)


def stage_ann_enum(ctx, J):
    from ..par import pmap, split
    cfgs = ["X02_MC_AnnotateEnum_q", "X02_MC_AnnotateEnum_q3"] if ctx.quick else ["X02_MC_AnnotateEnum_t"]
    for cfg in cfgs:
        recs = []
        ctx.tlc("X02_MC_AnnotateEnum", cfg, on_record=lambda r: recs.append(r) if r.get("k") == "lst" else None,
                keep_records=False, timeout=3000)
        if not recs:
            raise MachineryError("no listing printed by %s" % cfg)
        res = [x for ch in pmap(_ann_enum_chunk, split(recs, NPROC * 4), chunk=1) for x in ch]
        nf = 0
        for rec, (fl, cls) in zip(recs, res):
            ctx.case(("ann_enum",) + cls)
            if fl:
                nf += 1
                _ann_report(ctx, J, "enumerated spend scriptSig=%s scriptPubKey=%s" % (bytes(rec["sig"]).hex(), bytes(rec["pk"]).hex()), rec, fl,
                            {"sig": rec["sig"], "pk": rec["pk"], "listing": rec["lst"]})
        ctx.replayed += len(recs)
        ctx.action("ann_enum." + cfg, len(recs))
        ctx.log("compared %d enumerated listings of %s with annotate_scripts: %d disagree" % (len(recs), cfg, nf))
        ctx.sample({"listing": {"sig": recs[len(recs) // 3]["sig"], "pk": recs[len(recs) // 3]["pk"],
                                "rows": [[r["pc"], r["op"]] for r in recs[len(recs) // 3]["lst"]["exec"]]}})
    # binding self-test (canned observation): a listing with a wrong offset, a wrong tail, a wrong text must be rejected
    lst = {"status": "fail", "err": "VERIFY", "need": [], "endphase": "pk",
           "exec": [{"pc": 0, "op": 0, "data": [[]], "ok": True, "phase": "sig", "ispush": False, "names": ["OP_0"], "alias": []}],
           "fail": [{"pc": 0, "op": 105, "data": [], "ok": True, "phase": "pk", "ispush": False, "names": ["OP_VERIFY"], "alias": []}],
           "rest": [{"pc": 1, "op": 1, "data": [[7]], "ok": True, "phase": "pk", "ispush": True, "names": [], "alias": ["OP_7"]}],
           "keys": [], "sigs": [], "loose": []}

    def ob(rows):
        return {"rows": [{"pc": a, "op": b, "shown": XN.shown_data(t), "text": t, "sec": False, "sig": False, "pre": []} for a, b, t in rows],
                "exc": None, "v0": "fail", "v1": "fail", "changed": False}
    good = XN.judge(lst, ob([(0, 0, "OP_0"), (0, 105, "OP_VERIFY"), (1, 1, "OP_7")]))
    good2 = XN.judge(lst, ob([(0, 0, "OP_0"), (0, 105, "OP_VERIFY")]))
    b1 = XN.judge(lst, ob([(0, 0, "OP_0"), (1, 1, "OP_7"), (0, 105, "OP_VERIFY")]))
    b2 = XN.judge(lst, ob([(0, 0, "OP_0"), (0, 105, "OP_VERIFY"), (1, 1, "OP_8")]))
    b3 = XN.judge(lst, ob([]))
    ctx.selftest("ann_replay_rejects_corrupted_listing", not good and not good2 and any("rows|tail" in f[0] for f in b1)
                 and any("text|" in f[0] for f in b2) and any("rows|executed" in f[0] for f in b3))


# ------------------------------------------------------------------ cases from a file (X02_AnnotateRun)

def _sig_oracle(c, sig, key, code, sv):
    if c["sigmode"] == "fixed":
        return SC.sig_oracle_fixed(sig, key, SC.Z_FIXED)
    spend, idx = SC.spend_tx_of(c)
    return SC.sig_oracle_tx(sig, key, code, sv, spend, idx)


def annotate_run(ctx, cases, label="", max_rounds=8, workers=16):
    """cases: MC_ScriptRun-style case dicts (mutated: oracle entries appended); a case carrying "rep" is judged by TLC.
    -> list of records ("lst" or "jud") aligned with cases"""
    from ..scriptrun import preseed
    results = [None] * len(cases)
    for c in cases:
        if not c["hashes"]:
            preseed(c)
    todo = list(range(len(cases)))
    for rnd in range(max_rounds):
        if not todo:
            break
        got = {}
        for lo in range(0, len(todo), 3000):
            part = todo[lo:lo + 3000]
            fd, path = tempfile.mkstemp(prefix="vf-x02-cases-", suffix=".json")
            with os.fdopen(fd, "w") as f:
                json.dump([{k: v for k, v in cases[i].items() if k in ("sig", "pk", "wit", "flags", "ctx", "hashes", "sigs", "sigmode", "rep")}
                           for i in part], f)
            try:
                r = ctx.tlc("X02_AnnotateRun", "X02_AnnotateRun", workers=workers, env={"CASES_FILE": path}, timeout=3000)
            finally:
                os.unlink(path)
            for rec in r.records:
                if isinstance(rec, dict) and rec.get("k") in ("lst", "jud", "need"):
                    got[part[rec["id"] - 1]] = rec
        if len(got) != len(todo):
            raise MachineryError("X02_AnnotateRun %s: %d cases in, %d verdicts out" % (label, len(todo), len(got)))
        nxt = []
        for i in todo:
            rec = got[i]
            if rec["k"] != "need":
                results[i] = rec
                continue
            nd = rec["need"]
            c = cases[i]
            if nd[0] == "hash":
                x = bytes(nd[2])
                have = {(e[0], bytes(e[1])) for e in c["hashes"]}
                for _ in range(24):
                    if (nd[1], x) in have:
                        break
                    have.add((nd[1], x))
                    y = SC.hash_oracle(nd[1], x)
                    c["hashes"].append([nd[1], list(x), list(y)])
                    x = y
            else:
                pairs = [(bytes(nd[1]), bytes(nd[2]))] if nd[0] == "sig" else [(bytes(sg), bytes(ky)) for sg in nd[1] for ky in nd[2]]
                code, sv = bytes(nd[3]), nd[4]
                keycode = [] if c["sigmode"] == "fixed" else list(code)
                have = {(bytes(e[0]), bytes(e[1]), bytes(e[2]), e[4]) for e in c["sigs"]}
                for sig, key in pairs:
                    if (sig, key, bytes(keycode), sv) in have or not sig:
                        continue
                    have.add((sig, key, bytes(keycode), sv))
                    c["sigs"].append([list(sig), list(key), keycode, 1 if _sig_oracle(c, sig, key, code, sv) else 0, sv])
            nxt.append(i)
        todo = nxt
    if todo:
        raise MachineryError("X02_AnnotateRun %s: oracle resolution did not converge for %d cases" % (label, len(todo)))
    return results


def _n_instructions(script):
    n = pc = 0
    L = len(script)
    while pc < L:
        op = script[pc]
        n += 1
        if op < 76:
            pc += 1 + op
        elif op == 76:
            pc += 2 + (script[pc + 1] if pc + 1 < L else 0)
        elif op == 77:
            pc += 3 + (script[pc + 1] + 256 * script[pc + 2] if pc + 2 < L else 0)
        elif op == 78:
            pc += 5 + (int.from_bytes(script[pc + 1:pc + 5], "little") if pc + 4 < L else 0)
        else:
            pc += 1
    return n


def _observe_chunk(cases):
    out = []
    for c in cases:
        tx, idx = XN.tx_of_case(c)
        out.append(XN.observe(tx, idx))
    return out


def _session_cases(seed, count):
    """signed (partially / fully, then edited) transactions of X02 (a) as annotate cases, one per input"""
    rnd = random.Random(seed)
    out = []
    while len(out) < count:
        shape = XA.random_shape(rnd, "BTC")
        nout = rnd.choice([1, 2, 3])
        ses = SG.Session("BTC", shape, n_out=nout)
        allkeys = sorted(set(k for d in shape for k in d["keys"]))
        for _ in range(rnd.randint(1, 2)):
            K = allkeys if rnd.random() < 0.5 else sorted(rnd.sample(allkeys, rnd.randint(1, len(allkeys))))
            ses.sign({"mech": "lookup", "K": K, "I": list(range(1, len(shape) + 1)), "ht": rnd.choice([1, 2, 3, 129, 130, 131]),
                      "scr": True, "reg": [], "sec": [], "fresh": True, "ic": "none"})
        tx = ses.tx
        if rnd.random() < 0.3:
            tx.txs_out[0].coin_value += 1          # some signatures stop verifying
        txhex = tx.as_hex()
        pv = [[bytes(u.script).hex(), u.coin_value] for u in tx.unspents]
        for i, ti in enumerate(tx.txs_in):
            c = SC.mk_case("spend", ti.script, bytes(tx.unspents[i].script), list(ti.witness), flags=["P2SH", "WITNESS"],
                           version=tx.version, locktime=tx.lock_time, sequence=ti.sequence, amount=tx.unspents[i].coin_value,
                           tx={"hex": txhex, "idx": i, "prevouts": pv}, text=["session", shape[i]["kind"]])
            out.append(c)
    return out[:count]


def stage_ann_run(ctx, J):
    from ..ctx import REPO
    from ..par import pmap, split
    q = ctx.quick
    cases = []
    # 1. the shapes of spends TLC enumerates for C03 (bare / P2SH / witness x leaf x deviation), under the flags annotate uses
    r = ctx.tlc("MC_SpendShapes", "MC_SpendShapes_quick" if q else "MC_SpendShapes_thorough", count=False, timeout=1200)
    seen = set()
    for rec in r.by_kind("shape"):
        k = (rec["pk"], rec["leaf"], rec["sigk"], rec["witk"])
        if k in seen:
            continue
        seen.add(k)
        c = SC.concretize(dict(rec, flags=["P2SH", "WITNESS"]))
        c["text"] = ["shape"] + list(k)
        cases.append(c)
    nshape = len(cases)
    # 2. Bitcoin Core's script vectors, evaluated under the flags annotate uses
    seen = set()
    for c, exp, comment in SC.load_core_script_tests(os.path.join(REPO, "tests", "btc", "data", "script_tests.json")):
        k = (bytes(c["sig"]), bytes(c["pk"]), tuple(bytes(w) for w in c["wit"]))
        if k in seen or _n_instructions(k[0]) + _n_instructions(k[1]) > 450:
            continue
        seen.add(k)
        c["flags"] = ["P2SH", "WITNESS"]
        cases.append(c)
    ncore = len(cases) - nshape
    # 3. the signed transactions of part (a)
    cases += _session_cases(ctx.seed * 7919 + 5, 60 if q else 400)
    res = annotate_run(ctx, cases, label="run")
    obs = [o for ch in pmap(_observe_chunk, split(cases, NPROC * 4), chunk=1) for o in ch]
    nf = 0
    for c, rec, o in zip(cases, res, obs):
        lst = rec["lst"]
        fl = XN.judge(lst, o)
        ctx.case(("ann_run", c["text"][0], lst["status"], lst["err"], lst["endphase"], bool(lst["keys"]), bool(lst["rest"])))
        if fl:
            nf += 1
            _ann_report(ctx, J, "spend %s scriptSig=%s scriptPubKey=%s witness=%s" % (
                c["text"][:4], bytes(c["sig"]).hex()[:160], bytes(c["pk"]).hex()[:160], [bytes(w).hex()[:40] for w in c["wit"]]), c, fl,
                {"case": {k: v for k, v in c.items() if k not in ("hashes", "sigs")}, "listing": lst, "observed": o})
    ctx.replayed += len(cases)
    ctx.action("ann_run.shapes", nshape)
    ctx.action("ann_run.core_vectors", ncore)
    ctx.action("ann_run.session_inputs", len(cases) - nshape - ncore)
    ctx.log("compared the listings of %d spends (%d shapes, %d Core vectors, %d session inputs) with annotate_scripts: %d disagree" % (
        len(cases), nshape, ncore, len(cases) - nshape - ncore, nf))


# =================================================================== (b) annotation: code -> spec

def _random_spend(rnd, table):
    """a seeded random spend: stack-aware random scriptPubKey (C03's generator), optionally ending in a signature
    check over key- / signature-shaped items, optionally wrapped in P2SH / P2WSH, optionally truncated"""
    from .c03 import _random_script
    nst = rnd.randint(0, 3)
    items = [bytes(rnd.choice([0, 1, 2, 0x80]) for _ in range(rnd.choice([0, 1, 1, 2]))) for _ in range(nst)]
    script = _random_script(rnd, nst)
    r = rnd.random()
    if r < 0.25:
        keys = [bytes(k) for k in table["keys"]]
        sigs = [bytes(x) for x in table["sigs"]]
        if rnd.random() < 0.5:
            script += SC.push_enc(rnd.choice(sigs)) + SC.push_enc(rnd.choice(keys)) + bytes([rnd.choice([172, 172, 173])])
            if script[-1] == 172 and rnd.random() < 0.5:
                # a second signature check after the first one's result is dropped
                script += b"\x75" + SC.push_enc(rnd.choice(sigs)) + SC.push_enc(rnd.choice(keys)) + b"\xac"
        else:
            n = rnd.randint(1, 3)
            m = rnd.randint(0, n)
            script += b"\x00" + b"".join(SC.push_enc(rnd.choice(sigs)) for _ in range(m)) + SC.push_int(m) + \
                b"".join(SC.push_enc(rnd.choice(keys)) for _ in range(n)) + SC.push_int(n) + bytes([rnd.choice([174, 174, 175])])
        if rnd.random() < 0.3:
            script = bytes([rnd.choice([0, 81])]) + b"\x63" + script + b"\x67\x51\x68"      # inside a conditional
    if rnd.random() < 0.08:
        script += rnd.choice([b"\x4c", b"\x4c\x05\x01", b"\x05\x01\x02", b"\x4d\x01", b"\x4e\x01\x00\x00\x00"])   # a truncated push
    push = b"".join((SC.push_enc(x) if x else b"\x00") for x in items)
    if rnd.random() < 0.07:
        push = rnd.choice([b"\x61", b"\x51\x63", b"\x02\x01"]) + push              # not push-only / unbalanced / truncated
    w = rnd.random()
    if w < 0.22:
        spk = b"\xa9" + SC.push_enc(SC._h160(script)) + b"\x87"
        return _ann_case(push + SC.push_enc(script), spk, text=["random", "p2sh"])
    if w < 0.36 and len(script) > 0:
        import hashlib
        spk = b"\x00" + SC.push_enc(hashlib.sha256(script).digest())
        return _ann_case(b"", spk, wit=items + [script], amount=1000, text=["random", "p2wsh"])
    return _ann_case(push, script, text=["random", "bare"])


def _ann_trace_chunk(args):
    seed, count, with_sessions = args
    rnd = random.Random(seed)
    table = SC.make_sig_table(small=True)
    cases = [_random_spend(rnd, table) for _ in range(count)]
    if with_sessions:
        cases += _session_cases(seed + 1, with_sessions)
    out = []
    for c in cases:
        c["sigmode"] = "tx"
        tx, idx = XN.tx_of_case(c)
        out.append((c, XN.observe(tx, idx)))
    return out


def _jud_fails(jud, o):
    """failure (key suffix, what) list from TLC's judgement of reported rows"""
    fails = []
    if o["changed"]:
        fails.append(("readonly|transaction-changed", "annotate_scripts changed the transaction"))
    if o["v0"] != o["v1"]:
        fails.append(("verdict-changed|before=%s|after=%s" % (o["v0"], o["v1"]), "check_solution answered %s before and %s after annotate_scripts" % (o["v0"], o["v1"])))
    if o["v0"] != jud["status"]:
        fails.append(("interpreter-verdict|spec=%s|pycoin=%s" % (jud["status"], o["v0"]), "check_solution says %s, the consensus specification %s (%s)" % (o["v0"], jud["status"], jud["err"])))
        return fails
    ctxs = "verdict=%s|endphase=%s" % (jud["status"], jud["endphase"])
    if jud["bad"]:
        what = "executed-rows" if jud["bad"] <= jud["nexec"] else ("tail-after-malformed-push" if jud["malformed_before"] else "tail")
        fails.append(("rows|%s|%s" % (what, ctxs), "row %d of the reported listing %s is not the instruction the evaluation has there (%s; %d rows carried out, %d with those never reached)" % (
            jud["bad"] - 1, [(r["pc"], XN.opname(r["op"])) for r in o["rows"]][:40], jud["want"], jud["nexec"], jud["nfull"])))
    for tw in sorted(jud["textwant"], key=lambda x: x["i"])[:1]:
        r = o["rows"][tw["i"] - 1]
        if 1 <= tw["op"] <= 78:
            d = tw["data"][0] if tw["data"] else None
            cat = "malformed-push" if d is None else ("push-1-byte=%s" % ("0" if d == [0] else "129" if d == [129] else ">16" if d[0] > 16 else "1..16") if len(d) == 1 else "push")
        else:
            cat = "word=%s" % XN.opname(tw["op"])
        fails.append(("text|%s" % cat, "instruction at offset %d (opcode 0x%02x, pushes %s) is written %r; acceptable: %s" % (
            r["pc"], tw["op"], tw["data"], r["text"], tw["names"] or (["the bytes"] + tw["alias"]))))
    for rw in sorted(jud["rolewant"], key=lambda x: x["i"])[:1]:
        r = o["rows"][rw["i"] - 1]
        if r["sec"] != rw["key"]:
            fails.append(("roles|key|%s" % ("missing" if rw["key"] else "invented"), "the item pushed at offset %d: used as a public key by an executed signature check: %s; labelled so: %s" % (r["pc"], rw["key"], r["sec"])))
        else:
            fails.append(("roles|signature|invented", "the item pushed at offset %d is not used as a signature by an executed signature check, the listing labels it so" % r["pc"]))
    return fails


def stage_ann_trace(ctx, J):
    from ..par import pmap
    n = 1200 if ctx.quick else 6000
    per = 100
    chunks = [(ctx.seed * 1000003 + 97 * i + 13, per, 6) for i in range(n // per)]
    pairs = [x for ch in pmap(_ann_trace_chunk, chunks, chunk=1) for x in ch]
    cases, obs = [], []
    nexc = 0
    for c, o in pairs:
        ctx.case(None)
        if o["exc"]:
            nexc += 1
            J.fail("X02|annotate|exception=%s" % o["exc"].split(":")[0], "recorded spend %s scriptSig=%s scriptPubKey=%s: annotate_scripts raised %s" % (
                c["text"], bytes(c["sig"]).hex()[:120], bytes(c["pk"]).hex()[:200], o["exc"]), {"case": {k: v for k, v in c.items() if k not in ("hashes", "sigs")}})
            continue
        c["rep"] = [{"pc": r["pc"], "op": r["op"], "shown": r["shown"], "text": r["text"], "sec": r["sec"], "sig": r["sig"]} for r in o["rows"]]
        cases.append(c)
        obs.append(o)
    res = annotate_run(ctx, cases, label="trace")
    nrej = 0
    for c, jud, o in zip(cases, res, obs):
        fl = _jud_fails(jud, o)
        ctx.case(("ann_trace", c["text"][1], jud["status"], jud["err"], jud["endphase"]), 0)
        if not fl:
            ctx.traces += 1
            continue
        nrej += 1
        _ann_report(ctx, J, "recorded spend %s scriptSig=%s scriptPubKey=%s" % (c["text"], bytes(c["sig"]).hex()[:120], bytes(c["pk"]).hex()[:200]), c, fl,
                    {"case": {k: v for k, v in c.items() if k not in ("hashes", "sigs")}, "judgement": jud})
    ctx.log("validated %d recorded annotate_scripts listings: %d rejected by the specification, %d raised" % (len(cases), nrej, nexc))
    ctx.sample({"recorded_listing": {"sig": bytes(cases[0]["sig"]).hex(), "pk": bytes(cases[0]["pk"]).hex(), "rows": [[r["pc"], r["op"], r["text"][:40]] for r in cases[0]["rep"]]}})
    # binding self-test on canned observations: OP_1 | OP_DUP OP_VERIFY OP_1
    base = _ann_case(b"\x51", b"\x76\x69\x51")
    base["sigmode"] = "tx"

    def rep(rows):
        return [{"pc": a, "op": b, "shown": XN.shown_data(t), "text": t, "sec": False, "sig": False} for a, b, t in rows]
    good = dict(base, rep=rep([(0, 81, "OP_1"), (0, 118, "OP_DUP"), (1, 105, "OP_VERIFY"), (2, 81, "OP_1")]))
    b1 = dict(base, rep=rep([(0, 81, "OP_1"), (0, 118, "OP_DUP"), (2, 105, "OP_VERIFY"), (2, 81, "OP_1")]))
    b2 = dict(base, rep=rep([(0, 81, "OP_1"), (0, 118, "OP_DUP"), (1, 105, "OP_VERIFY"), (2, 81, "OP_2")]))
    b3 = dict(base, rep=rep([(0, 81, "OP_1"), (0, 118, "OP_DUP"), (1, 105, "OP_VERIFY")]))
    b4 = json.loads(json.dumps(good))
    b4["rep"][0]["sec"] = True
    rr = annotate_run(ctx, [json.loads(json.dumps(x)) for x in (good, b1, b2, b3, b4)], label="selftest", workers=2)
    ctx.selftest("ann_trace_rejects_corrupted_listing",
                 rr[0]["bad"] == 0 and not rr[0]["textbad"] and not rr[0]["rolebad"] and rr[1]["bad"] == 3 and rr[2]["textbad"] == [4]
                 and rr[3]["bad"] == 4 and rr[4]["rolebad"] == [1])


STAGES = [("attr_model", stage_attr_model), ("attr_replay", stage_attr_replay), ("attr_trace", stage_attr_trace),
          ("ann_enum", stage_ann_enum), ("ann_run", stage_ann_run), ("ann_trace", stage_ann_trace)]


def run(ctx):
    J = Judge(ctx)
    only = getattr(ctx, "only", None)
    ctx.rule = ("(a) every bounded signing history followed by every bounded editing history that TLC prints is performed on a real "
                "transaction; distinct_nontrivial counts distinct (coin, puzzle kinds + key forms, outputs, last event, attribution "
                "changed or not) classes; (b) distinct (stage, script shape / opcode, outcome) classes of listings compared")
    ctx.assumptions += ["ECDSA signatures verify only under the key that made them and only for the digest they were made for",
                        "pycoin's signing (C05), signature hash (C04) and interpreter verdicts (C03) are used to BUILD the cases; "
                        "what who_signed / annotate must report comes from TLC"]
    for name, f in STAGES:
        if only and name not in only:
            continue
        if name in ("attr_model",):
            f(ctx)
        else:
            f(ctx, J)
    ctx.exhaustive = False


# =================================================================== single-case replayer (./check X02 --replay FILE)

def replay(ctx, obj):
    J = Judge(ctx)
    d = obj.get("detail") or {}
    print("key :", obj.get("key"))
    print("what:", obj.get("what"))
    if "hist" in d:
        st = _St(SG.Session(d["coin"], d["shape"], n_out=d["nout"]))
        for e in d["hist"]:
            st.step(d["coin"], e)
        pos = d["pos"]
        rep = XA.report(d["coin"], st.tx, pos)
        print("history :", [_short(e) for e in d["hist"]])
        print("demanded:", d["expected"], " (input position %d)" % pos)
        print("reported:", rep)
        if rep.get("pairs") != d["expected"] or rep["exc"]:
            J.fail(obj["key"], obj["what"], d)
    elif "listing" in d and "sig" in d:
        case = _ann_case(d["sig"], d["pk"])
        tx, idx = XN.tx_of_case(case)
        o = XN.observe(tx, idx)
        fl = XN.judge(d["listing"], o)
        print("listed  :", [(r["pc"], XN.opname(r["op"]), r["text"][:30]) for r in o["rows"]], o["exc"])
        print("demanded:", [(r["pc"], XN.opname(r["op"])) for r in d["listing"]["exec"] + d["listing"]["fail"] + d["listing"]["rest"]])
        for suffix, what in fl:
            J.fail("X02|annotate|" + suffix, what, d)
    else:
        print(json.dumps(d, indent=1)[:4000])
        print("(no single-case replayer for this class of record; the record above is the failing case)")
