"""X02 - signature attribution (pycoin/contrib/who_signed.py) and script annotation (pycoin/vm/annotate.py)
tell the truth about a transaction.  See ext/X02.md for the statement.

 (a) attribution
  attr_model   X02_Attribution.tla (Signer.tla's signing histories followed by TxValidate.tla's editing histories;
               Attribution = the listed keys whose signature is present and verifies NOW) - lemmas by TLC
  attr_replay  TLC prints every bounded history with the attribution demanded for every input position; the
               history is performed on a real transaction and who_signed / annotate are asked
  attr_trace   seeded random larger sessions (more inputs, bigger multisigs, over-supplied passes, several
               edits), what who_signed reported after every event; TLC validates the logs (X02_Trace_Attribution)
 (b) annotation
  ann_model    X02_Annotate.tla (the listing as a projection of VerifyScript's step sequence) - lemmas by TLC
  ann_enum     TLC enumerates small scriptSig / scriptPubKey pairs and prints the listing demanded
  ann_run      spend shapes of MC_SpendShapes (bare / P2SH / witness x deviations), Bitcoin Core's script vectors
               and the signed transactions of (a): TLC computes the listing, annotate_scripts must agree
  ann_trace    seeded random scripts and spends: recorded listings validated by TLC (X02_Trace_Annotate)
"""
from __future__ import annotations

import collections
import copy
import json
import os
import random
import tempfile

from ..ctx import MachineryError, ROOT
from ..drv import signing as SG
from ..drv import x02_attr as XA
from ..par import NPROC

FINDINGS = os.path.join(ROOT, "ext", "X02_findings.json")


class Judge(object):
    """ctx.fail with the extension's own findings file (ctx only reads the main findings files)"""

    def __init__(self, ctx):
        self.ctx = ctx
        self.known = {}
        if os.path.exists(FINDINGS):
            for e in json.load(open(FINDINGS))["findings"]:
                if e["property"] == "X02" and e["status"] == "known":
                    self.known[e["key"]] = e

    def fail(self, key, what, detail=None):
        ctx = self.ctx
        if key in self.known:
            if key not in ctx.known_seen:
                ctx.known_seen[key] = what
                print("KNOWN-FINDING: property=X02 %s [%s]" % (self.known[key].get("what", what), key), flush=True)
            return False
        return ctx.fail(key, what, detail)


# =================================================================== (a) attribution: spec -> code

FORKID = ("BCH", "BTG")
WITNESS_KINDS = SG.WITNESS_KINDS
MULTI = SG.MULTI_KINDS


def _case_key(rec):
    return json.dumps([rec["coin"], rec["shape"], rec["nout"]], sort_keys=True)


def _ev_key(e):
    return json.dumps(e, sort_keys=True)


def _pass_of(e):
    return {"mech": "lookup", "K": list(e["K"]), "I": list(e["I"]), "ht": e["ht"], "scr": True, "reg": [], "sec": [],
            "fresh": True, "ic": e["ic"]}


class _St(object):
    """the concrete state after a history: a signing Session, then (after the first edit) a Mutator"""
    __slots__ = ("ses", "mut", "exc")

    def __init__(self, ses, mut=None):
        self.ses, self.mut, self.exc = ses, mut, None

    def clone(self):
        return _St(self.ses.clone() if self.mut is None else self.ses, None if self.mut is None else self.mut.clone())

    @property
    def tx(self):
        return self.mut.tx if self.mut is not None else self.ses.tx

    def unl(self):
        return self.mut.unl if self.mut is not None else [k + 1 for k in range(len(self.ses.tx.txs_in))]

    def ids(self):
        return [m["id"] for m in self.mut.meta] if self.mut is not None else [k + 1 for k in range(len(self.ses.tx.txs_in))]

    def step(self, coin, e):
        try:
            if e["t"] == "sign":
                self.ses.sign(_pass_of(e))
                return
            if self.mut is None:
                self.mut = XA.Mutator(coin, copy.deepcopy(self.ses.tx), self.ses.puzzles)
                self.mut.blobs = self.mut.signature_blobs()
            if e["t"] == "retag":
                self.mut.retag(e["a"], e["key"], e["b"])
            else:
                self.mut.apply({"m": e["m"], "a": e["a"], "b": e["b"]})
        except SG.NotInjective as x:
            self.exc = "NotInjective: %s" % x


def _listed_now(st, shape, pos):
    return XA.listed_now(st.mut, shape, pos)


def _features(coin, st, pos):
    return XA.features(coin, st.tx, pos)


def _judge_state(rec, st, last):
    """compare what pycoin reports on the concrete state with rec['att'] (TLC).  -> list of (key, what, detail)"""
    coin, shape = rec["coin"], rec["shape"]
    fails = []
    tx = st.tx
    unl = st.unl()
    if unl != rec["unl"] or len(tx.txs_in) != len(rec["att"]):
        raise MachineryError("concretization lost track of the unlocking data: %s vs %s" % (unl, rec["unl"]))
    state = "as-signed" if last["t"] == "sign" else ("retag" if last["t"] == "retag" else "edit:" + last["m"])
    for pos in range(len(tx.txs_in)):
        exp = sorted([list(x) for x in rec["att"][pos]])
        u = unl[pos]
        d = shape[u - 1] if u else None
        kc = "none" if d is None else ("multi" if d["kind"] in MULTI else "single")
        cc = "forkid" if coin in FORKID else "plain"
        feat = _features(coin, st, pos)
        cls = feat if feat else "kind=%s|coin=%s|%s" % (kc, cc, state)
        listed = _listed_now(st, shape, pos)
        before = XA.frozen(tx)
        rep = XA.report(coin, tx, pos)
        ann = None
        if d is not None and d["kind"] not in WITNESS_KINDS:
            ann = XA.annotated_signers(coin, tx, pos)
        if XA.frozen(tx) != before:
            fails.append(("X02|readonly|who_signed-or-annotate-changed-the-transaction", "asking who signed input %d changed the transaction" % pos, None))
        det = {"coin": coin, "shape": shape, "nout": rec["nout"], "hist": rec["hist"], "pos": pos, "expected": exp, "report": rep,
               "annotated": ann}
        for call, text in sorted(rep["exc"].items()):
            fails.append(("X02|who_signed|exception=%s|call=%s|%s" % (text.split(":")[0], call, cls),
                          "%s(tx, %d) raised %s" % (call, pos, text), det))
        if "pairs" in rep:
            got = rep["pairs"]
            if got != exp:
                gk, ek = set(map(tuple, got)), set(map(tuple, exp))
                if gk < ek:
                    rel = "missing"
                elif gk > ek:
                    rel = "invented"
                elif set(k for k, b in gk) == set(k for k, b in ek):
                    rel = "wrong-type"
                else:
                    rel = "other"
                fails.append(("X02|who_signed|pairs|%s|%s" % (rel, cls),
                              "input %d: public_pairs_signed reports %s, the specification demands %s (history %s)" % (
                                  pos, got, exp, [_short(e) for e in rec["hist"]]), det))
            elif "addr" in rep:
                want = sorted([k, d["form"], b] for k, b in exp)
                if rep["addr"] != want:
                    forms = sorted(set(x[1] for x in rep["addr"]))
                    fails.append(("X02|who_signed_tx|address|key-form=%s|reported-form=%s" % (d["form"] if d else "?", ",".join(forms)),
                                  "input %d: who_signed_tx names the addresses %s (key id, form, type); the keys that signed are %s" % (
                                      pos, rep["addr"], want), det))
        if ann is not None:
            if "exc" in ann:
                fails.append(("X02|annotate|exception=%s|%s" % (ann["exc"].split(":")[0], cls),
                              "annotate_scripts(tx, %d) raised %s" % (pos, ann["exc"]), det))
            else:
                want = sorted([k, XA.type_text(b)] for k, b in exp)
                got = [x for x in ann["pairs"] if x[0] in listed]
                if got != want:
                    rel = "missing" if set(map(tuple, got)) < set(map(tuple, want)) else "invented" if set(map(tuple, got)) > set(map(tuple, want)) else "other"
                    fails.append(("X02|annotate|signers|%s|%s" % (rel, cls),
                                  "input %d: the annotation of the signature pushes names the signers %s, the specification demands %s" % (
                                      pos, got, want), det))
    return fails


def _short(e):
    if e["t"] == "sign":
        return "sign(K=%s,I=%s,ht=%s)" % (e["K"], e["I"], e["ht"])
    if e["t"] == "retag":
        return "retag(in%s,key%s->%s)" % (e["a"], e["key"], e["b"])
    return "%s(%s,%s)" % (e["m"], e["a"], e["b"])


def _attr_chunk(recs):
    """records of ONE case; walks them depth-first, cloning the concrete state at branch points"""
    recs = sorted(recs, key=lambda r: [_ev_key(e) for e in r["hist"]])
    coin, shape, nout = recs[0]["coin"], recs[0]["shape"], recs[0]["nout"]
    fails = []
    stats = {"states": 0, "skipped": 0, "classes": set(), "events": 0}
    stack = []       # [(event key, _St)]
    root = _St(SG.Session(coin, shape, n_out=nout))
    for rec in recs:
        keys = [_ev_key(e) for e in rec["hist"]]
        L = 0
        while L < len(stack) and L < len(keys) and stack[L][0] == keys[L]:
            L += 1
        del stack[L:]
        for j in range(L, len(keys)):
            parent = stack[-1][1] if stack else root
            st = parent.clone()
            if parent.exc is None:
                st.step(coin, rec["hist"][j])
                stats["events"] += 1
            else:
                st.exc = parent.exc
            stack.append((keys[j], st))
        st = stack[-1][1]
        if st.exc is not None:
            stats["skipped"] += 1
            continue
        stats["states"] += 1
        last = rec["hist"][-1]
        stats["classes"].add((coin, tuple(d["kind"] + d["form"] for d in shape), nout, last["t"], last.get("m"),
                              json.dumps([sorted(x) for x in rec["att"]]) == json.dumps([sorted(x) for x in rec["signed"]])))
        fails += _judge_state(rec, st, last)
    return fails, stats


def attr_replay_records(records, procs=NPROC):
    import multiprocessing as mp
    groups = collections.OrderedDict()
    for r in records:
        # one chunk per (case, first event): the first event is always a signing pass
        groups.setdefault(_case_key(r) + _ev_key(r["hist"][0]), []).append(r)
    chunks = sorted(groups.values(), key=lambda g: -len(g))
    if procs > 1 and len(chunks) > 1:
        with mp.get_context("fork").Pool(procs) as pool:
            res = pool.map(_attr_chunk, chunks, chunksize=1)
    else:
        res = [_attr_chunk(c) for c in chunks]
    fails = []
    tot = {"states": 0, "skipped": 0, "events": 0, "classes": set()}
    for f, st in res:
        fails += f
        for k in ("states", "skipped", "events"):
            tot[k] += st[k]
        tot["classes"] |= st["classes"]
    return fails, tot


def stage_attr_model(ctx):
    q = ctx.quick
    ctx.tlc("X02_MC_Attribution", "X02_MC_Attribution_dev", workers=4, timeout=1200)
    ctx.tlc("X02_MC_Attribution", "X02_MC_Attribution_model_q" if q else "X02_MC_Attribution_model_t", coverage=not q, timeout=3000)
    # vacuity: the corners the lemmas speak about are reachable (TLC must find the "never" claims violated)
    for inv in ("NeverPartialLoss", "NeverSurvivesTransplant", "NeverSurvivesRetag"):
        r = ctx.tlc("X02_MC_Attribution", "X02_MC_Attribution_reach_" + inv, expect_ok=False, count=False, workers=4, timeout=1200)
        if r.ok or r.violated != inv:
            raise MachineryError("vacuity: no reachable state violates %s (%s)" % (inv, r.violated))


def stage_attr_replay(ctx, J):
    q = ctx.quick
    for cfg in (["X02_MC_Attribution_replay_q", "X02_MC_Attribution_replay_light_q", "X02_MC_Attribution_replay_deep_q"] if q else
                ["X02_MC_Attribution_replay_t", "X02_MC_Attribution_replay_deep_t"]):
        if getattr(ctx, "cfg_only", None) and ctx.cfg_only not in cfg:
            continue
        recs = []
        ctx.tlc("X02_MC_Attribution", cfg, on_record=lambda rec: recs.append(rec) if rec.get("k") == "x" else None,
                keep_records=False, timeout=3000)
        if not recs:
            raise MachineryError("no history printed by %s" % cfg)
        fails, tot = attr_replay_records(recs)
        ctx.log("replayed %d histories of %s: %d events executed, %d states judged (%d not concretizable), %d disagreements" % (
            len(recs), cfg, tot["events"], tot["states"], tot["skipped"], len(fails)))
        if tot["states"] < len(recs) * 0.9:
            raise MachineryError("vacuity: only %d of %d histories of %s could be performed" % (tot["states"], len(recs), cfg))
        ctx.replayed += tot["states"]
        ctx.case(None, tot["states"])
        ctx.action("attr_replay." + cfg, len(recs))
        for c in tot["classes"]:
            ctx.case(("attr",) + c, 0)
        ctx.sample({"history": {k: v for k, v in recs[len(recs) // 2].items() if k != "sigbytes"}})
        for key, what, detail in fails:
            J.fail(key, what, detail)
    # binding self-test: a history whose demanded attribution is corrupted must be rejected
    rec = {"k": "x", "coin": "BTC", "shape": [{"kind": "p2pkh", "m": 1, "keys": [1], "form": "c"},
                                               {"kind": "ms_bare", "m": 2, "keys": [2, 3], "form": "c"}], "nout": 2,
           "hist": [{"t": "sign", "K": [1, 2, 3], "I": [1, 2], "ht": 1, "ic": "none"}, {"t": "mut", "m": "out_amt", "a": 1, "b": 3}],
           "att": [[], []], "unl": [1, 2], "signed": [[[1, 1]], [[2, 1], [3, 1]]]}
    f0, _ = attr_replay_records([rec], procs=1)
    bad = json.loads(json.dumps(rec))
    bad["att"] = [[[1, 1]], []]
    f1, _ = attr_replay_records([bad], procs=1)
    bad2 = json.loads(json.dumps(rec))
    bad2["att"] = [[], [[2, 3], [3, 1]]]
    f2, _ = attr_replay_records([bad2], procs=1)
    ctx.selftest("attr_replay_rejects_corrupted_expectation",
                 (not [f for f in f0 if "pairs" in f[0]]) and any("pairs|missing" in f[0] for f in f1) and any("pairs" in f[0] for f in f2))


# =================================================================== (a) attribution: code -> spec

def _record_sessions(seeds):
    return [XA.record_session(sd) for sd in seeds]


def validate_attr_traces(ctx, traces):
    """-> {trace index: (bad event index (1-based) or 0, what the specification demands there)}; raises
    MachineryError for a trace the specification could not replay to its end"""
    out = {}
    for lo in range(0, len(traces), 1500):
        part = traces[lo:lo + 1500]
        fd, path = tempfile.mkstemp(prefix="vf-x02-attr-", suffix=".json")
        with os.fdopen(fd, "w") as f:
            json.dump([{k: v for k, v in t.items() if not k.startswith("_")} for t in part], f)
        try:
            r = ctx.tlc("X02_Trace_Attribution", "X02_Trace_Attribution", workers=8, env={"TRACE_FILE": path}, count=False, timeout=3000)
        finally:
            os.unlink(path)
        for rec in r.records:
            if isinstance(rec, dict) and rec.get("k") == "res":
                out[lo + rec["tid"] - 1] = (rec["bad"], rec["want"])
    missing = [i for i in range(len(traces)) if i not in out]
    if missing:
        t = traces[missing[0]]
        raise MachineryError("X02_Trace_Attribution could not replay %d of %d recorded sessions to their end, e.g. seed %s: %s" % (
            len(missing), len(traces), t.get("_seed"), json.dumps([{k: v for k, v in e.items() if k not in ("att", "signed")} for e in t["ev"]])[:600]))
    return out


def stage_attr_trace(ctx, J):
    n = 480 if ctx.quick else 6000
    seeds = [ctx.seed * 1000003 + 7919 * i + 11 for i in range(n)]
    import multiprocessing as mp
    chunks = [seeds[i::NPROC] for i in range(NPROC)]
    with mp.get_context("fork").Pool(NPROC) as pool:
        res = pool.map(_record_sessions, chunks, chunksize=1)
    traces = [t for ch in res for t in ch]
    verdicts = validate_attr_traces(ctx, traces)
    nbad = 0
    nev = 0
    for i, t in enumerate(traces):
        bad, want = verdicts[i]
        nev += len(t["ev"])
        ctx.case(("attr_trace", t["coin"], tuple(sorted(set(d["kind"] for d in t["shape"]))), len(t["ev"])), len(t["ev"]))
        if bad == 0:
            ctx.traces += 1
            continue
        nbad += 1
        e = t["ev"][bad - 1]
        got = e["att"]
        state = "as-signed" if e["t"] == "sign" else ("retag" if e["t"] == "retag" else "edit:" + e["m"])
        for pos in range(len(got)):
            w = sorted([list(x) for x in want[pos]]) if pos < len(want) else None
            if w == got[pos]:
                continue
            feat, exc = t["_exc"][bad - 1][pos]
            cc = "forkid" if t["coin"] in FORKID else "plain"
            cls = feat if feat else "coin=%s|%s" % (cc, state)
            if exc:
                key = "X02|trace|who_signed|exception=%s|%s" % (exc.split(":")[0], cls)
            else:
                gk, wk = set(map(tuple, got[pos])), set(map(tuple, w or []))
                rel = "missing" if gk < wk else "invented" if gk > wk else "other"
                key = "X02|trace|who_signed|pairs|%s|%s" % (rel, cls)
            J.fail(key, "recorded session (seed %s, %s): after event %d %s who_signed reports %s for input %d; the specification demands %s" % (
                t["_seed"], t["coin"], bad, _short(e), got[pos], pos, w),
                {"trace": {k: v for k, v in t.items() if k != "_exc"}, "event": bad, "pos": pos, "want": w, "exception": exc})
            break
    ctx.log("validated %d recorded signing/editing sessions (%d events): %d with a report the specification rejects" % (len(traces), nev, nbad))
    ctx.sample({"session": {k: v for k, v in traces[0].items() if not k.startswith("_")}})
    # binding self-test on canned observations
    good = {"coin": "BTC", "shape": [{"kind": "p2pkh", "m": 1, "keys": [1], "form": "c"}, {"kind": "ms_bare", "m": 1, "keys": [2, 3], "form": "c"}],
            "nout": 2, "ev": [{"t": "sign", "K": [1, 3], "I": [1, 2], "ht": 2, "ic": "none", "signed": [[[1, 2]], [[3, 2]]], "att": [[[1, 2]], [[3, 2]]]},
                              {"t": "mut", "m": "out_amt", "a": 1, "b": 3, "att": [[[1, 2]], [[3, 2]]]},
                              {"t": "mut", "m": "seq", "a": 2, "b": 1, "att": [[[1, 2]], []]}]}
    b1 = json.loads(json.dumps(good))
    b1["ev"][2]["att"] = [[[1, 2]], [[3, 2]]]          # claims a signer whose signature no longer verifies
    b2 = json.loads(json.dumps(good))
    b2["ev"][0]["att"] = [[[1, 2]], []]                # forgets a signer
    v = validate_attr_traces(ctx, [good, b1, b2])
    ctx.selftest("attr_trace_rejects_corrupted_report", v[0][0] == 0 and v[1][0] == 3 and v[2][0] == 1)


STAGES = [("attr_model", stage_attr_model), ("attr_replay", stage_attr_replay), ("attr_trace", stage_attr_trace)]


def run(ctx):
    J = Judge(ctx)
    only = getattr(ctx, "only", None)
    ctx.rule = ("(a) every bounded signing history followed by every bounded editing history that TLC prints is performed on a real "
                "transaction; distinct_nontrivial counts distinct (coin, puzzle kinds + key forms, outputs, last event, attribution "
                "changed or not) classes; (b) distinct (stage, script shape / opcode, outcome) classes of listings compared")
    ctx.assumptions += ["ECDSA signatures verify only under the key that made them and only for the digest they were made for",
                        "pycoin's signing (C05), signature hash (C04) and interpreter verdicts (C03) are used to BUILD the cases; "
                        "what who_signed / annotate must report comes from TLC"]
    for name, f in STAGES:
        if only and name not in only:
            continue
        if name in ("attr_model",):
            f(ctx)
        else:
            f(ctx, J)
    ctx.exhaustive = False
