"""C10 - key and signature encodings (WIF, SEC, DER) are lossless and strict.

1. TLC model-checks spec/KeyEnc.tla and spec/DerSig.tla through spec/MC_KeyEnc.tla: one
   work item per state, the rule book evaluated on every case of the item, the lemmas
   (unique encoding, Decode(Encode) = id, Encode(Decode) = id, byte rule = field rule,
   trailing bytes are trailing whatever follows ...) checked on each (invariant NoBad).
2. spec -> code: the same runs print the expected outcome of every case; this module
   executes the cases on pycoin and compares:
     sec      every byte string of the family of a small curve through sec_to_public_pair
              (strict and not) and Key.from_sec - accepted iff TLC lists it, same point
     toykey   Key(secret_exponent) / Key(public_pair) on the small curves, k*G from TLC
     sec256   the same classes concretized on secp256k1 (prefix x length x x-class x y-class)
     wif      payload shapes x boundary exponents through network.parse.wif on every network,
              round trips key -> wif -> key with hash160/address/sec preserved
     der      every blob of the enumerated families through sigdecode_der in both modes;
     dersig   boundary (r, s) through sigencode_der / sigdecode_der, with trailing bytes
3. code -> spec: seeded random key sessions, blobs and signatures are run through pycoin,
   logged, and validated by TLC against spec/Trace_KeyEnc.tla.
"""
from __future__ import annotations

import copy
import itertools
import json
import os
import random
import tempfile
from concurrent.futures import ThreadPoolExecutor

from .. import ctx as ctxmod
from .. import tlc as tlcmod
from ..ctx import MachineryError
from ..drv import keyenc as K
from ..par import NPROC, pmap, split

CURVES = {"p43": (43, 0, 7, 2, 12, 31), "p83": (83, 1, 7, 0, 16, 79),
          "p103": (103, 0, 5, 2, 42, 97), "p283": (283, 0, 3, 1, 2, 277)}
DER_REFUSALS = ("UnexpectedDER", "ValueError")
MAXREP = 4          # mismatches reported per key and worker


# ------------------------------------------------------------------------------------------ TLC batches
def tlc_batch(ctx, jobs, conc=3, workers=6):
    """run several TLC jobs concurrently and yield (job, TLCResult) in job order as they finish; each
    result is accounted through ctx.tlc (bookkeeping unchanged).  jobs: dicts with cfg and optionally
    module, env, expect_ok, count, workers, timeout."""
    def one(job):
        return tlcmod.run(job.get("module", "MC_KeyEnc"), job["cfg"], workers=job.get("workers", workers),
                          timeout=job.get("timeout", 2400), env=job.get("env"))
    with ThreadPoolExecutor(conc) as ex:
        futs = [ex.submit(one, j) for j in jobs]
        for job, f in zip(jobs, futs):
            r = f.result()
            orig = ctxmod._tlc.run
            ctxmod._tlc.run = lambda *a, _r=r, **k: _r
            try:
                ctx.tlc(job.get("module", "MC_KeyEnc"), job["cfg"], expect_ok=job.get("expect_ok", True), count=job.get("count", True))
            finally:
                ctxmod._tlc.run = orig
            yield job, r


def _hdr(r, kind):
    h = [x for x in r.records if isinstance(x, dict) and x.get("k") == kind]
    if len(h) != 1:
        raise MachineryError("expected one %s record, got %d" % (kind, len(h)))
    return h[0]


# ------------------------------------------------------------------------------------------ SEC on small curves
_G = {}     # data shared with forked workers


def _sec_items(hdr):
    cl = hdr["cl"]
    items = [("short", ())] + [("short", (a,)) for a in range(256)]
    if cl == 2:
        items += [("short", (a, h)) for a in hdr["pfx"] for h in range(256)]
    items += [("px", a, x) for a in hdr["pfx"] for x in hdr["xs"]]
    return items


def _blobs_of(item, hdr):
    cl = hdr["cl"]
    if item[0] == "short":
        return [bytes(item[1])]
    b0 = bytes([item[1]]) + item[2].to_bytes(cl, "big")
    out = [b0] + [b0 + y.to_bytes(cl, "big") for y in hdr["ys"]]
    out += [b0 + y.to_bytes(cl, "big") + b"\0" for y in hdr["longys"]]
    if cl == 2:
        out += [b0 + bytes([y % 256]) for y in hdr["longys"]]
    return out


def _sec_class(f):
    pf = f["pfx"]
    pc = "none" if pf < 0 else "02/03" if pf in (2, 3) else "04" if pf == 4 else "06/07" if pf in (6, 7) else "other"
    if f["shape"] == "bad":
        return "len=bad|pfx=%s" % pc
    if f["shape"] == "c":
        return "len=c|pfx=%s|x<p=%s|haspt=%s" % (pc, f["xlt"], f["haspt"])
    par = "na" if pf not in (6, 7) else str(f["ypar"] == pf - 6)
    return "len=u|pfx=%s|x<p=%s|y<p=%s|oncurve=%s|parity_ok=%s" % (pc, f["xlt"], f["ylt"], f["onc"], par)


def judge_sec(blob, exp, gen, keycls, params, scale, extra_key_checks=None):
    """compare pycoin's three SEC entry points on one blob with TLC's verdict.
    exp: None (refused in both modes) or (strict_ok, (x, y), compressed).
    Returns (list of (key, what), deferred_count)."""
    p, a, b, cl = params
    out = []
    deferred = 0
    f = None

    def cls():
        nonlocal f
        if f is None:
            f = K.sec_fields(blob, p, a, b, cl)
        return _sec_class(f)

    for strict in (True, False):
        want = exp is not None and (exp[0] or not strict)
        got = K.sec_decode(blob, gen, strict)
        site = "C10|sec_to_public_pair|%s|strict=%s|" % (scale, strict)
        if got[0] == "ok":
            if want:
                if got[1] != tuple(exp[1]):
                    out.append(("C10|sec_to_public_pair|%s|strict=%s|%s|expected=accept|got=wrong-point" % (scale, strict, cls()),
                                "blob %s decodes to %s, the spec says %s" % (blob.hex(), got[1], tuple(exp[1]))))
            else:
                cls()
                admissible = f["shape"] == "u" and f["xlt"] and f["ylt"] and not f["onc"] and (
                    f["pfx"] == 4 or (not strict and f["pfx"] in (6, 7) and f["ypar"] == f["pfx"] - 6))
                x = int.from_bytes(blob[1:1 + cl], "big")
                y = int.from_bytes(blob[1 + cl:1 + 2 * cl], "big")
                if admissible and got[1] == (x, y):
                    # on-curve validation of the uncompressed form is anchored at key construction:
                    # the pair may be handed out as long as every consumer refuses it
                    ok, how = K.deferred_validation_refuses(gen, keycls, got[1])
                    deferred += 1
                    if not ok:
                        out.append(("C10|sec_to_public_pair|%s|strict=%s|%s|off-curve pair not refused downstream" % (scale, strict, cls()),
                                    "blob %s -> %s; Key/verify: %s" % (blob.hex(), got[1], how)))
                else:
                    out.append((site + cls() + "|expected=refuse|got=accept",
                                "blob %s is accepted as %s; the spec refuses it" % (blob.hex(), got[1])))
        else:
            if got[0] not in K.REFUSALS:
                out.append(("C10|sec_to_public_pair|%s|strict=%s|%s|got=%s" % (scale, strict, cls(), got[0]),
                            "blob %s raises %s %s" % (blob.hex(), got[0], got[1])))
            elif want:
                out.append((site + cls() + "|expected=accept|got=%s" % got[0],
                            "blob %s is refused (%s); the spec decodes it to %s" % (blob.hex(), got[1], tuple(exp[1]))))
    want = exp is not None and exp[0]
    got = K.key_from_sec(keycls, blob)
    if got[0] == "ok":
        if not want:
            out.append(("C10|Key.from_sec|%s|%s|expected=refuse|got=accept" % (scale, cls()),
                        "blob %s gives key %s; the spec refuses it" % (blob.hex(), got[1])))
        elif got[1] != tuple(exp[1]) or got[2] != exp[2]:
            out.append(("C10|Key.from_sec|%s|%s|expected=accept|got=wrong-key" % (scale, cls()),
                        "blob %s gives (%s, compressed=%s); the spec says (%s, compressed=%s)" % (
                            blob.hex(), got[1], got[2], tuple(exp[1]), exp[2])))
        elif extra_key_checks is not None:
            out += extra_key_checks(blob, got[3])
    else:
        if got[0] not in K.REFUSALS:
            out.append(("C10|Key.from_sec|%s|%s|got=%s" % (scale, cls(), got[0]), "blob %s raises %s %s" % (blob.hex(), got[0], got[1])))
        elif want:
            out.append(("C10|Key.from_sec|%s|%s|expected=accept|got=%s" % (scale, cls(), got[0]),
                        "blob %s is refused (%s); the spec decodes it to %s" % (blob.hex(), got[1], tuple(exp[1]))))
    return out, deferred


def _merge(dst, items):
    for key, what in items:
        lst = dst.setdefault(key, [])
        if len(lst) < MAXREP:
            lst.append(what)


def _sec_worker(args):
    cname, items = args
    hdr = _G["sechdr"][cname]
    acc = _G["secacc"][cname]
    p, a, b, gx, gy, n = CURVES[cname]
    gen, keycls = K.toy(p, a, b, gx, gy, n)
    params = (p, a, b, hdr["cl"])
    mism = {}
    nblobs = nacc = ndef = 0
    for it in items:
        for blob in _blobs_of(it, hdr):
            nblobs += 1
            exp = acc.get(blob)
            if exp is not None:
                nacc += 1
            bad, d = judge_sec(blob, exp, gen, keycls, params, "toy")
            ndef += d
            if bad:
                _merge(mism, bad)
    return nblobs, nacc, ndef, mism


def replay_sec_toy(ctx, cname, r):
    hdr = _hdr(r, "sechdr")
    if (hdr["p"], hdr["a"], hdr["b"], hdr["gx"], hdr["gy"], hdr["n"]) != CURVES[cname]:
        raise MachineryError("curve of the TLC run is not %s" % cname)
    acc = {}
    total = 0
    for rec in r.records:
        if rec.get("k") != "sec":
            continue
        total += rec["n"]
        for e in rec["acc"]:
            acc[bytes(e["b"])] = (e["strict"], tuple(e["pt"]), e["comp"])
    # spec sanity (R2): the accepted set is exactly 2 (3 when not strict) encodings per affine point
    forms = {}
    for blob, (st, pt, comp) in acc.items():
        forms.setdefault(pt, []).append((len(blob), blob[0], st))
    npts = hdr["npoints"]
    full = set(hdr["pfx"]) >= {2, 3, 4, 6, 7} and len(hdr["xs"]) == 256 ** hdr["cl"] and len(hdr["ys"]) == 256 ** hdr["cl"]
    if full and (len(forms) != npts or any(len(v) != 3 for v in forms.values())):
        raise MachineryError("TLC's accepted SEC set is not 3 encodings for each of the %d points" % npts)
    _G.setdefault("sechdr", {})[cname] = hdr
    _G.setdefault("secacc", {})[cname] = acc
    items = _sec_items(hdr)
    chunks = split(items, NPROC * 6)
    res = pmap(_sec_worker, [(cname, c) for c in chunks], chunk=1)
    nblobs = sum(x[0] for x in res)
    nacc = sum(x[1] for x in res)
    ndef = sum(x[2] for x in res)
    if nblobs != total:
        raise MachineryError("family mismatch on %s: TLC judged %d blobs, the harness enumerated %d" % (cname, total, nblobs))
    if nacc != len(acc):
        raise MachineryError("accepted blobs outside the enumerated family on %s: %d vs %d" % (cname, nacc, len(acc)))
    ctx.replayed += nblobs
    ctx.case(None, nblobs)
    ctx.action("replay.sec.%s" % cname, nblobs)
    ctx.extra["sec_offcurve_pairs_deferred_to_key"] = ctx.extra.get("sec_offcurve_pairs_deferred_to_key", 0) + ndef
    for blob, e in acc.items():
        ctx.case(("sec", cname, blob))
    for x in res:
        for key, whats in x[3].items():
            ctx.fail(key, "%s: %s" % (cname, whats[0]), {"curve": cname, "examples": whats})
    for blob, e in list(acc.items())[:2]:
        ctx.sample({"replay": "sec", "curve": cname, "blob": blob.hex(), "tlc_accepts_strict": e[0], "point": e[1], "compressed": e[2]})
    ctx.log("sec %s: %d blobs judged by TLC and executed on pycoin (x strict/lax/from_sec), %d accepted, %d off-curve pairs deferred to Key" % (
        cname, nblobs, len(acc), ndef))
    return acc


# ------------------------------------------------------------------------------------------ toy keys
def replay_toykey(ctx, cname, r):
    p, a, b, gx, gy, n = CURVES[cname]
    gen, keycls = K.toy(p, a, b, gx, gy, n)
    cnt = 0
    for rec in r.records:
        k = rec.get("k")
        if k == "toyse":
            v = rec["v"]
            for comp in (True, False):
                got = K.key_from_se(keycls, v, is_compressed=comp)
                cnt += 1
                cl = "below" if v < 1 else "above" if v >= n else "in"
                if rec["ok"]:
                    if got[0] != "ok":
                        ctx.fail("C10|Key(secret_exponent)|toy|range=%s|expected=accept|got=%s" % (cl, got[0]),
                                 "%s: exponent %d refused" % (cname, v), rec)
                    elif got[1] != tuple(rec["pub"]):
                        ctx.fail("C10|Key(secret_exponent)|toy|range=in|got=wrong-public-pair",
                                 "%s: %d*G = %s, the spec says %s" % (cname, v, got[1], rec["pub"]), rec)
                    ctx.case(("toyse", cname, v))
                elif got[0] != "InvalidSecretExponentError":
                    ctx.fail("C10|Key(secret_exponent)|toy|range=%s|expected=InvalidSecretExponentError|got=%s" % (cl, got[0]),
                             "%s: exponent %d outside [1, n-1] gives %s" % (cname, v, got[:2]), rec)
        elif k == "toypair":
            x = rec["x"]
            ys, lift = set(rec["ys"]), set(rec["lift"])
            for y in range(rec["n"]):
                got = K.key_from_pair(keycls, (x, y))
                cnt += 1
                if y in ys:
                    if got[0] != "ok":
                        ctx.fail("C10|Key(public_pair)|toy|oncurve|expected=accept|got=%s" % got[0], "%s: point (%d,%d) refused" % (cname, x, y), rec)
                    ctx.case(("toypair", cname, x, y))
                elif y in lift:
                    ctx.extra["lifted_pairs_accepted_by_Key"] = ctx.extra.get("lifted_pairs_accepted_by_Key", 0) + (got[0] == "ok")
                    if got[0] == "ok":
                        _judge_lifted(ctx, "toy", keycls, got[1], dict((t[0], t[1]) for t in rec["liftread"])[y], CURVES[cname][0],
                                      "toypair", "%s: pair (%d,%d)" % (cname, x, y))
                    elif got[0] != "InvalidPublicPairError":
                        ctx.fail("C10|Key(public_pair)|toy|lifted|expected=InvalidPublicPairError-or-accept|got=%s" % got[0],
                                 "%s: pair (%d,%d) gives %s" % (cname, x, y, got[0]), rec)
                elif got[0] != "InvalidPublicPairError":
                    ctx.fail("C10|Key(public_pair)|toy|offcurve|expected=InvalidPublicPairError|got=%s" % got[0],
                             "%s: off-curve pair (%d,%d) gives %s" % (cname, x, y, got[0]), rec)
        elif k == "toypt":
            pt = tuple(rec["pt"])
            for form, strict, want in (("c", True, True), ("c", False, True), ("u", True, True), ("u", False, True),
                                       ("h", False, True), ("h", True, False)):
                got = K.sec_decode(bytes(rec[form]), gen, strict)
                cnt += 1
                if (got[0] == "ok") != want or (want and got[1] != pt):
                    ctx.fail("C10|sec_to_public_pair|toy|strict=%s|encoding-of-point|form=%s|expected=%s|got=%s" % (
                        strict, form, "accept" if want else "refuse", got[0]),
                        "%s: SecEncode(%s, %s) = %s -> %s" % (cname, pt, form, bytes(rec[form]).hex(), got), rec)
    ctx.replayed += cnt
    ctx.case(None, cnt)
    ctx.action("replay.toykey.%s" % cname, cnt)


# ------------------------------------------------------------------------------------------ public points in every representation
def _rep(kind, x, y, gen, fgen):
    if kind == "tuple":
        return (x, y)
    if kind == "list":
        return [x, y]
    return (gen if kind == "ownpoint" else fgen).Point(x, y)


def _judge_pub(ctx, scale, site, f, want, label, what):
    """f() builds the key; want: True accept / False refuse with InvalidPublicPairError / None no demand.
    Returns the key if accepted."""
    try:
        k = f()
        got = "ok"
    except Exception as e:  # noqa: BLE001
        k, got = None, K._exc(e)
    if want is True and got != "ok":
        ctx.fail("C10|%s|%s|%s|expected=accept|got=%s" % (site, scale, label, got), what, None)
    if want is False and got != "InvalidPublicPairError":
        ctx.fail("C10|%s|%s|%s|expected=InvalidPublicPairError|got=%s" % (site, scale, label, "accept" if got == "ok" else got), what, None)
    return k


def _judge_lifted(ctx, scale, keycls, key, read, p, label, what):
    """KeyEnc!LiftOutcomeOk: a pair that is no pair of field elements was ACCEPTED; then every SEC form of the key that
    came back decodes to the point the pair is congruent to (`read`, from the spec)."""
    for comp in (True, False):
        try:
            blob = key.sec(is_compressed=comp)
        except Exception as e:  # noqa: BLE001
            ctx.fail("C10|Key(public_pair)|%s|lifted|accepted|sec=%s" % (scale, K._exc(e)),
                     "%s: accepted, but key.sec(is_compressed=%s) raises %r" % (what, comp, e), None)
            continue
        kk = K.key_from_sec(keycls, blob)
        if kk[0] != "ok" or (kk[1][0] % p, kk[1][1] % p) != tuple(read):
            ctx.fail("C10|Key(public_pair)|%s|lifted|accepted|sec-roundtrip=%s" % (scale, "other-point" if kk[0] == "ok" else kk[0]),
                     "%s: accepted, but its %s SEC form %s decodes to %s, not to the congruent point %r"
                     % (what, "compressed" if comp else "uncompressed", bytes(blob).hex(), kk[1] if kk[0] == "ok" else kk[0], tuple(read)), None)


def replay_pubrep(ctx, cname, r):
    hdr = _hdr(r, "rephdr")
    if (hdr["p"], hdr["a"], hdr["b"], hdr["gx"], hdr["gy"], hdr["n"]) != CURVES[cname]:
        raise MachineryError("curve of the TLC run is not %s" % cname)
    p, a, b, gx, gy, n = CURVES[cname]
    gen, keycls = K.toy(p, a, b, gx, gy, n)
    fo = hdr["foreign"]
    fgen, fkeycls = K.toy(fo["p"], fo["a"], fo["b"], fo["gx"], fo["gy"], fo["n"])
    cnt = 0
    for rec in r.records:
        k = rec.get("k")
        if k == "repcol":
            kind, x = rec["kind"], rec["x"]
            acc, lift = set(rec["acc"]), set(rec["lift"])
            liftread = {t[0]: t[1] for t in rec["liftread"]}
            if set(liftread) != lift:
                raise MachineryError("spec: liftread does not cover lift")
            for y in rec["cand"]:
                try:
                    obj = _rep(kind, x, y, gen, fgen)
                except Exception as e:  # noqa: BLE001
                    raise MachineryError("%s: cannot build a %s of (%d,%d) although the spec says it exists: %r" % (cname, kind, x, y, e))
                want = True if y in acc else None if y in lift else False
                if kind == "foreignpoint" and y in acc:
                    want = None                      # the foreign point happens to be a point of this curve too
                cls = "oncurve" if y in acc else "lifted" if y in lift else "offcurve"
                for comp in (True, False):
                    key = _judge_pub(ctx, "toy", "Key(public_pair)", lambda: keycls(public_pair=obj, is_compressed=comp), want,
                                     "kind=%s|%s" % (kind, cls), "%s: %s %r" % (cname, kind, (x, y)))
                    cnt += 1
                    if key is not None and want and tuple(key.public_pair()) != (x, y):
                        ctx.fail("C10|Key(public_pair)|toy|kind=%s|got=wrong-point" % kind, "%s: %r -> %r" % (cname, (x, y), key.public_pair()), None)
                    if key is not None and y in lift:
                        _judge_lifted(ctx, "toy", keycls, key, tuple(liftread[y]), p, "kind=%s" % kind, "%s: %s %r" % (cname, kind, (x, y)))
                        cnt += 2
                if want:
                    ctx.case(("pubrep", cname, kind, x, y), 0)
        elif k in ("repinf", "repkg", "repqmq"):
            objs = []
            if k == "repinf":
                how = rec["how"]
                objs = {"none-tuple": [(None, None)], "none-list": [[None, None]], "own-infinity": [gen.infinity()],
                        "foreign-infinity": [fgen.infinity()], "none-x": [(None, gy), [None, gy]], "none-y": [(gx, None), [gx, None]]}[how]
                label = "infinity:" + how if not how.startswith("none-x") and not how.startswith("none-y") else "half-none"
            elif k == "repkg":
                if not rec["isinf"] or rec["ok"]:
                    raise MachineryError("spec: %d*G is not refused infinity" % rec["kk"])
                objs = [rec["kk"] * gen, gen * rec["kk"], (rec["kk"] // n * fo["n"]) * fgen]
                label = "infinity:k*G"
                if any(tuple(o) != (None, None) for o in objs):
                    raise MachineryError("%s: %d*G is not the point at infinity in pycoin (C02's domain)" % (cname, rec["kk"]))
            else:
                label = "infinity:Q+(-Q)"
                for q in rec["pts"]:
                    Q = gen.Point(*q)
                    o = Q + (-Q)
                    if tuple(o) != (None, None):
                        raise MachineryError("%s: Q+(-Q) is not infinity in pycoin (C02's domain)" % cname)
                    objs.append(o)
                F = fgen.Point(fo["gx"], fo["gy"])
                objs.append(F + (-F))
            for o in objs:
                for comp in (True, False):
                    _judge_pub(ctx, "toy", "Key(public_pair)", lambda: keycls(public_pair=o, is_compressed=comp), False,
                               label, "%s: %s %r (%s)" % (cname, label, tuple(o), type(o).__name__))
                    cnt += 1
            ctx.case(("pubrep", cname, label), 0)
    ctx.replayed += cnt
    ctx.case(None, cnt)
    ctx.action("replay.pubrep.%s" % cname, cnt)
    ctx.log("pubrep %s: %d public points x representation kinds offered to Key (foreign curve p=%d)" % (cname, cnt, fo["p"]))
    return hdr["table"]


def replay_pubrep_256(ctx, table):
    """the class table of the spec concretized on secp256k1: foreign = secp256r1 and the p=43 curve"""
    from pycoin.ecdsa.secp256r1 import secp256r1_generator as r1
    net, keycls = _btc()
    g = K.secp256k1_generator
    t43, _ = K.toy(*CURVES["p43"])
    t = K.sec256_table()
    own = [(x, K.ref_roots(x)[i]) for x in t["pt"][:3] for i in (0, 1)] + [K.ref_mul(7), K.ref_mul(K.N - 1)]
    r1pts = [tuple(int(c) for c in (k * r1)) for k in (1, 2, 3)]
    toypts = [(2, 12), (7, 7)]
    if any(K.on_curve(*q) for q in r1pts + toypts) or not all(K.on_curve(*q) for q in own):
        raise MachineryError("pubrep256 concretization inconsistent")
    offboth = [(x, (K.ref_roots(x)[0] + 1) % K.P) for x in t["pt"][:2]] + [(x, 1) for x in t["nopt"][:2]] + [(0, 0)]
    cnt = 0
    seen = set()
    for row in table:
        kind, cls, ok = row["kind"], row["cls"], row["ok"]
        objs = []
        if cls == "own-affine":
            objs = [(q, q) for q in own]
        elif cls == "foreign-only":
            objs = [(q, q) for q in r1pts + toypts]
        elif cls == "off-both":
            objs = [(q, q) for q in offboth]
        elif cls == "lifted":
            objs = [((qx + dx * K.P, qy + dy * K.P), (qx, qy)) for (qx, qy) in own[:4] + [(K.GX, K.GY)] for dx, dy in ((0, 1), (1, 0), (1, 1), (0, 2))]
        elif cls == "infinity":
            objs = [((None, None), None)]
        elif cls == "half-none":
            objs = [((None, K.GY), None), ((K.GX, None), None)]
        for val, q in objs:
            cands = []
            if kind == "tuple":
                cands = [tuple(val)]
            elif kind == "list":
                cands = [list(val)]
            elif kind == "ownpoint":
                cands = [g.Point(*val)] if cls == "own-affine" else [g.infinity(), K.N * g, g.Point(K.GX, K.GY) + (-g.Point(K.GX, K.GY)), 0 * g]
            else:
                if cls == "infinity":
                    cands = [r1.infinity(), r1.order() * r1, t43.infinity(), 31 * t43]
                else:
                    cands = [(r1 if val in r1pts else t43).Point(*val)]
            for o in cands:
                label = "kind=%s|class=%s" % (kind, cls)
                what = "%s %r (%s)" % (label, tuple(o), type(o).__name__)
                if row.get("either"):
                    for site, f in (("Key(public_pair)", lambda: keycls(public_pair=o)), ("network.keys.public", lambda: net.keys.public(o))):
                        if kind == "list" and site != "Key(public_pair)":
                            continue
                        key = _judge_pub(ctx, "secp256k1", site, f, None, label, what)
                        cnt += 1
                        if key is not None:
                            _judge_lifted(ctx, "secp256k1", keycls, key, q, K.P, label, what)
                            cnt += 2
                    seen.add((kind, cls))
                    continue
                for comp in (True, False):
                    key = _judge_pub(ctx, "secp256k1", "Key(public_pair)", lambda: keycls(public_pair=o, is_compressed=comp), ok, label, what)
                    cnt += 1
                    if ok and key is not None and (tuple(key.public_pair()) != q or key.sec() != K.ref_sec(q, comp)
                                                   or key.hash160() != K.hash160(K.ref_sec(q, comp))):
                        ctx.fail("C10|Key(public_pair)|secp256k1|%s|got=wrong-key" % label, what, None)
                if kind != "list":      # network.keys.public takes tuples (and Points, which are tuples); a list is read as a SEC blob
                    key = _judge_pub(ctx, "secp256k1", "network.keys.public", lambda: net.keys.public(o), ok, label, what)
                    cnt += 1
                    if ok and key is not None and tuple(key.public_pair()) != q:
                        ctx.fail("C10|network.keys.public|secp256k1|%s|got=wrong-key" % label, what, None)
                    if ok:
                        # and through SEC: the encodings of an accepted point come back as the same key
                        for comp in (True, False):
                            kk = K.key_from_sec(keycls, K.ref_sec(q, comp))
                            cnt += 1
                            if kk[0] != "ok" or kk[1] != q or kk[2] != comp:
                                ctx.fail("C10|Key.from_sec|secp256k1|own-affine|expected=accept|got=%s" % kk[0], what, None)
                else:
                    try:
                        key = net.keys.public(o)
                        bad = "accept"
                    except Exception as e:  # noqa: BLE001
                        bad = None if K._exc(e) in K.REFUSALS or isinstance(e, TypeError) else K._exc(e)
                    cnt += 1
                    if bad:
                        ctx.fail("C10|network.keys.public|secp256k1|kind=list|got=%s" % bad, what, None)
                seen.add((kind, cls))
    for c in seen:
        ctx.case(("pubrep256",) + c, 0)
    ctx.replayed += cnt
    ctx.case(None, cnt)
    ctx.action("replay.pubrep256", cnt)
    ctx.log("pubrep256: %d (kind x class) rows of the spec's table, %d constructions on secp256k1 (foreign: secp256r1, p=43 curve)" % (len(table), cnt))


# ------------------------------------------------------------------------------------------ secp256k1 classes
def _btc():
    if "btc" not in _G:
        nets, _ = K.networks()
        net = [n for s, n, _ in nets if s == "BTC"][0]
        _G["btc"] = (net, type(net.keys.private(1)))
    return _G["btc"]


def len_of(f):
    return f["len"]


def _class_consistent(f, length, xc, yc):
    """machinery check: the concrete blob has the fields the class promises"""
    shape = "c" if length == 33 else "u" if length == 65 else "bad"
    if f["shape"] != shape or len_of(f) != length:
        return False
    if shape == "bad":
        return True
    if f["xlt"] != (xc in ("pt", "nopt")):
        return False
    if shape == "c":
        return f["haspt"] == (xc == "pt")
    return f["ylt"] == (yc != "root+p") and f["onc"] == (xc == "pt" and yc in ("even", "odd")) and (
        yc not in ("even", "odd") or f["ypar"] == (yc == "odd"))


def _sec256_extra(blob, key):
    net, keycls = _btc()
    out = []
    form = len(blob) == 33
    if key.sec() != blob:
        out.append(("C10|Key.sec|secp256k1|reencoding-differs", "from_sec(%s).sec() = %s" % (blob.hex(), key.sec().hex())))
    if key.sec(is_compressed=not form) != K.ref_sec(key.public_pair(), not form):
        out.append(("C10|Key.sec|secp256k1|other-form-wrong", "blob %s" % blob.hex()))
    if key.hash160() != K.hash160(blob):
        out.append(("C10|Key.hash160|secp256k1|not-hash-of-own-encoding", "blob %s" % blob.hex()))
    try:
        k2 = net.keys.public(blob)
        if k2.public_pair() != key.public_pair() or k2.is_compressed() != key.is_compressed() or k2.address() != key.address():
            out.append(("C10|network.keys.public|secp256k1|differs-from-from_sec", "blob %s" % blob.hex()))
    except Exception as e:  # noqa: BLE001
        out.append(("C10|network.keys.public|secp256k1|got=exc:%s" % type(e).__name__, "blob %s" % blob.hex()))
    return out


def _sec256_worker(recs):
    net, keycls = _btc()
    gen = K.secp256k1_generator
    mism = {}
    n = ndef = 0
    classes = set()
    for rec in recs:
        length, pfx = rec["len"], rec["pfx"]
        for v in rec["v"]:
            for blob, x, y in K.sec256_blobs(length, pfx, v["xc"], v["yc"]):
                f = K.sec_fields(blob)
                if not _class_consistent(f, length, v["xc"], v["yc"]):
                    return ("machinery", "class (%d,%d,%s,%s) concretized inconsistently: %s" % (length, pfx, v["xc"], v["yc"], f))
                exp = None
                if v["l"]:
                    pt = (x, K.ref_roots(x)[pfx - 2]) if v["comp"] else (x, y)
                    exp = (v["s"], pt, v["comp"])
                    classes.add((length, pfx, v["xc"], v["yc"]))
                bad, d = judge_sec(blob, exp, gen, keycls, (K.P, 0, 7, 32), "secp256k1", _sec256_extra)
                n += 1
                ndef += d
                if bad:
                    _merge(mism, bad)
    return n, ndef, mism, classes


def replay_sec256(ctx, r):
    recs = [x for x in r.records if x.get("k") == "sec256"]
    if len(recs) % 256 or not recs:
        raise MachineryError("sec256: %d records" % len(recs))
    _btc()
    K.sec256_table()
    res = pmap(_sec256_worker, split(recs, NPROC * 4), chunk=1)
    n = 0
    for x in res:
        if x[0] == "machinery":
            raise MachineryError(x[1])
        n += x[0]
        ctx.extra["sec_offcurve_pairs_deferred_to_key"] = ctx.extra.get("sec_offcurve_pairs_deferred_to_key", 0) + x[1]
        for key, whats in x[2].items():
            ctx.fail(key, whats[0], {"examples": whats})
        for c in x[3]:
            ctx.case(("sec256",) + c, 0)
    ctx.replayed += n
    ctx.case(None, n)
    ctx.action("replay.sec256", n)
    ctx.log("sec256: %d concrete secp256k1 blobs (256 prefixes x %d lengths x 16 classes x picks) executed" % (n, len(recs) // 256))
    # public pairs handed to Key directly: on-curve accepted, off-curve -> InvalidPublicPairError
    net, keycls = _btc()
    t = K.sec256_table()
    m = 0
    for x in t["pt"] + [t["smally"][0]]:
        ev, od = K.ref_roots(x)
        for pair, want in (((x, ev), True), ((x, od), True), ((x, (ev + 1) % K.P), False), ((x, 0), False), ((0, 0), False)):
            for comp in (True, False):
                got = K.key_from_pair(keycls, pair, is_compressed=comp)
                m += 1
                if want and got[0] != "ok":
                    ctx.fail("C10|Key(public_pair)|secp256k1|oncurve|expected=accept|got=%s" % got[0], "pair %s" % (pair,), None)
                if want and got[0] == "ok":
                    k = got[1]
                    if k.sec() != K.ref_sec(pair, comp) or k.hash160() != K.hash160(K.ref_sec(pair, comp)):
                        ctx.fail("C10|Key(public_pair)|secp256k1|sec-or-hash160-wrong", "pair %s compressed=%s" % (pair, comp), None)
                if not want and got[0] != "InvalidPublicPairError":
                    ctx.fail("C10|Key(public_pair)|secp256k1|offcurve|expected=InvalidPublicPairError|got=%s" % got[0], "pair %s" % (pair,), None)
    for x in t["nopt"]:
        for y in (1, 2, K.P - 1):
            got = K.key_from_pair(keycls, (x, y))
            m += 1
            if got[0] != "InvalidPublicPairError":
                ctx.fail("C10|Key(public_pair)|secp256k1|offcurve|expected=InvalidPublicPairError|got=%s" % got[0], "pair %s" % ((x, y),), None)
    ctx.case(None, m)
    ctx.replayed += m


# ------------------------------------------------------------------------------------------ WIF on every network
def _wif_worker(args):
    sym, recs = args
    nets, _ = K.networks()
    net, pfx = [(n, p) for s, n, p in nets if s == sym][0]
    badpfx = pfx[:-1] + bytes([pfx[-1] ^ 1])
    pubs = _G["pubs"]
    mism = {}
    n = 0
    seen = set()
    for rec in recs:
        se = int.from_bytes(bytes(rec["se"]), "big")
        # --- construction: range check with the documented error
        for comp in (True, False):
            n += 1
            try:
                k = net.keys.private(se, is_compressed=comp)
                got = ("ok", k)
            except Exception as e:  # noqa: BLE001
                got = (K._exc(e), str(e))
            rng = "in" if rec["ok"] else ("zero" if se == 0 else "above")
            if rec["ok"] and got[0] != "ok":
                _merge(mism, [("C10|keys.private|range=in|expected=accept|got=%s" % got[0], "%s: exponent %x refused" % (sym, se))])
            if not rec["ok"] and got[0] != "InvalidSecretExponentError":
                _merge(mism, [("C10|keys.private|range=%s|expected=InvalidSecretExponentError|got=%s" % (rng, got[0]),
                               "%s: exponent %x outside [1, n-1] gives %s" % (sym, se, got[0]))])
            if rec["ok"] and got[0] == "ok":
                k = got[1]
                pub = pubs[se]
                sec = K.ref_sec(pub, comp)
                text = K.b58check(pfx + bytes(rec["se"]) + (b"\1" if comp else b""))     # = WifPayload of the spec
                obs = (k.wif(), k.sec(), k.hash160(), k.is_compressed(), k.secret_exponent(), tuple(k.public_pair()))
                if obs != (text, sec, K.hash160(sec), comp, se, pub):
                    _merge(mism, [("C10|Key|wif-sec-hash160-of-fresh-key|compressed=%s" % comp,
                                   "%s: key %x: wif/sec/hash160/flag differ from the spec's terms" % (sym, se))])
                # the public key through SEC on this network: same point, form, hash160, address
                pk = K.key_from_sec(type(k), sec)
                n += 1
                if pk[0] != "ok" or pk[1] != pub or pk[2] != comp or pk[3].address() != k.address() or pk[3].hash160() != k.hash160() \
                        or pk[3].sec() != sec or pk[3].secret_exponent() is not None:
                    _merge(mism, [("C10|keys.public|round-trip-through-sec|compressed=%s" % comp, "%s: key %x sec %s -> %s" % (sym, se, sec.hex(), pk[:3]))])
                try:
                    pk2 = net.keys.public(sec)
                    okp = tuple(pk2.public_pair()) == pub and pk2.is_compressed() == comp and pk2.address() == k.address()
                except Exception as e:  # noqa: BLE001
                    okp = False
                if not okp:
                    _merge(mism, [("C10|network.keys.public|round-trip-through-sec|compressed=%s" % comp, "%s: key %x sec %s" % (sym, se, sec.hex()))])
                other = K.b58check(pfx + bytes(rec["se"]) + (b"" if comp else b"\1"))
                if k.wif(is_compressed=not comp) != other or k.sec(is_compressed=not comp) != K.ref_sec(pub, not comp):
                    _merge(mism, [("C10|Key|other-form-of-fresh-key|compressed=%s" % comp, "%s: key %x" % (sym, se))])
        # --- parsing every payload shape
        for v in rec["v"]:
            payload = (pfx if v["pfx"] == "ok" else badpfx) + bytes(v["body"])
            text = K.b58check(payload)
            got = K.wif_parse(net, text)
            n += 1
            r = v["r"]
            sig = "shape=%s|pfx=%s" % (v["sh"], v["pfx"])
            if r["ok"]:
                wse = int.from_bytes(bytes(r["se"]), "big")
                seen.add((v["sh"], v["pfx"], True))
                if got[0] != "ok":
                    _merge(mism, [("C10|parse.wif|%s|expected=accept|got=%s" % (sig, got[0]), "%s: %s (payload %s) refused" % (sym, text, payload.hex()))])
                    continue
                k = got[3]
                if (got[1], got[2]) != (wse, r["compressed"]):
                    _merge(mism, [("C10|parse.wif|%s|expected=accept|got=wrong-key" % sig,
                                   "%s: %s parses to (%x, compressed=%s); the spec says (%x, %s)" % (sym, text, got[1], got[2], wse, r["compressed"]))])
                    continue
                # lossless: text, flag, hash160, address, sec are those of the key the payload spells
                ref = net.keys.private(wse, is_compressed=r["compressed"])
                sec = K.ref_sec(pubs[wse], r["compressed"])
                if k.wif() != text:
                    _merge(mism, [("C10|parse.wif|%s|reencoding-differs" % sig, "%s: parse.wif(%s).wif() = %s" % (sym, text, k.wif()))])
                if (k.sec(), k.hash160(), k.address()) != (sec, K.hash160(sec), ref.address()) or k.address() != net.address.for_p2pkh(K.hash160(sec)):
                    _merge(mism, [("C10|parse.wif|%s|sec-hash160-address-not-preserved" % sig, "%s: %s" % (sym, text))])
                for c2 in (True, False):
                    if k.address(is_compressed=c2) != ref.address(is_compressed=c2) or k.hash160(is_compressed=c2) != K.hash160(K.ref_sec(pubs[wse], c2)):
                        _merge(mism, [("C10|parse.wif|%s|other-form-not-preserved" % sig, "%s: %s" % (sym, text))])
            else:
                seen.add((v["sh"], v["pfx"], False))
                if got[0] == "ok":
                    _merge(mism, [("C10|parse.wif|pfx=%s|expected=refuse:%s|got=accept" % (v["pfx"], r["why"]),
                                   "%s: %s (payload %s) is accepted as key %x compressed=%s; not a WIF (%s)" % (
                                       sym, text, payload.hex(), got[1], got[2], r["why"]))])
                elif got[0] != "none" and got[0] not in K.REFUSALS:
                    _merge(mism, [("C10|parse.wif|%s|got=%s" % (sig, got[0]), "%s: %s raises %s" % (sym, text, got[:2]))])
    return n, mism, seen


def replay_wif(ctx, r, quick):
    recs = [x for x in r.records if x.get("k") == "wif"]
    nets, skipped = K.networks()
    ctx.extra["networks"] = len(nets)
    ctx.extra["networks_not_loadable"] = [s for s, _ in skipped]
    # R2: the spec's payload of the exponent 1 is the published WIF of that key
    one = [x for x in recs if int.from_bytes(bytes(x["se"]), "big") == 1][0]
    pay = {v["sh"]: bytes(v["body"]) for v in one["v"] if v["pfx"] == "ok"}
    if (K.b58check(b"\x80" + pay["u"]) != "5HpHagT65TZzG1PH3CSu63k8DbpvD8s5ip4nEB3kEsreAnchuDf"
            or K.b58check(b"\x80" + pay["c"]) != "KwDiBf89QgGbjEhKnhXJuH7LrciVrZi3qYjgd9M7rFU73sVHnoWn"):
        raise MachineryError("spec WIF payload of exponent 1 is not the published WIF")
    pubs = {}
    for x in recs:
        for v in [dict(r={"ok": x["ok"], "se": x["se"]})] + x["v"]:
            if v["r"]["ok"]:
                se = int.from_bytes(bytes(v["r"]["se"]), "big")
                if se not in pubs:
                    pubs[se] = K.ref_mul(se)
    _G["pubs"] = pubs
    res = pmap(_wif_worker, [(s, recs) for s, _, _ in nets], chunk=1)
    n = sum(x[0] for x in res)
    for x in res:
        for key, whats in x[1].items():
            ctx.fail(key, whats[0], {"examples": whats})
        for c in x[2]:
            ctx.case(("wif",) + c, 0)
    ctx.replayed += n
    ctx.case(None, n)
    ctx.action("replay.wif", n)
    ctx.log("wif: %d exponents x %d payload shapes x %d networks: %d calls" % (len(recs), len(recs[0]["v"]), len(nets), n))


# ------------------------------------------------------------------------------------------ DER
def _exts(hdr, pre):
    if len(pre) < len(hdr["pos"]):
        return [()]
    out = []
    for m in range(hdr["extlen"] + 1):
        out += list(itertools.product(hdr["ext"], repeat=m))
    return out


UNREAD_KEY = "C10|sigdecode_der|openssl=False|class=unreadable|why=%s|expected=refuse|got=accept"


def judge_der(blob, cls, want, lax_info=None, why=None):
    """cls: valid / trailing / fail (DerSig!Unreadable; why = the machine's reason when it was exported with the
    blob) / other.  Returns (mismatches, info key or None); info "unreadable" = strict decoding accepted an unreadable
    blob whose reason still has to be asked from the machine (stage derask)."""
    out = []
    info = None
    for openssl in (False, True):
        got = K.der_decode(blob, openssl)
        if got[0] != "ok" and got[0] not in DER_REFUSALS:
            out.append(("C10|sigdecode_der|openssl=%s|got=%s" % (openssl, got[0]), "blob %s raises %s %s" % (blob.hex(), got[0], got[1])))
            continue
        if cls == "valid":
            if got[0] != "ok":
                out.append(("C10|sigdecode_der|openssl=%s|class=valid|expected=accept|got=%s" % (openssl, got[0]),
                            "strict DER %s refused: %s" % (blob.hex(), got[1])))
            elif (got[1], got[2]) != want:
                out.append(("C10|sigdecode_der|openssl=%s|class=valid|got=wrong-value" % openssl,
                            "strict DER %s decodes to %s, the spec says %s" % (blob.hex(), got[1:], want)))
        elif cls == "trailing":
            if not openssl and got[0] == "ok":
                out.append(("C10|sigdecode_der|openssl=False|class=trailing|expected=refuse|got=accept",
                            "strict decoding accepts %s, which has trailing bytes" % blob.hex()))
        elif cls == "fail":
            if not openssl and got[0] == "ok":
                if why is None:
                    info = "unreadable"
                else:
                    out.append((UNREAD_KEY % why, "strict decoding accepts %s as (%x, %x); it is no encoding of two integers under any "
                                "reading of X.690 (%s)" % (blob.hex(), got[1], got[2], why)))
        elif not openssl and got[0] == "ok":
            info = "strict mode accepts " + (lax_info or "unreadable blob")
    return out, info


def _der_worker(recs):
    hdr = _G["derhdr"]
    mism = {}
    info = {}
    unread = []
    n = 0
    nv = 0
    for rec in recs:
        pre = tuple(rec["pre"])
        valid = {tuple(v["e"]): (int.from_bytes(bytes(v["r"]), "big"), int.from_bytes(bytes(v["s"]), "big")) for v in rec["valid"]}
        trailing = {tuple(e) for e in rec["trailing"]}
        lax = {tuple(v["e"]): "+".join(sorted(v["dev"])) for v in rec["lax"]}
        exts = _exts(hdr, pre)
        if len(exts) != rec["n"]:
            return ("machinery", "der family mismatch at prefix %s: %d vs %d" % (pre, len(exts), rec["n"]))
        for e in exts:
            blob = bytes(pre + e)
            n += 1
            if e in valid:
                bad, i = judge_der(blob, "valid", valid[e])
                nv += 1
            elif e in trailing:
                bad, i = judge_der(blob, "trailing", None)
            elif e in lax:
                bad, i = judge_der(blob, "other", None, lax[e])
            else:
                bad, i = judge_der(blob, "fail", None)
            if bad:
                _merge(mism, bad)
            if i == "unreadable":
                if len(unread) < 400:
                    unread.append(blob)
            elif i:
                info[i] = info.get(i, 0) + 1
    return n, nv, mism, info, unread


def replay_der(ctx, cfg, r):
    hdr = _hdr(r, "derhdr")
    _G["derhdr"] = hdr
    recs = [x for x in r.records if x.get("k") == "der"]
    res = pmap(_der_worker, split(recs, NPROC * 4), chunk=1)
    n = nv = nt = 0
    for x in res:
        if x[0] == "machinery":
            raise MachineryError(x[1])
        n += x[0]
        nv += x[1]
        for key, whats in x[2].items():
            ctx.fail(key, whats[0], {"examples": whats})
        for k, c in x[3].items():
            d = ctx.extra.setdefault("der_not_demanded_but_observed", {})
            d[k] = d.get(k, 0) + c
        _G.setdefault("unread", set()).update(x[4])
    for rec in recs:
        nt += len(rec["trailing"])
        for v in rec["valid"]:
            ctx.case(("der-valid", tuple(rec["pre"]), tuple(v["e"])), 0)
        for e in rec["trailing"]:
            ctx.case(("der-trailing", tuple(rec["pre"]), tuple(e)), 0)
    for rec in recs:
        if rec["valid"]:
            ctx.sample({"replay": "der", "blob": bytes(rec["pre"] + rec["valid"][0]["e"]).hex(), "tlc": "strict-valid",
                        "r": rec["valid"][0]["r"], "s": rec["valid"][0]["s"]})
            break
    for rec in recs:
        if rec["trailing"]:
            ctx.sample({"replay": "der", "blob": bytes(rec["pre"] + rec["trailing"][0]).hex(), "tlc": "trailing bytes: strict decoding must refuse"})
            break
    ctx.replayed += n
    ctx.case(None, 2 * n)
    ctx.action("replay." + cfg, n)
    ctx.log("%s: %d blobs parsed by the TLA+ machine and by sigdecode_der in both modes (%d strict-valid, %d with trailing bytes)" % (cfg, n, nv, nt))


def replay_dersig(ctx, r):
    n = 0
    for rec in r.records:
        if rec.get("k") != "dersig":
            continue
        for v in rec["v"]:
            ri = int.from_bytes(bytes(v["rmin"]), "big")
            si = int.from_bytes(bytes(v["smin"]), "big")
            enc = bytes(v["enc"])
            got = K.der_encode(ri, si)
            n += 1
            if max(len(v["rmin"]), len(v["smin"])) > 32:
                # not a signature value (r, s < n < 2^256): the property does not speak about it
                if got != ("ok", enc):
                    d = ctx.extra.setdefault("der_not_demanded_but_observed", {})
                    k = "sigencode_der is not DER for integers of %s octets" % (">= 256" if got[0] != "ok" else "128..255")
                    d[k] = d.get(k, 0) + 1
                continue
            szr = "r%d-s%d" % (min(len(v["rmin"]), 34), min(len(v["smin"]), 34))
            if got != ("ok", enc):
                ctx.fail("C10|sigencode_der|expected=DER|got=%s" % ("other-bytes" if got[0] == "ok" else got[0]),
                         "sigencode_der(%x, %x) = %s, DER is %s" % (ri, si, got[1].hex() if got[0] == "ok" else got, enc.hex()), v)
            bad, _ = judge_der(enc, "valid", (ri, si))
            for key, what in bad:
                ctx.fail(key, what, v)
            ctx.case(("dersig", tuple(v["rmin"]), tuple(v["smin"])))
            for kind in ("outer", "inner"):
                for t in v[kind]:
                    bad, _ = judge_der(bytes(t), "trailing", None)
                    n += 1
                    for key, what in bad:
                        ctx.fail(key.replace("class=trailing", "class=%s-trailing" % kind), what, {"blob": t})
            # an integer announcing more octets than it has: the machine's verdict on each such blob
            for o in v["over"]:
                blob = bytes(o["b"])
                n += 1
                if o["cls"] == "valid":
                    bad, _ = judge_der(blob, "valid", (int.from_bytes(bytes(o["r"]), "big"), int.from_bytes(bytes(o["s"]), "big")))
                elif o["cls"] == "trailing":
                    bad, _ = judge_der(blob, "trailing", None)
                elif o["cls"] == "fail":
                    bad, _ = judge_der(blob, "fail", None, why=o["why"])
                    ctx.case(("der-overrun", szr, o["why"]), 0)
                else:
                    bad, _ = judge_der(blob, "other", None, "lax")
                for key, what in bad:
                    ctx.fail(key, what, {"blob": blob.hex(), "tlc": o["cls"] + " " + o["why"]})
    ctx.replayed += n
    ctx.case(None, n)
    ctx.action("replay.dersig", n)
    ctx.log("dersig: %d encodings / trailing-byte mutations compared" % n)


def ask_der(ctx, blobs):
    """the DerSig machine's verdict [cls, why, dev] on each blob (stage derask)"""
    fd, path = tempfile.mkstemp(prefix="vf-c10-ask-", suffix=".json")
    with os.fdopen(fd, "w") as f:
        json.dump([list(b) for b in blobs], f)
    try:
        r = ctx.tlc("MC_KeyEnc", "MC_KeyEnc_derask", workers=4, env={"DER_ASK": path}, timeout=900)
    finally:
        os.unlink(path)
    ans = {x["i"]: x for x in r.records if isinstance(x, dict) and x.get("k") == "derask"}
    if len(ans) != len(blobs):
        raise MachineryError("derask: %d answers for %d blobs" % (len(ans), len(blobs)))
    return [ans[i + 1] for i in range(len(blobs))]


def resolve_unreadable(ctx):
    """strict decoding accepted blobs of the enumerated families that the machine cannot read at all: ask the machine
    for its reason (it names the class of the finding) and report them"""
    blobs = sorted(_G.pop("unread", set()))
    if not blobs:
        return
    blobs = blobs[:2000]
    ans = ask_der(ctx, blobs)
    by = {}
    for i, b in enumerate(blobs):
        a = ans[i]
        if a["cls"] != "fail":
            raise MachineryError("derask: blob %s was exported as unreadable, the machine now says %s" % (b.hex(), a["cls"]))
        by.setdefault(a["why"], []).append(b)
    for why, bs in sorted(by.items()):
        got = K.der_decode(bs[0], False)
        ctx.fail(UNREAD_KEY % why, "strict decoding accepts %s as %s; it is no encoding of two integers under any reading of X.690 (%s); "
                 "%d such blobs in the enumerated families" % (bs[0].hex(), got[1:], why, len(bs)), {"examples": [b.hex() for b in bs[:MAXREP * 4]]})
    ctx.action("replay.derask", len(blobs))


# ------------------------------------------------------------------------------------------ traces (code -> spec)
def _bl(b):
    return list(bytes(b))


def _mag(v):
    """[neg, minimal magnitude of |v|] as DerSig!MagOf / IntVal see it"""
    a = abs(v)
    return {"neg": v < 0, "mag": _bl(a.to_bytes(max(1, (a.bit_length() + 7) // 8), "big"))}


def _sec_event_toy(blob, gen, keycls, params, strict, layer):
    p, a, b, cl = params
    ev = {"e": "sec", "b": _bl(blob), "strict": strict, "ok": False, "pt": [], "comp": False, "deferred": False, "layer": layer,
          "raised": False, "exc": ""}
    if layer == "key":
        got = K.key_from_sec(keycls, blob)
        if got[0] == "ok":
            ev.update(ok=True, pt=list(got[1]), comp=got[2])
        elif got[0] not in K.REFUSALS:
            ev.update(raised=True, exc=got[0])
        return ev
    got = K.sec_decode(blob, gen, strict)
    if got[0] == "ok":
        f = K.sec_fields(blob, p, a, b, cl)
        if f["shape"] == "u" and not f["onc"] and K.deferred_validation_refuses(gen, keycls, got[1])[0]:
            ev["deferred"] = True
        else:
            ev.update(ok=True, pt=list(got[1]), comp=len(blob) == 1 + cl)
    elif got[0] not in K.REFUSALS:
        ev["ok"] = got[0]
    return ev


def _secf_event(blob, strict, layer):
    net, keycls = _btc()
    f = K.sec_fields(blob)
    ev = {"e": "secf", "f": f, "strict": strict, "ok": False, "comp": False, "deferred": False, "hex": blob.hex(), "layer": layer,
          "raised": False, "exc": ""}
    if layer == "key":
        got = K.key_from_sec(keycls, blob)
        if got[0] == "ok":
            ev.update(ok=True, comp=got[2])
        elif got[0] not in K.REFUSALS:
            ev.update(raised=True, exc=got[0])
        return ev
    got = K.sec_decode(blob, K.secp256k1_generator, strict)
    if got[0] == "ok":
        if f["shape"] == "u" and not f["onc"] and K.deferred_validation_refuses(K.secp256k1_generator, keycls, got[1])[0]:
            ev["deferred"] = True
        else:
            ev.update(ok=True, comp=len(blob) == 33)
    elif got[0] not in K.REFUSALS:
        ev["ok"] = got[0]
    return ev


def _der_event(blob, openssl):
    got = K.der_decode(blob, openssl)
    ev = {"e": "der", "b": _bl(blob), "openssl": openssl, "res": "refused", "r": _mag(0), "s": _mag(0), "exc": ""}
    if got[0] == "ok":
        ev.update(res="ok", r=_mag(got[1]), s=_mag(got[2]))
    elif got[0] not in DER_REFUSALS:
        ev.update(res="raised", exc=got[0])
    else:
        ev["exc"] = got[0]
    return ev


def _rand_sig_blob(rnd):
    def num():
        k = rnd.choice([1, 7, 8, 9, 15, 16, 64, 128, 160, 248, 255, 256, 256, 256, 256])
        return rnd.getrandbits(k) | (1 << (k - 1)) if rnd.random() < 0.7 else rnd.getrandbits(k)
    r, s = num(), num()
    return r, s


def _bump_int(rnd, enc):
    """one INTEGER of a two-integer encoding (short-form lengths) announces 1 or 2 octets more than it has; the sequence
    length is left, or raised by 1 or 2"""
    b = bytearray(enc)
    if len(b) < 8 or b[1] >= 0x7d or b[3] >= 0x7d:
        return bytes(b), "none"
    which = rnd.choice([1, 2, 2])
    pos = 3 if which == 1 else 5 + b[3]
    if pos >= len(b) or b[pos] >= 0x7d:
        return bytes(b), "none"
    d = rnd.choice([1, 1, 2])
    adj = rnd.choice([0, 0, d, 1])
    b[pos] += d
    b[1] += adj
    return bytes(b), "int%d-len+%d-seq+%d" % (which, d, adj)


def _mutate_der(rnd, enc):
    """(mutated blob, label of the mutation)"""
    m = rnd.randrange(12)
    if m >= 9:
        return _bump_int(rnd, enc)
    return _mutate_der0(rnd, enc, m), "m%d" % m


def _mutate_der0(rnd, enc, m):
    b = bytearray(enc)
    if m == 0:
        return bytes(b) + bytes(rnd.randrange(256) for _ in range(rnd.randint(1, 3)))          # outer trailing
    if m == 1 and b[1] < 0x7c:
        return bytes([b[0], b[1] + 1]) + bytes(b[2:]) + bytes([rnd.randrange(256)])            # inner trailing
    if m == 2:
        return bytes(b[:rnd.randrange(len(b))])                                                # truncation
    if m == 3:
        i = rnd.randrange(len(b))
        b[i] = rnd.choice([0, 1, 2, 0x30, 0x7f, 0x80, 0x81, 0xff, b[i] ^ (1 << rnd.randrange(8))])
        return bytes(b)
    if m == 4 and b[1] < 0x80:
        return bytes([b[0], 0x81, b[1]]) + bytes(b[2:])                                        # long-form length
    if m == 5:
        return bytes([b[0], b[1] + 1 if b[1] < 0x7f else b[1]]) + bytes(b[2:])                # sequence length too long
    if m == 6:
        rl = b[3]
        if rl < 0x7f and b[1] < 0x7f:
            return bytes([b[0], b[1] + 1, 2, rl + 1, 0]) + bytes(b[4:])                        # padded r
    if m == 7:
        return bytes([b[0], max(0, b[1] - 1)]) + bytes(b[2:])                                  # sequence length too short
    return bytes(b)


def record_traces(seed, count):
    """generic traces: key sessions on random networks, secp256k1 blobs by fields, DER, WIF payloads"""
    rnd = random.Random(seed)
    nets, _ = K.networks()
    net0, keycls0 = _btc()
    traces = []
    for t in range(count):
        kind = t % 5
        ev = []
        if kind == 0:        # ---- key session
            sym, net, pfx = rnd.choice(nets)
            c = rnd.choice([0x80, 1, 255, 256]) if rnd.random() < 0.1 else None
            se = rnd.choice([0, K.N, K.N + 1, 2**256 - 1]) if rnd.random() < 0.12 else (
                rnd.randrange(1, 1 << rnd.choice([1, 8, 64, 128, 255, 256])) if c is None else c)
            comp = rnd.random() < 0.6
            se32 = se.to_bytes(32, "big")
            got = K.key_from_se(type(net.keys.private(1)), se, is_compressed=comp)
            ev.append({"e": "new", "se": _bl(se32), "comp": comp, "ok": got[0] == "ok", "exc": got[0], "net": sym})
            if got[0] == "ok":
                k = got[2]
                steps = rnd.choices(["wif", "parse", "secenc", "ident", "fromsec"], k=rnd.randint(3, 9))
                last_wif = None
                last_sec = None
                private = True
                for st in steps:
                    if st == "wif" and private:
                        c = rnd.choice([-1, 0, 1])
                        text = k.wif() if c == -1 else k.wif(is_compressed=bool(c))
                        last_wif = text
                        ev.append({"e": "wif", "c": c, "pfx": _bl(pfx), "payload": _bl(K.b58check_decode(text)), "text": text})
                    elif st == "parse" and private and last_wif:
                        r = K.wif_parse(net, last_wif)
                        e = {"e": "parse", "pfx": _bl(pfx), "payload": _bl(K.b58check_decode(last_wif)), "ok": r[0] == "ok",
                             "se": [], "comp": False, "text": last_wif}
                        if r[0] == "ok":
                            e.update(se=_bl(r[1].to_bytes(32, "big")), comp=r[2])
                            k = r[3]
                        ev.append(e)
                    elif st == "secenc":
                        c = rnd.choice([-1, 0, 1])
                        blob = k.sec() if c == -1 else k.sec(is_compressed=bool(c))
                        last_sec = blob
                        ev.append({"e": "secenc", "c": c, "b": _bl(blob)})
                    elif st == "ident":
                        c = rnd.choice([-1, 0, 1])
                        h = k.hash160() if c == -1 else k.hash160(is_compressed=bool(c))
                        ad = k.address() if c == -1 else k.address(is_compressed=bool(c))
                        ev.append({"e": "ident", "c": c, "h160": _bl(h), "addr": ad})
                    elif st == "fromsec" and last_sec:
                        r = K.key_from_sec(type(k), last_sec)
                        e = {"e": "fromsec", "b": _bl(last_sec), "ok": r[0] == "ok", "comp": False}
                        if r[0] == "ok":
                            e["comp"] = r[2]
                            k = r[3]
                            private = False
                        ev.append(e)
        elif kind == 1:      # ---- secp256k1 blobs judged through their fields
            for _ in range(8):
                x = rnd.choice(K.sec256_table()[rnd.choice(["pt", "pt", "nopt", "pt+p", "nopt+p"])]) if rnd.random() < 0.5 else rnd.getrandbits(256)
                roots = K.ref_roots(x % K.P)
                y = rnd.choice([roots[0], roots[1], (roots[0] + 1) % K.P]) if roots and rnd.random() < 0.8 else rnd.getrandbits(256)
                pfx = rnd.choice([0, 1, 2, 3, 4, 5, 6, 7, 8, 0x80, 0xff, rnd.randrange(256), 2, 3, 4, 4, 6, 7])
                ln = rnd.choice([0, 1, 32, 33, 33, 33, 34, 64, 65, 65, 65, 66, rnd.randrange(0, 71)])
                body = (x % 2**256).to_bytes(32, "big") + (y % 2**256).to_bytes(32, "big") + bytes(8)
                blob = (bytes([pfx]) + body)[:ln]
                ev.append(_secf_event(blob, True, "key"))
                ev.append(_secf_event(blob, rnd.random() < 0.5, "sec"))
        elif kind == 2:      # ---- DER
            for _ in range(6):
                r, s = _rand_sig_blob(rnd)
                enc = K.der_encode(r, s)
                if enc[0] != "ok":
                    ev.append({"e": "derenc", "r": [], "s": [], "b": enc[0]})
                    continue
                ev.append({"e": "derenc", "r": _mag(r)["mag"], "s": _mag(s)["mag"], "b": _bl(enc[1])})
                blob, mut = (enc[1], "none") if rnd.random() < 0.25 else _mutate_der(rnd, enc[1])
                if rnd.random() < 0.15:
                    blob = bytes(rnd.choice([0, 1, 2, 0x30, 0x30, 0x7f, 0x80, 0x81, 0xff, rnd.randrange(256)]) for _ in range(rnd.randint(0, 12)))
                    mut = "random"
                ev.append(dict(_der_event(blob, False), mut=mut))
                ev.append(dict(_der_event(blob, True), mut=mut))
        elif kind == 4:      # ---- public points in every representation
            from pycoin.ecdsa.secp256r1 import secp256r1_generator as r1
            g = K.secp256k1_generator
            t43, _ = K.toy(*CURVES["p43"])
            sym, net, pfx = rnd.choice(nets)
            kc = type(net.keys.private(1))
            for _ in range(8):
                c = rnd.randrange(8)
                if c == 0:
                    q = K.ref_mul(rnd.randrange(1, K.N))
                    obj = rnd.choice([tuple(q), list(q), g.Point(*q), rnd.randrange(1, K.N) * g])
                elif c == 1:
                    obj = rnd.choice([rnd.randrange(1, 50) * r1, rnd.randrange(1, 31) * t43])
                    obj = rnd.choice([obj, tuple(obj), list(obj)])
                elif c == 2:
                    obj = rnd.choice([g.infinity(), K.N * g, r1.infinity(), t43.infinity(), (None, None), [None, None], 0 * g,
                                      g.Point(K.GX, K.GY) + (-g.Point(K.GX, K.GY))])
                elif c == 3:
                    obj = rnd.choice([(None, rnd.getrandbits(256)), (rnd.getrandbits(256), None), [None, 5]])
                elif c == 4:
                    x = rnd.choice(K.sec256_table()["pt"])
                    obj = (x, (K.ref_roots(x)[0] + rnd.randrange(1, 5)) % K.P)
                elif c == 5:
                    x = rnd.choice(K.sec256_table()["pt+p"])
                    obj = (x, K.ref_roots(x % K.P)[rnd.randrange(2)])
                elif c == 6:
                    q = K.ref_mul(rnd.randrange(1, 1 << rnd.choice([1, 8, 64, 255])))
                    obj = rnd.choice([tuple(q), list(q), g.Point(*q)])
                else:
                    obj = (rnd.getrandbits(256), rnd.getrandbits(256))
                via = rnd.choice(["Key", "keys.public"]) if isinstance(obj, tuple) else "Key"
                try:
                    k = kc(public_pair=obj, is_compressed=rnd.random() < 0.5) if via == "Key" else net.keys.public(obj)
                    got = "ok"
                except Exception as e:  # noqa: BLE001
                    got = K._exc(e)
                x, y = obj[0], obj[1]
                num = x is not None and y is not None
                ev.append({"e": "pub", "rep": type(obj).__name__ + (":" + type(obj.curve()).__name__ if hasattr(obj, "curve") else ""), "via": via,
                           "f": {"isinf": x is None and y is None, "halfnone": (x is None) != (y is None),
                                 "xlt": num and 0 <= x < K.P, "ylt": num and 0 <= y < K.P, "onc": num and K.on_curve(x, y)},
                           "ok": got == "ok", "exc": got, "net": sym,
                           "cls": "own" if isinstance(obj, tuple) and hasattr(obj, "curve") and obj.curve() is g else "other"})
        else:                # ---- arbitrary WIF payloads
            sym, net, pfx = rnd.choice(nets)
            for _ in range(5):
                se = rnd.choice([0, 1, K.N - 1, K.N, 2**256 - 1, rnd.getrandbits(256), rnd.getrandbits(255), rnd.getrandbits(8)])
                body = se.to_bytes(32, "big") + rnd.choice([b"", b"\1", b"\1", b"\0", b"\2", b"\1\1", bytes([rnd.randrange(256)])])
                if rnd.random() < 0.2:
                    body = body[rnd.randint(1, 3):] if rnd.random() < 0.5 else b"\0" + body
                pp = pfx if rnd.random() < 0.85 else bytes([pfx[0] ^ 1]) + pfx[1:]
                payload = pp + body
                r = K.wif_parse(net, K.b58check(payload))
                e = {"e": "wifp", "pfx": _bl(pfx), "payload": _bl(payload), "ok": r[0] == "ok", "se": [], "comp": False, "got": r[0], "net": sym,
                     "raised": False,
                     # a label for the finding key only (the verdict is TLC's)
                     "shape": "badprefix" if pp != pfx else "marker" if len(body) == 33 and body[-1] != 1 else
                              "length" if len(body) not in (32, 33) else "wellformed"}
                if r[0] == "ok":
                    e.update(se=_bl(r[1].to_bytes(32, "big")), comp=r[2])
                elif r[0] != "none" and r[0] not in K.REFUSALS:
                    e["raised"] = True
                ev.append(e)
        traces.append({"kind": ["session", "secf", "der", "wifp", "pub"][kind], "ev": ev})
    # ---- the text form of public keys: one session on EVERY network that loads, with the prefix that network writes
    for sym, net, _ in nets:
        se = rnd.randrange(1, K.N)
        comp = rnd.random() < 0.5
        got = K.key_from_se(type(net.keys.private(1)), se, is_compressed=comp)
        ev = [{"e": "new", "se": _bl(se.to_bytes(32, "big")), "comp": comp, "ok": got[0] == "ok", "exc": got[0], "net": sym}]
        if got[0] == "ok":
            k = got[2]
            texts = []
            for c, via in ((1, "sec_as_hex"), (0, "sec_as_hex"), (-1, "as_text"), (-1, "sec_as_hex")):
                try:
                    blob = k.sec() if c == -1 else k.sec(is_compressed=bool(c))
                    text = k.public_copy().as_text() if via == "as_text" else (k.sec_as_hex() if c == -1 else k.sec_as_hex(is_compressed=bool(c)))
                    cut = len(text) - 2 * len(blob)
                    ev.append({"e": "sectext", "c": c, "via": via, "net": sym, "b": _bl(blob), "text": [ord(ch) for ch in text],
                               "pfx": [ord(ch) for ch in text[:max(cut, 0)]]})
                    texts.append((text, blob, text[:max(cut, 0)]))
                except Exception as e:  # noqa: BLE001
                    ev.append({"e": "sectext", "c": c, "via": via, "net": sym, "b": [], "text": [], "pfx": [], "exc": K._exc(e)})
            for text, blob, tp in texts[:2]:
                for via in ("parse.sec", "parse.public_key"):
                    e = {"e": "parsesec", "via": via, "net": sym, "b": _bl(blob), "text": [ord(ch) for ch in text], "pfx": [ord(ch) for ch in tp],
                         "ok": False, "comp": False, "rb": [], "got": "none"}
                    try:
                        f = net.parse.sec if via == "parse.sec" else net.parse.public_key
                        pk = f(text)
                        if pk is not None:
                            e.update(ok=True, comp=bool(pk.is_compressed()), rb=_bl(pk.sec()), got="key")
                    except Exception as ex:  # noqa: BLE001
                        e["got"] = K._exc(ex)
                    ev.append(e)
        traces.append({"kind": "sectext", "ev": ev})
    return traces


def record_toy_traces(seed, cname, count):
    rnd = random.Random(seed * 1000003 + CURVES[cname][0])
    p, a, b, gx, gy, n = CURVES[cname]
    gen, keycls = K.toy(p, a, b, gx, gy, n)
    cl = 1 if p <= 256 else 2
    params = (p, a, b, cl)
    pts = [pt for pt in (K.ref_mul(k, (gx, gy), p, a) for k in range(1, n))]
    traces = []
    for t in range(count):
        ev = []
        for _ in range(6):
            if rnd.random() < 0.6:
                x, y = rnd.choice(pts)
                if rnd.random() < 0.3:
                    x += p * rnd.randint(0, (256**cl - 1 - x) // p)
                if rnd.random() < 0.3:
                    y = rnd.choice([y + p if y + p < 256**cl else y, (y + 1) % p, p - y])
                pfx = rnd.choice([2, 3, 4, 4, 6, 7, rnd.randrange(256)])
                blob = bytes([pfx]) + x.to_bytes(cl, "big") + (y.to_bytes(cl, "big") if pfx not in (2, 3) or rnd.random() < 0.1 else b"")
                if rnd.random() < 0.1:
                    blob = blob[:-1] if rnd.random() < 0.5 else blob + b"\0"
            else:
                blob = bytes(rnd.randrange(256) for _ in range(rnd.randint(0, 2 + 2 * cl)))
            ev.append(_sec_event_toy(blob, gen, keycls, params, True, "key"))
            ev.append(_sec_event_toy(blob, gen, keycls, params, rnd.random() < 0.5, "sec"))
        for _ in range(2):
            v = rnd.choice([0, 1, n - 1, n, n + 1, -1, rnd.randrange(-3, 2 * n + 3)])
            got = K.key_from_se(keycls, v)
            ev.append({"e": "toykey", "v": v, "ok": got[0] == "ok", "pub": list(got[1]) if got[0] == "ok" else [], "exc": got[0]})
        traces.append({"kind": "toy-" + cname, "ev": ev})
    return traces


GROUND_TRUTH_DER = [   # published signatures (Bitcoin block 170 and the BIP66 examples' shape), must be strict DER
    "304402204e45e16932b8af514961a1d3a1a25fdf3f4f7732e9d624c6c61548ab5fb8cd410220181522ec8eca07de4860a4acdd12909d831cc56cbbac4622082221a8768d1d09",
    "3045022100c12a7d54972f26d14cb311339b5122f8c187417dde1e8efb6841f55c34220ae0022066632c5cd4161efa3a2837764eee9eb84975dd54c2de2865e9752585c53e7cce",
]


def ground_truth_traces():
    """R2: the spec must judge published artefacts the way the world does, before it judges pycoin"""
    ev = []
    for h in GROUND_TRUTH_DER:
        blob = bytes.fromhex(h)
        rl = blob[3]
        r = int.from_bytes(blob[4:4 + rl], "big")
        s = int.from_bytes(blob[6 + rl:], "big")
        ev.append({"e": "der", "b": _bl(blob), "openssl": False, "res": "ok", "r": _mag(r), "s": _mag(s), "exc": ""})
        ev.append({"e": "derenc", "r": _mag(r)["mag"], "s": _mag(s)["mag"], "b": _bl(blob)})
    # the generator of secp256k1 in the three forms, by fields
    for blob, strict, ok in ((K.ref_sec((K.GX, K.GY), True), True, True), (K.ref_sec((K.GX, K.GY), False), True, True),
                             (b"\6" + K.ref_sec((K.GX, K.GY), False)[1:], True, False), (b"\6" + K.ref_sec((K.GX, K.GY), False)[1:], False, True),
                             (b"\7" + K.ref_sec((K.GX, K.GY), False)[1:], False, False)):
        ev.append({"e": "secf", "f": K.sec_fields(blob), "strict": strict, "ok": ok, "comp": len(blob) == 33 and ok, "deferred": False, "raised": False})
    # published WIFs of the exponent 1
    for text, comp in (("5HpHagT65TZzG1PH3CSu63k8DbpvD8s5ip4nEB3kEsreAnchuDf", False), ("KwDiBf89QgGbjEhKnhXJuH7LrciVrZi3qYjgd9M7rFU73sVHnoWn", True)):
        ev.append({"e": "wifp", "pfx": [128], "payload": _bl(K.b58check_decode(text)), "ok": True, "se": _bl((1).to_bytes(32, "big")), "comp": comp, "raised": False})
    return [{"kind": "ground-truth", "ev": ev}]


def validate_traces(ctx, batches):
    """batches: list of (curve name, traces).  One TLC run per batch, run concurrently.
    Returns for each batch the list of (trace index, index of the first unexplained event)."""
    jobs = []
    paths = []
    for cname, traces in batches:
        fd, path = tempfile.mkstemp(prefix="vf-c10-traces-", suffix=".json")
        with os.fdopen(fd, "w") as f:
            json.dump([{"ev": t["ev"]} for t in traces], f)
        paths.append(path)
        jobs.append({"module": "Trace_KeyEnc", "cfg": "Trace_KeyEnc_" + cname, "workers": 1, "env": {"TRACE_FILE": path},
                     "count": False, "timeout": 1500})
    out = []
    try:
        for (job, r), (cname, traces) in zip(tlc_batch(ctx, jobs, conc=4), batches):
            at = None
            for rec in r.records:
                if isinstance(rec, dict) and rec.get("k") == "reached":
                    if rec["n"] != len(traces):
                        raise MachineryError("trace run saw %s traces, %d were sent" % (rec["n"], len(traces)))
                    at = rec["at"]
            if at is None:
                raise MachineryError("trace run printed no verdict: %s" % r.raw_tail[-5:])
            out.append([(i, at[i] - 1) for i in range(len(traces)) if at[i] != len(traces[i]["ev"]) + 1])
    finally:
        for path in paths:
            os.unlink(path)
    return out


def _trace_key(ev):
    e = ev["e"]
    if e == "der":
        return "C10|trace|der|openssl=%s|res=%s%s%s" % (ev["openssl"], ev["res"], ("|" + ev["exc"]) if ev["res"] == "raised" else "",
                                                        ("|blob=" + ev["verdict"]) if ev.get("verdict") else "")
    if e == "sectext":
        return "C10|trace|sectext|via=%s|form=%s" % (ev.get("via"), ev.get("c"))
    if e == "parsesec":
        return "C10|trace|parsesec|via=%s|form=%s|prefix=%s|got=%s" % (
            ev.get("via"), "c" if len(ev["b"]) == 33 else "u",
            "none" if not ev["pfx"] else "colon" if ev["pfx"][-1] == 58 else "plain", ev.get("got"))
    if e == "sec":
        return "C10|trace|sec|layer=%s|strict=%s|got=%s" % (ev.get("layer"), ev["strict"], ev["exc"] if ev["raised"] else ev["ok"])
    if e == "secf":
        return "C10|trace|secf|layer=%s|strict=%s|%s|got=%s" % (ev.get("layer"), ev["strict"], _sec_class(ev["f"]), ev["exc"] if ev["raised"] else ev["ok"])
    if e == "wifp":
        return "C10|trace|wifp|payload=%s|got=%s" % (ev.get("shape"), "raised" if ev["raised"] else ev.get("got"))
    if e == "toykey":
        return "C10|trace|toykey|got=%s" % ev["exc"]
    if e == "new":
        return "C10|trace|new|got=%s" % ev["exc"]
    if e == "pub":
        f = ev["f"]
        return "C10|trace|pub|via=%s|rep=%s|%s|got=%s" % (ev["via"], ev["rep"], "infinity" if f["isinf"] else "half-none" if f["halfnone"] else
                                                         "oncurve=%s" % f["onc"], ev["exc"])
    return "C10|trace|%s" % e


def run_traces(ctx, batches):
    """batches: list of (curve, label, traces); returns the accepted traces"""
    good = []
    rejs = validate_traces(ctx, [(c, t) for c, _, t in batches])
    # rejected DER events: the machine's own verdict on the blob names the class of the finding
    ask = []
    for (cname, label, traces), rej in zip(batches, rejs):
        for i, j in rej:
            if 0 <= j < len(traces[i]["ev"]) and traces[i]["ev"][j].get("e") == "der" and traces[i]["kind"] != "ground-truth":
                ask.append(traces[i]["ev"][j])
    if ask:
        for e, a in zip(ask, ask_der(ctx, [bytes(e["b"]) for e in ask[:500]])):
            e["verdict"] = a["cls"] + (":" + a["why"] if a["cls"] == "fail" else "")
    for (cname, label, traces), rej in zip(batches, rejs):
        ctx.traces += len(traces) - len(rej)
        ctx.case(None, sum(len(t["ev"]) for t in traces))
        ctx.action("trace." + label, len(traces))
        bad = {i for i, _ in rej}
        good += [t for i, t in enumerate(traces) if i not in bad]
        for i, j in rej:
            t = traces[i]
            ev = t["ev"][j] if 0 <= j < len(t["ev"]) else {"e": "?"}
            if t["kind"] == "ground-truth":
                raise MachineryError("the spec rejects a ground-truth artefact: %s" % json.dumps(ev)[:400])
            ctx.fail(_trace_key(ev), "recorded %s trace is not a behaviour of KeyEnc/DerSig: event %d = %s" % (t["kind"], j, json.dumps(ev)[:300]),
                     {"trace": t, "event_index": j})
    return good


# ------------------------------------------------------------------------------------------ main
def run(ctx):
    q = ctx.quick
    ctx.rule = ("model: one TLC state per work item, the rule book and its lemmas evaluated on every case of the item (every byte "
                "string of length 0..3 on three 1-octet curves in the thorough tier, prefix slices in the quick tier; 2-octet curve "
                "slices; 256 prefixes x 8 lengths x 16 classes on secp256k1; DER blob families over {00,01,02,30,7f,80,81,ff}+lengths); "
                "replay: each case executed on pycoin; distinct_nontrivial = accepted blobs / valid keys / strict-valid or trailing DER "
                "blobs / accepted secp256k1 classes / WIF (shape, prefix, verdict) classes")
    ctx.assumptions += [
        "TLC/SANY, CPython hashlib (sha256, ripemd160)",
        "Base58Check is transport here (property C11): the harness wraps/unwraps WIF payloads with its own 12-line codec",
        "k*G, square and cube roots on secp256k1 come from a 25-line affine reference (checked against published 2G, 3G, (n-1)G)",
        "on-curve validation of UNCOMPRESSED blobs is anchored at Key construction (property anchors): sec_to_public_pair may hand "
        "out an off-curve pair of a well-formed 04/06/07 blob provided Key() and verify() refuse it (checked for each such pair)",
        "integers that are not field elements but congruent to a point, given directly to Key(public_pair=...): refused, or read as that point (KeyEnc!LiftOutcomeOk: every SEC form of the key that comes back decodes to it)",
        "DER: demanded are round trip of strict encodings, refusal in strict mode of trailing bytes and of blobs that are no encoding "
        "of two integers under any reading of X.690 (DerSig!Unreadable: truncated, wrong tag, integer missing), and exceptions limited to "
        "UnexpectedDER/ValueError; acceptance of BER-but-not-DER forms (long lengths, padded / negative integers) is counted in "
        "der_not_demanded_but_observed",
        "GRS/GRSRT/TGRS networks cannot be imported in this sandbox (groestlcoin_hash missing)",
    ]
    if not K.selfcheck_reference():
        raise MachineryError("secp256k1 reference fails its published vectors")

    # ---------------- 1+2. model checking and spec -> code
    toy1 = ["p43", "p83", "p103"]
    sfx = "_q" if q else "_t"
    names = ["sec_%s%s" % (c, sfx) for c in toy1] + ["sec_p283c" + sfx, "sec_p283u" + sfx] + ([] if q else ["sec_p283c_q"])
    names += ["der_grid" + sfx, "der_sig" + sfx, "der_short", "sec256" + sfx, "wif", "dersig"]
    names += ["toykey_%s" % c for c in toy1 + ["p283"]] + ["pubrep_%s" % c for c in toy1]
    jobs = [{"cfg": "MC_KeyEnc_" + nm} for nm in names] + [{"cfg": "MC_KeyEnc_secmut", "expect_ok": False, "count": False}]
    if ctx.only:
        jobs = [j for j in jobs if any(o in j["cfg"] for o in ctx.only)]
    for job, r in tlc_batch(ctx, jobs, conc=3 if q else 2, workers=6 if q else 8):
        name = job["cfg"][len("MC_KeyEnc_"):]
        if name == "secmut":
            ctx.selftest("model_rejects_decoder_without_field_check", (not r.ok) and r.violated == "NoBad")
        elif name.startswith("sec_"):
            replay_sec_toy(ctx, "p283" if "p283" in name else name.split("_")[1], r)
        elif name.startswith("toykey_"):
            replay_toykey(ctx, name.split("_")[1], r)
        elif name.startswith("pubrep_"):
            table = replay_pubrep(ctx, name.split("_")[1], r)
            if name == "pubrep_p43":
                replay_pubrep_256(ctx, table)
        elif name.startswith("sec256"):
            replay_sec256(ctx, r)
        elif name == "wif":
            replay_wif(ctx, r, q)
        elif name == "dersig":
            replay_dersig(ctx, r)
        elif name.startswith("der_"):
            replay_der(ctx, name, r)
        r.records = []
    resolve_unreadable(ctx)
    if ctx.only and "trace" not in ctx.only:
        return

    # replay self-test: a corrupted expectation must be noticed
    p, a, b, gx, gy, n = CURVES["p43"]
    gen, keycls = K.toy(p, a, b, gx, gy, n)
    good = bytes([2 + (gy & 1), gx])
    ok0, _ = judge_sec(good, (True, (gx, gy), True), gen, keycls, (p, a, b, 1), "toy")
    bad1, _ = judge_sec(good, (True, (gx, p - gy), True), gen, keycls, (p, a, b, 1), "toy")
    bad2, _ = judge_sec(good, None, gen, keycls, (p, a, b, 1), "toy")
    bad3, _ = judge_der(bytes.fromhex("3006020101020101"), "valid", (1, 2))
    bad4, _ = judge_der(bytes.fromhex("3006020101020101"), "trailing", None)
    ctx.selftest("replay_rejects_corrupted_expectation", ok0 == [] and bool(bad1) and bool(bad2) and bool(bad3) and bool(bad4))

    # ---------------- 3. code -> spec
    ntr = 240 if q else 2400
    gt = ground_truth_traces()
    traces = gt + record_traces(ctx.seed * 7919 + 10, ntr)
    ctx.sample({"trace": traces[1]})
    batches = [("p43", "generic", ch) for ch in split(traces, max(1, len(traces) // 900))]
    for cname in ["p43", "p83", "p103", "p283"]:
        tt = record_toy_traces(ctx.seed * 7919 + 10, cname, 60 if q else 500)
        batches.append((cname, "toy-" + cname, tt))
        if cname == "p43":
            ctx.sample({"trace": tt[0]})
    good = run_traces(ctx, batches)
    # binding self-test: corrupt one logged field of accepted traces
    base = [t for t in good if t["ev"] and t["kind"] in ("session", "secf", "der", "wifp", "pub")]
    picks = {}
    for t in base:
        picks.setdefault(t["kind"], t)
    muts = []
    for kind, t in sorted(picks.items()):
        m = copy.deepcopy(t)
        e = m["ev"][-1] if kind != "session" else [x for x in m["ev"] if x["e"] in ("wif", "secenc", "ident", "new")][-1]
        if e["e"] in ("wif",):
            e["payload"][-2] ^= 1
        elif e["e"] == "secenc":
            # the first observation of a 256-bit key's SEC form is learned, not computed: contradict it
            m["ev"].append(dict(e, b=[e["b"][0] ^ 1] + list(e["b"][1:])))
        elif e["e"] == "ident":
            m["ev"].append(dict(e, h160=[x ^ 1 for x in e["h160"]]))
        elif e["e"] == "new":
            e["ok"] = not e["ok"]
        elif e["e"] == "secf":
            e["ok"] = not e["ok"] if isinstance(e["ok"], bool) else True
        elif e["e"] == "der":
            m["ev"].append({"e": "der", "b": [48, 6, 2, 1, 1, 2, 1, 1, 0], "openssl": False, "res": "ok", "r": _mag(1), "s": _mag(1), "exc": ""})
        elif e["e"] == "wifp":
            e["ok"] = not e["ok"] if isinstance(e["ok"], bool) else True
            e["comp"] = not e["comp"]
        elif e["e"] == "pub":
            m["ev"].append({"e": "pub", "rep": "Point", "via": "Key", "f": {"isinf": True, "halfnone": False, "xlt": False, "ylt": False, "onc": False},
                            "ok": True, "exc": "ok"})
        muts.append(m)
    orig = [picks[k] for k in sorted(picks)]
    rej = validate_traces(ctx, [("p43", orig + muts)])[0]
    ctx.log("trace self-test: kinds %s, rejected %s of %d..%d" % (sorted(picks), rej, len(orig), len(orig) + len(muts) - 1))
    ctx.selftest("trace_rejects_corrupted_field", len(muts) == 5 and sorted(i for i, _ in rej) == list(range(len(orig), len(orig) + len(muts))))
    ctx.exhaustive = not q
