"""C20 - the context-free transaction check accepts exactly the well-formed transactions.

1. TLC checks the lemmas of spec/TxCheck.tla over the boundary grid of MC_TxCheckReplay
   (reject / accept obligations disjoint and leaving only the size gap; running total vs final
   total; stripped <= total size; caps equal to the published 21,000,000 / 105,000,000 coins;
   no call changes the object) - in the same run that prints the cases.
2. spec -> code: each printed case is built as a pycoin Tx (BTC or GRS), check(), is_coinbase(),
   bad_solution_count(), check() are called, the verdict compared with the one the property
   demands ("any" where it is silent) and the object compared field by field after every call.
2b. history: MC_TxCheckHistory enumerates every sequence of <= 3 (thorough 4) actions - check(), is_coinbase(),
   bad_solution_count() and edits of public fields (scripts across the 1,000,000-byte limit, values across the cap,
   outpoints to duplicate / null, witness, append / remove) - on ONE object; each is run on one pycoin object, and at
   every check() also on a fresh object built from the current fields: the verdict is a function of the current fields.
3. code -> spec: seeded random transactions around the same rules (more inputs / outputs,
   random call sequences) are driven through pycoin, logged and validated by TLC against
   Trace_TxCheck.
"""
from __future__ import annotations

import copy
import json
import os
import random
import tempfile

from ..ctx import MachineryError
from ..drv import txwire as D
from ..par import NPROC

MAXM = {"BTC": 21000000 * 10 ** 8, "GRS": 105000000 * 10 ** 8}


def _replay(ctx, cfg, workers):
    rp = D.StreamReplayer("check_chk_record", (None,), NPROC, chunk=256)
    first = []
    verdicts = {}

    def on(rec):
        if rec.get("k") != "chk":
            return
        if not first and rec["verdict"] == "accept" and "outpoints=" not in D.chk_class(rec, D.abs_chk(rec)):
            first.append(rec)          # an ordinary well-formed transaction, for the binding self-test
        if rp.records % 1201 == 0:
            ctx.sample({"case": rec})
        verdicts[rec["verdict"]] = verdicts.get(rec["verdict"], 0) + 1
        ctx.case((rec["coin"], rec["verdict"], D.chk_class(rec, D.abs_chk(rec)), tuple(sorted(D.seq(rec["defects"])))), 0)
        rp.feed(rec)
    ctx.tlc("MC_TxCheckReplay", cfg, workers=workers, on_record=on, keep_records=False, timeout=3000)
    fails = rp.finish()
    obs = {}
    real = []
    for key, what, detail in fails:
        if key == "OBS":
            obs[what] = obs.get(what, 0) + 1
        else:
            real.append((key, what, detail))
    ctx.log("%s: %d cases from TLC (%s), %d executed on pycoin, %d disagreements, %d observations" % (
        cfg, rp.records, verdicts, rp.executed, len(real), sum(obs.values())))
    if rp.records == 0 or not all(verdicts.get(v) for v in ("accept", "reject", "any")):
        raise MachineryError("vacuous replay: verdict classes seen %s" % verdicts)
    ctx.replayed += rp.records
    ctx.case(None, rp.executed)
    ctx.action("replay." + cfg, rp.records)
    for v, n in verdicts.items():
        ctx.action("verdict." + v, n)
    if obs:
        ctx.extra["observations_not_bound_by_the_property"] = {k: obs[k] for k in sorted(obs)[:40]}
    for key, what, detail in real:
        ctx.fail(key, what, detail)
    if not first:
        raise MachineryError("no ordinary accepted case in the replay")
    return first[0]


def _history(ctx, cfg, workers):
    """the HISTORY dimension: every sequence of <= Depth calls / edits on one long-lived object"""
    rp = D.StreamReplayer("check_hist_record", (None,), NPROC, chunk=128)
    flips = {}
    pick = []

    def on(rec):
        if rec.get("k") != "hist":
            return
        kinds = tuple(a[0] for a in rec["acts"])
        v = [o["facts"]["verdict"] for a, o in zip(rec["acts"], rec["outs"]) if a[0] == "check"]
        for a, b in zip(v, v[1:]):
            flips[(a, b)] = flips.get((a, b), 0) + 1
        if not pick and v[:1] == ["accept"] and v[-1:] == ["reject"] and len(v) >= 2:
            pick.append(rec)
        if rp.records % 1499 == 0:
            ctx.sample({"history": {"coin": rec["coin"], "acts": [a[0] for a in rec["acts"]], "verdicts": v}})
        ctx.case(("hist", rec["coin"], kinds, tuple(v)), 0)
        ctx.action("history." + kinds[-1], 1)
        rp.feed(rec)
    ctx.tlc("MC_TxCheckHistory", cfg, workers=workers, on_record=on, keep_records=False, timeout=3000)
    fails = rp.finish()
    ctx.log("%s: %d histories from TLC, %d executed on pycoin (long-lived object + fresh object at every check), %d disagreements; "
            "verdict changes between consecutive checks: %s" % (cfg, rp.records, rp.executed, len(fails), flips))
    if not (flips.get(("accept", "reject")) and flips.get(("reject", "accept"))) or not pick:
        raise MachineryError("vacuous history replay: no edit flips the verdict (%s)" % flips)
    ctx.replayed += rp.records
    ctx.case(None, rp.executed)
    ctx.action("replay." + cfg, rp.records)
    ctx.extra["history_verdict_changes"] = {"%s->%s" % k: n for k, n in sorted(flips.items())}
    for key, what, detail in fails:
        ctx.fail(key, what, detail)
    # binding self-test: present the verdict of the last check as the one BEFORE the edit (a stale verdict)
    good = pick[0]
    bad = copy.deepcopy(good)
    last = max(i for i, a in enumerate(bad["acts"]) if a[0] == "check")
    bad["outs"][last]["facts"]["verdict"] = "accept"
    f0 = {x[0] for x in D.check_hist_record(good)}
    f1 = {x[0] for x in D.check_hist_record(bad)}
    _selftest(ctx, "history_replay_rejects_stale_verdict", f0 != f1 and any("|check|" in k for k in f0 ^ f1))


# ---------------------------------------------------------------- traces

def _rand_value(rnd, M):
    r = rnd.random()
    if r < 0.45:
        return rnd.choice([0, 1, M - 1, M, M + 1, M // 2, M // 2 + 1, M // 3, 2 ** 63, 2 ** 64 - 1, 2 ** 64, -1, -M])
    if r < 0.8:
        return rnd.randrange(0, M // 4)
    return rnd.randrange(0, 2 * M)


def _rand_check_tx(rnd, sym):
    M = MAXM[sym]
    nin = rnd.choice([0, 1, 1, 1, 2, 2, 3, 4, 6])
    nout = rnd.choice([0, 1, 1, 2, 2, 3, 4, 6])
    hashes = [b"\0" * 32, bytes([7]) * 32, bytes([9]) + bytes([0]) * 31, bytes([7]) * 31 + bytes([8])]
    ins = []
    for i in range(nin):
        h = rnd.choice(hashes) if rnd.random() < 0.8 else b"\0" * 32
        idx = rnd.choice([0, 1, 2, 0xFFFFFFFF, 0xFFFFFFFE]) if rnd.random() < 0.9 else 0xFFFFFFFF
        sl = rnd.choice([0, 1, 2, 3, 50, 99, 100, 101, 102, 300])
        wit = (bytes([1]) * rnd.choice([0, 1, 72]),) if rnd.random() < 0.25 else ()
        ins.append((h, idx, bytes([0x51]) * sl, rnd.choice([0, 0xFFFFFFFF]), wit))
    if nin >= 2 and rnd.random() < 0.3:
        a, b = rnd.sample(range(nin), 2)
        ins[b] = (ins[a][0], ins[a][1]) + ins[b][2:]      # a duplicate outpoint at a random pair of positions
    outs = []
    if nout and rnd.random() < 0.35:
        # values that cross the cap only cumulatively, the crossing at a random position
        parts = nout
        cut = sorted(rnd.randrange(0, M + 1) for _ in range(parts - 1))
        vals = [b - a for a, b in zip([0] + cut, cut + [M])]
        if rnd.random() < 0.5:
            vals[rnd.randrange(parts)] += 1
        outs = [(v, bytes([0x6a]) * rnd.choice([0, 1, 25])) for v in vals]
    else:
        outs = [(_rand_value(rnd, M), bytes([0x6a]) * rnd.choice([0, 1, 25])) for _ in range(nout)]
    r = rnd.random()
    if nin and r < 0.04:
        # around the size limit
        over = rnd.choice([-1, 0, 1, 5000])
        ins[0] = ins[0][:2] + (bytes([0x51]) * (1000000 - 60 - 41 * (nin - 1) - 34 * nout + over),) + ins[0][3:]
    elif nin and r < 0.07:
        ins[0] = ins[0][:4] + ((bytes([2]) * (1000000 + rnd.choice([-200, 0, 3000])),),)
    return (rnd.choice([1, 2]), tuple(ins), tuple(outs), rnd.choice([0, 500000]))


def _tx_json(p):
    return {"version": D.limbs(p[0], 2), "lock": D.limbs(p[3], 2),
            "ins": [{"hash": D.rle(i[0]), "index": D.limbs(i[1], 2), "script": D.rle(i[2]), "seq": D.limbs(i[3], 2),
                     "wit": [D.rle(w) for w in i[4]]} for i in p[1]],
            "outs": [{"value": {"neg": v < 0, "mag": _mag(abs(v))}, "script": D.rle(s)} for v, s in p[2]]}


def _mag(n):
    out = []
    while n:
        out.append(n & 0xFFFF)
        n >>= 16
    return out


def _rand_edit(rnd, Tx, tx, sym):
    """one random edit of the live object's public fields; returns a label (or None if nothing applicable)"""
    M = MAXM[sym]
    kind = rnd.choice(["value", "value", "script", "script", "bigscript", "outpoint", "append_in", "remove_in",
                       "append_out", "remove_out", "witness"])
    if kind == "value" and tx.txs_out:
        j = rnd.randrange(len(tx.txs_out))
        tx.txs_out[j].coin_value = _rand_value(rnd, M)
    elif kind == "script" and tx.txs_in:
        tx.txs_in[rnd.randrange(len(tx.txs_in))].script = bytes([0x51]) * rnd.choice([0, 1, 2, 3, 99, 100, 101, 102])
    elif kind == "bigscript" and (tx.txs_in or tx.txs_out):
        # move the witness-stripped size to just below / onto / just above the limit (sizes are pycoin's own here;
        # the spec recomputes them from the logged fields)
        if tx.txs_in and rnd.random() < 0.7:
            tgt = tx.txs_in[0]
        else:
            tgt = (tx.txs_out or tx.txs_in)[0]
        tgt.script = b""
        try:
            base = len(tx.as_bin(include_witness_data=False))
        except Exception:
            return None
        n = 1000000 + rnd.choice([-1, 0, 1, 1, 2000]) - base - 4
        if n < 70000:
            return None
        tgt.script = bytes([0x51]) * n
    elif kind == "outpoint" and tx.txs_in:
        i = rnd.randrange(len(tx.txs_in))
        if len(tx.txs_in) > 1 and rnd.random() < 0.5:
            o = tx.txs_in[(i + 1) % len(tx.txs_in)]
            tx.txs_in[i].previous_hash, tx.txs_in[i].previous_index = o.previous_hash, o.previous_index
        else:
            tx.txs_in[i].previous_hash = rnd.choice([b"\0" * 32, bytes([7]) * 32, bytes([5]) * 32])
            tx.txs_in[i].previous_index = rnd.choice([0, 3, 0xFFFFFFFF])
    elif kind == "append_in":
        tx.txs_in.append(Tx.TxIn(bytes([rnd.randrange(1, 200)]) * 32, rnd.randrange(4), bytes([0x51]) * rnd.choice([0, 2, 50])))
    elif kind == "remove_in" and tx.txs_in:
        tx.txs_in.pop(rnd.randrange(len(tx.txs_in)))
    elif kind == "append_out":
        tx.txs_out.append(Tx.TxOut(_rand_value(rnd, M), b""))
    elif kind == "remove_out" and tx.txs_out:
        tx.txs_out.pop(rnd.randrange(len(tx.txs_out)))
    elif kind == "witness" and tx.txs_in:
        tx.set_witness(rnd.randrange(len(tx.txs_in)), [bytes([2]) * rnd.choice([0, 1, 72, 1000000])])
    else:
        return None
    return kind


def record_traces(seed, count, edits=False):
    rnd = random.Random(seed)
    traces = []
    for t in range(count):
        sym = "BTC" if t % 2 == 0 else "GRS"
        Tx = D.network(sym).tx
        p = _rand_check_tx(rnd, sym)
        tx = D.build_tx(Tx, p)
        ev = []
        n = rnd.randrange(2, 6) if not edits else rnd.randrange(4, 9)
        plan = [rnd.choice(["check", "check", "is_coinbase", "bad_solution_count"] + (["edit"] * 4 if edits else [])) for _ in range(n)]
        if edits:
            plan.append("check")
        for call in plan:
            info = None
            try:
                if call == "edit":
                    was = D.project_tx(tx)
                    info = _rand_edit(rnd, Tx, tx, sym)
                    if D.project_tx(tx) == was:
                        continue           # nothing changed: not an event
                    info = info or "partial"
                    res = "edited"
                elif call == "check":
                    res, info = D.observe_check(tx)
                elif call == "is_coinbase":
                    res = "yes" if tx.is_coinbase() else "no"
                else:
                    res = "zero" if tx.bad_solution_count() == 0 else "some"
            except Exception as e:
                res, info = "raised", type(e).__name__ + ":" + str(e)[:80]      # no step of the spec has this result
            after = D.project_tx(tx)
            ev.append({"call": call, "result": res, "info": info, "after": after, "unspents": D.project_unspents(tx)})
        traces.append({"sym": sym, "tx": p, "ev": ev})
    return traces


def _after_json(e, p):
    """the projection after the call, in the value encoding of TxCheck (signed values)"""
    a = e["after"]
    if e["unspents"] != ():
        a = (a[0], a[1], a[2] + ((0, b"unspents-appeared"),), a[3])      # a visible change of state
    return _tx_json(a)


def _trace_json(tr):
    return {"coin": tr["sym"], "tx": _tx_json(tr["tx"]),
            "ev": [{"call": e["call"], "result": e["result"], "after": _after_json(e, tr["tx"])} for e in tr["ev"]]}


def validate_traces(ctx, tjson):
    """-> {index: number of events matched} for traces that were not fully accepted"""
    fd, path = tempfile.mkstemp(prefix="vf-c20-traces-", suffix=".json")
    with os.fdopen(fd, "w") as f:
        json.dump(tjson, f)
    try:
        r = ctx.tlc("Trace_TxCheck", "Trace_TxCheck", workers=4, env={"TRACE_FILE": path}, count=False, timeout=3000)
    finally:
        os.unlink(path)
    loaded = [rec["n"] for rec in r.records if rec.get("k") == "loaded"]
    if not r.ok or loaded != [len(tjson)]:
        raise MachineryError("trace run inconsistent (sent %d traces, TLC loaded %s): %s" % (len(tjson), loaded, r.raw_tail[-5:]))
    prog = {}
    done = set()
    for rec in r.records:
        if rec.get("k") == "prog":
            i = rec["tid"] - 1
            prog[i] = max(prog.get(i, 0), rec["l"])
            if rec["done"]:
                done.add(i)
    return {i: prog.get(i, 0) for i in range(len(tjson)) if i not in done}


def _coarse(cls):
    return "|".join(f for f in cls.split("|") if f.split("=")[0] in ("ins", "outpoints", "script0", "dup", "outs"))


def _traces(ctx):
    n = 600 if ctx.quick else 6000
    trs = record_traces(ctx.seed * 7919 + 20, n)
    # the same object edited between the calls (the HISTORY dimension)
    trs += record_traces(ctx.seed * 7919 + 21, n // 2, edits=True)
    tj = [_trace_json(t) for t in trs]
    rejected = set()
    for a in range(0, len(tj), 1500):
        b = min(len(tj), a + 1500)
        bad = validate_traces(ctx, tj[a:b])
        rejected |= {a + i for i in bad}
        ctx.traces += (b - a) - len(bad)
        ctx.case(None, sum(len(t["ev"]) for t in trs[a:b]))
        for i, matched in sorted(bad.items()):
            t = trs[a + i]
            e = t["ev"][matched]
            rec = {"maxmoney": D.limbs(MAXM[t["sym"]], 4), "total": 0, "stripped": 0}
            cur = t["ev"][matched - 1]["after"] if matched else t["tx"]       # the fields the failing call saw
            cls = D.chk_class(rec, cur)
            hist = "|after=" + ",".join(x["call"] for x in t["ev"][:matched])[-40:] if any(x["call"] == "edit" for x in t["ev"][:matched]) else ""
            ctx.fail("C20|trace|%s|%s%s|result=%s" % (e["call"], _coarse(cls), hist, e["result"]),
                     "recorded %s run is not a behaviour of TxCheck: call #%d %s() -> %s (%s) on %s" % (
                         t["sym"], matched + 1, e["call"], e["result"], e["info"], cls),
                     {"sym": t["sym"], "tx": D._short(t["tx"]), "events": [{k: D._short(v) for k, v in x.items()} for x in t["ev"]], "failed_at": matched})
    ctx.sample({"trace": {"sym": trs[0]["sym"], "tx": D._short(trs[0]["tx"]), "calls": [(e["call"], e["result"]) for e in trs[0]["ev"]]}})
    for t in trs:
        for e in t["ev"]:
            ctx.action("trace." + e["call"] + "." + e["result"], 1)
    # binding self-test: flip a logged verdict; change a field of a logged after-state.  The trace used is small
    # (far from the size limit), so the property is not silent on it and the flipped verdict must be refused.
    good = [i for i, t in enumerate(trs) if i not in rejected and t["ev"][0]["call"] == "check" and t["tx"][2]
            and sum(len(x[2]) + sum(map(len, x[4])) for x in t["tx"][1]) < 5000][:1]
    if not good:
        raise MachineryError("no accepted small trace starting with check()")
    g = tj[good[0]]
    bad1 = copy.deepcopy(g)
    bad1["ev"][0]["result"] = "accept" if g["ev"][0]["result"] == "reject" else "reject"
    bad2 = copy.deepcopy(g)
    bad2["ev"][-1]["after"]["lock"][0] ^= 1
    bad = validate_traces(ctx, [g, bad1, bad2])
    _selftest(ctx, "trace_rejects_corrupted_field", set(bad) == {1, 2})


def _selftest(ctx, name, ok):
    """a binding self-test runs a corrupted case through the real implementation; if the implementation is
    already known to misbehave in this run (a violation was reported) a failed self-test is inconclusive,
    not a machinery failure - the run must still end with exit 1"""
    if ok or not ctx.violations:
        ctx.selftest(name, ok)
    else:
        ctx.selftests[name] = "inconclusive (violations reported; the implementation misbehaves on the self-test case)"


def run(ctx):
    q = ctx.quick
    only = getattr(ctx, "only", None)
    ctx.rule = ("replay: every transaction of MC_TxCheckReplay's grid (all sequences of <= 3 outputs over the value classes around the cap; "
                "all sequences of <= 3 inputs over 6 outpoint kinds, coinbase-script lengths, sizes around 1,000,000) on BTC and GRS; "
                "distinct_nontrivial = distinct (coin, demanded verdict, feature class, defect set)")
    ctx.assumptions += ["coinbase / null outpoint as Bitcoin defines them: one input whose outpoint is (32 zero bytes, 2^32-1)",
                        "any exception out of check() counts as a rejection (ValidationFailureError is the documented one; others are reported)",
                        "what is_coinbase() answers on a non-coinbase transaction is recorded, not judged",
                        "TLC/SANY, CPython"]
    if not only or "replay" in only:
        # (TLC evaluates the case grid once per worker: a few workers are faster than many here)
        first = _replay(ctx, "MC_TxCheckReplay_q" if q else "MC_TxCheckReplay_t", 4 if q else 8)
        # binding self-test: an "accept" case presented as "reject" (and vice versa) must be noticed
        bad = copy.deepcopy(first)
        bad["verdict"] = "reject"
        f0 = {x[0] for x in D.check_chk_record(first) if x[0] != "OBS"}
        f1 = {x[0] for x in D.check_chk_record(bad) if x[0] != "OBS"}
        _selftest(ctx, "replay_rejects_corrupted_verdict", f0 != f1 and any("|check|" in k for k in f0 ^ f1))
    if not only or "history" in only:
        _history(ctx, "MC_TxCheckHistory_q" if q else "MC_TxCheckHistory_t", 4 if q else 8)
    if not only or "traces" in only:
        _traces(ctx)
    ctx.exhaustive = True


def replay(ctx, obj):
    """./check C20 --replay FILE : re-run exactly the failing case recorded in a replay file"""
    d = obj.get("detail") or {}
    case = d.get("case")
    if not case:
        print(json.dumps(obj, indent=1)[:4000])
        print("(a recorded trace, not an enumerated case: the record above is the failing run)")
        return
    fails = [x for x in D.check_chk_record(case) if x[0] != "OBS"]
    print("case: %s" % json.dumps(case)[:3000])
    for key, what, detail in fails:
        print("  disagreement: %s\n    %s" % (key, what))
        ctx.fail(key, what, detail)
    if not fails:
        print("  the implementation now agrees with the specification on this case")
