"""X08 - the signing solver is sound for every script (extension specification).

spec/X08_Solve.tla        token scripts + toy interpretation run by ScriptVM.tla (C03), the constraint language and its
                          denotation, the tracer (symbolic run), producible items / solvability / outcome classes
spec/X08_MC_Solve.tla     bounded grammar of scripts; lemmas TraceSound / TraceExact on every stack of the script's value
                          domain; export of every script with the solvability of each supply class
spec/X08_Policy.tla       the judge's flag sets, from Signer.tla (C05)
spec/X08_Trace_Solve.tla  recorded determine_constraints / Tx.sign calls: constraints implied by the script, outcome allowed

Stages (./check X08 --only a,b): model, replay, random, selftest.  The judge of "the interpreter accepts" is the consensus
specification of C03 (MC_ScriptRun through vf.scriptrun.spec_run), never pycoin's own validator.
"""
from __future__ import annotations

import collections
import copy
import json
import os
import random
import tempfile
import threading

from vf.ctx import MachineryError, ROOT
from vf.drv import x08_solve as X
from vf.par import pmap, split
from vf.scriptrun import spec_run

PID = "X08"
FINDINGS = os.environ.get("X08_FINDINGS") or os.path.join(ROOT, "ext", "X08_findings.json")
WORKERS = int(os.environ.get("X08_WORKERS", "16"))
# standard-flag rules whose verdict does not depend on the unlocking data a solver chooses (the toy model does not carry them)
FREE_POLICY = ("MINIMALIF", "DISCOURAGE_UPGRADABLE_WITNESS_PROGRAM", "DISCOURAGE_UPGRADABLE_NOPS", "WITNESS_PUBKEYTYPE", "PUBKEYTYPE")


def _only(ctx, name):
    return getattr(ctx, "only", None) is None or name in ctx.only


def _wrap_fail(ctx):
    known = {}
    if os.path.exists(FINDINGS):
        for e in json.load(open(FINDINGS))["findings"]:
            if e.get("property") == PID and e.get("status") == "known":
                known[e["key"]] = e
    real = ctx.fail

    def fail(key, what, detail=None):
        if key in known:
            if key not in ctx.known_seen:
                ctx.known_seen[key] = what
                print("KNOWN-FINDING: property=%s %s [%s]" % (PID, known[key].get("what", what), key), flush=True)
            return False
        return real(key, what, detail)
    ctx.fail = fail
    return known


# ------------------------------------------------------------------ model + export
def stage_model(ctx):
    cfg = "X08_MC_Solve_" + ("quick" if ctx.quick else "thorough")
    if os.environ.get("X08_DEV"):
        cfg = "X08_MC_Solve_dev"
    r = ctx.tlc("X08_MC_Solve", cfg, workers=min(WORKERS, 16), timeout=3000)
    recs = r.by_kind("case")
    hdr = r.by_kind("hdr")
    if not hdr or hdr[0]["n"] != len(recs):
        raise MachineryError("X08_MC_Solve: header says %s scripts, %d exported" % (hdr and hdr[0]["n"], len(recs)))
    bad = [x for x in recs if not (x["sound"] and x["exact"]) or x["need"]]
    if bad:
        raise MachineryError("X08_Solve: tracer lemma fails on %s" % bad[0]["toks"])
    policy = {p["coin"]: p for p in r.by_kind("policy")}
    if set(policy) != set(X.COINS):
        raise MachineryError("X08_MC_Solve: policy records for %s" % sorted(policy))
    recs.sort(key=lambda x: x["id"])
    ctx.extra["scripts_enumerated"] = len(recs)
    ctx.extra["scripts_tracer_gave_up"] = sum(1 for x in recs if x["stuck"])
    ctx.extra["scripts_solvable_with_all_keys"] = sum(1 for x in recs if any(s["solv"] for s in x["sup"]))
    ctx.extra["accepting_stacks_examined"] = sum(x["nacc"] for x in recs)
    ctx.log("model: %d scripts, lemmas TraceSound/TraceExact hold on all; %d solvable with some supply, %d where the tracer gives up" % (
        len(recs), ctx.extra["scripts_solvable_with_all_keys"], ctx.extra["scripts_tracer_gave_up"]))
    return recs, policy


def expand(recs, policy, quick, seed):
    """script records -> cases (script x supply x wrapping x coin); quick: wrappings / coins rotate over the cases"""
    cases = []
    rot = 0          # the enumerated part is the same in every run; the seed drives the random scripts
    for rec in recs:
        for j, s in enumerate(rec["sup"]):
            if quick and not rec.get("full"):
                combos = [(X.WRAPS[(rec["id"] + j + rot) % 4], X.COINS[(rec["id"] // 4 + j + rot) % 3])]
                if s["solv"] and (rec["id"] + j) % 3 == 0:
                    combos.append((X.WRAPS[(rec["id"] + j + rot + 2) % 4], "BTC"))
            elif rec.get("full"):
                combos = [(w, c) for w in X.WRAPS for c in X.COINS]
            else:
                # thorough: three of the twelve wrapping x coin combinations per case, all twelve over four neighbouring cases
                allc = [(w, c) for w in X.WRAPS for c in X.COINS]
                combos = [allc[(3 * (rec["id"] + j) + t) % 12] for t in range(3)]
            seen = set()
            for w, c in combos:
                if not policy[c]["witness"] and w in ("p2wsh", "p2sh-p2wsh"):
                    w = "p2sh" if w == "p2sh-p2wsh" else "bare"
                if (w, c) in seen:
                    continue
                seen.add((w, c))
                cases.append({"id": rec["id"], "toks": rec["toks"], "wrap": w, "coin": c, "keys": s["keys"], "pre": s["pre"],
                              "extra": (rec["id"] + j) % 2 == 1, "solv": s["solv"], "clean": s["clean"],
                              "deep": rec["deep"], "stuck": rec["stuck"], "n": rec["n"],
                              "cons": (w == "bare" and j == 0) or (rec["id"] + j) % 7 == 0})
    return cases


def _run_chunk(chunk):
    out = []
    for c in chunk:
        try:
            out.append(X.run_case(c, want_constraints=c.get("cons", False), twice=c.get("twice", True)))
        except Exception as e:  # noqa
            import traceback
            out.append({"harness_exc": traceback.format_exc()[-1500:]})
    return out


def _cls(c):
    return "wrap=%s|coin=%s" % (c["wrap"], "forkid" if c["coin"] == "BCH" else "plain")


# opcodes that look INTO a value and have no symbolic form in pycoin's tracer (it runs their concrete implementation)
BLIND = {"PICK", "ADD", "SIZE", "IF", "NOTIF", "IFDUP", "NOT", "DEPTH", "0NOTEQUAL", "BOOLAND", "BOOLOR", "NUMEQUAL", "CLTV", "CSV",
         "VERIFY", "CHECKSIGVERIFY", "CHECKMULTISIGVERIFY", "ELSE", "ENDIF"}


def _blind(c):
    return "script-has-value-inspecting-opcode" if BLIND & set(c["toks"]) else "only-traced-opcodes"


def _desc(c):
    return "script [%s] %s on %s, private keys %s%s%s" % (" ".join(c["toks"]), c["wrap"], c["coin"], c["keys"],
                                                           " + preimage" if c["pre"] else "", " + unrelated key" if c.get("extra") else "")


def judge(ctx, cases, results, policy, label):
    """every clause of the statement on every executed case; returns the (case, result) pairs reported solved"""
    tally = collections.Counter()
    solved = []
    for c, r in zip(cases, results):
        if "harness_exc" in r:
            raise MachineryError("driver failed on %s: %s" % (c, r["harness_exc"]))
        d = {"case": c, "pycoin": {k: v for k, v in r.items() if k not in ("cons",)}}
        ctx.case((label, tuple(c["toks"][:3]), c["wrap"], c["coin"], bool(r.get("ok")), r.get("solve")))
        if "sign_exc" in r:
            ctx.fail("X08|sign|exception=%s|site=%s" % r["sign_exc"][:2],
                     "Tx.sign lets %s escape (%s): %s" % (r["sign_exc"][0], r["sign_exc"][2], _desc(c)), d)
            tally["sign-exception"] += 1
        if "report_exc" in r:
            ctx.fail("X08|report-after-sign|exception=%s|site=%s" % r["report_exc"][:2],
                     "after Tx.sign, is_solution_ok / bad_solution_count raise %s: %s" % (r["report_exc"][2], _desc(c)), d)
        elif r.get("bad") != (0 if r["ok"] else 1) + 1:
            ctx.fail("X08|report|bad_solution_count=%s|is_solution_ok=%s" % (r.get("bad"), r["ok"]),
                     "bad_solution_count() does not count the unsolved inputs (input 1 is never signed): %s" % _desc(c), d)
        if "ser_exc" in r:
            ctx.fail("X08|serialise-after-sign|exception=%s|site=%s" % r["ser_exc"][:2],
                     "after Tx.sign the transaction cannot be serialised (%s): %s" % (r["ser_exc"][2], _desc(c)), d)
        if not r["frame_kept"]:
            ctx.fail("X08|frame|sign-changed-more-than-input-0|" + _cls(c), "Tx.sign(tx_in_idx_set={0}) changed something else: %s" % _desc(c), d)
        if r.get("same_twice") is False:
            ctx.fail("X08|determinism|sign-twice-differs|" + _cls(c), "the same Tx.sign call on equal fresh objects gives other bytes: %s" % _desc(c), d)
        if r["solve"] == "exc":
            ctx.fail("X08|solve|exception=%s|site=%s" % r["solve_exc"][:2],
                     "Solver.solve raises %s instead of SolvingError: %s" % (r["solve_exc"][2], _desc(c)), d)
        if r["solve"] == "returned" and not r["solve_shape_ok"]:
            ctx.fail("X08|solve|returns-unlocking-data-with-holes|wrap=%s" % c["wrap"],
                     "Solver.solve returns unlocking data that is not bytes throughout (None for an unsolved item): %s" % _desc(c), d)
        if not r["solve_pure"]:
            ctx.fail("X08|solve|mutates-transaction", "Solver.solve changed the transaction: %s" % _desc(c), d)
        if r.get("cons_problem"):
            ctx.fail("X08|constraints|%s|wrap=%s" % (r["cons_problem"], c["wrap"]), "determine_constraints: %s: %s" % (r["cons_problem"], _desc(c)), d)
        tally["solve-" + r["solve"]] += 1
        if r["solve"] == "skipped":
            continue
        if r.get("ok") and r.get("pre_ok"):
            tally["valid-before-signing (nothing to solve)"] += 1
        elif r.get("ok") and "txhex" in r:
            solved.append((c, r))
            tally["reported-solved"] += 1
        else:
            tally["reported-unsolved"] += 1
            if c["solv"] and not c["deep"] and "sign_exc" not in r:
                tally["solvable-but-pycoin-cannot (allowed)"] += 1
    # the judge: consensus specification on pycoin's unlocking data, under three flag sets: the one pycoin's report uses,
    # the rules every block obeys, the standard (relay) rules
    jc = []
    for c, r in solved:
        pol = set(policy[c["coin"]]["flags"])
        wit = c["wrap"] in ("p2wsh", "p2sh-p2wsh")
        if not wit and not c["clean"]:
            pol -= {"CLEANSTACK"}      # no producible solution leaves a clean stack: the policy rule cannot be met by anybody
        jc.append(X.spend_case(c["coin"], r, policy[c["coin"]]["report"], "report"))
        jc.append(X.spend_case(c["coin"], r, policy[c["coin"]]["consensus"], "consensus"))
        jc.append(X.spend_case(c["coin"], r, pol, "policy"))
    if jc:
        res = spec_run(ctx, jc, X.sig_oracle, workers=min(WORKERS, 16), label=label)
        for i, (c, r) in enumerate(solved):
            rep, con, polr = res[3 * i], res[3 * i + 1], res[3 * i + 2]
            d = {"case": c, "pycoin": {k: v for k, v in r.items() if k != "cons"}, "spec_report_flags": [rep["status"], rep["err"]],
                 "spec_consensus_flags": [con["status"], con["err"]], "spec_policy_flags": [polr["status"], polr["err"]],
                 "policy_flags": jc[3 * i + 2]["flags"]}
            ctx.replayed += 1
            wcls = "witness" if c["wrap"] in ("p2wsh", "p2sh-p2wsh") else "base"
            if rep["status"] != "ok":
                # pycoin's validator and the consensus specification disagree under the same flags: C03's subject
                tally["OUT-OF-SCOPE validator-vs-consensus (C03)"] += 1
                print("NOTE X08: pycoin's validator accepts what the consensus specification rejects under P2SH+WITNESS (%s): %s "
                      "- subject of C03, not counted here" % (rep["err"], _desc(c)), flush=True)
                continue
            if con["status"] != "ok":
                ctx.fail("X08|reported-solved|consensus-rejects|rule=%s" % con["err"],
                         "Tx.sign reports the input solved (is_solution_ok, bad_solution_count), no block may contain the spend (%s): %s" % (
                             con["err"], _desc(c)), d)
                tally["solved-but-consensus-invalid"] += 1
                continue
            if polr["status"] != "ok" and (polr["err"] in FREE_POLICY or (not c["solv"] and not c["deep"])):
                # rules no unlocking data can satisfy for this script (decided inside the script itself, or X08_Solve knows
                # no producible stack that meets NULLDUMMY / NULLFAIL / MINIMALDATA): nobody could do better
                tally["solved, consensus-valid, no standard solution exists (allowed)"] += 1
                continue
            if polr["status"] != "ok":
                ctx.fail("X08|reported-solved|standard-flags-reject|rule=%s|%s" % (polr["err"], wcls),
                         "Tx.sign reports the input solved, the unlocking data fails the standard verification flags (%s): %s" % (
                             polr["err"], _desc(c)), d)
                tally["solved-but-not-standard"] += 1
                continue
            tally["solved-and-valid"] += 1
            if not c["solv"] and not c["deep"]:
                raise MachineryError("X08_Solve says %s is not solvable with this supply, the consensus specification accepts pycoin's solution: %s" % (
                    c["toks"], d))
    return tally, solved


# ------------------------------------------------------------------ code -> spec
def validate_traces(ctx, evs):
    """-> list of verdict records aligned with evs"""
    out = [None] * len(evs)
    for lo in range(0, len(evs), 3000):
        part = evs[lo:lo + 3000]
        fd, path = tempfile.mkstemp(prefix="vf-x08-traces-", suffix=".json")
        with os.fdopen(fd, "w") as f:
            json.dump(part, f)
        try:
            r = ctx.tlc("X08_Trace_Solve", "X08_Trace_Solve", workers=min(WORKERS, 8), env={"TRACE_FILE": path}, count=False, timeout=3000)
        finally:
            os.unlink(path)
        hdr = r.by_kind("hdr")
        if not hdr or hdr[0]["n"] != len(part):
            raise MachineryError("X08_Trace_Solve loaded %s events, %d sent" % (hdr and hdr[0]["n"], len(part)))
        for v in r.by_kind("tv"):
            out[lo + v["tid"] - 1] = v
    if any(v is None for v in out):
        raise MachineryError("X08_Trace_Solve: %d events without a verdict" % sum(v is None for v in out))
    return out


def events_of(cases, results):
    evs, idx = [], []
    for i, (c, r) in enumerate(zip(cases, results)):
        if "cons" not in r or r.get("cons_problem"):
            continue
        evs.append({"toks": c["toks"], "keys": c["keys"], "pre": c["pre"], "cons": r["cons"], "maxatom": r["cons_maxatom"],
                    "outcome": "solved" if r.get("ok") else "cannot", "wrap": c["wrap"]})
        idx.append(i)
    return evs, idx


def check_traces(ctx, cases, results, label):
    evs, idx = events_of(cases, results)
    if not evs:
        return 0
    vs = validate_traces(ctx, evs)
    acc = 0
    for e, i, v in zip(evs, idx, vs):
        c, r = cases[i], results[i]
        if v["deep"]:
            continue
        okc = v["badc"] == 0
        if not okc:
            bc = e["cons"][v["badc"] - 1]
            kind = bc["t"]["k"] if "t" in bc else bc["c"]
            ctx.fail("X08|constraints|not-implied-by-the-script|kind=%s|%s" % (kind, _blind(c)),
                     "determine_constraints reports a constraint that an accepting stack of the script violates (constraint %d = %s): %s" % (
                         v["badc"], json.dumps(bc), _desc(c)), {"case": c, "event": e, "verdict": v})
        # an outcome 'solved' the spec forbids is failed by the judge on the real bytes (or is a machinery error there)
        if okc and v["outcomeOk"]:
            acc += 1
    ctx.traces += acc
    ctx.action(label + ".traces", len(evs))
    return len(evs)


# ------------------------------------------------------------------ stages
def stage_replay(ctx, recs, policy):
    cases = expand(recs, policy, ctx.quick, ctx.seed)
    res = [x for ch in pmap(_run_chunk, split(cases, 64)) for x in ch]
    tally, solved = judge(ctx, cases, res, policy, "replay")
    ctx.action("replay.cases", len(cases))
    n = check_traces(ctx, cases, res, "replay")
    ctx.extra["replay_tally"] = dict(tally)
    ctx.extra["replay_constraint_lists_validated"] = n
    ctx.log("replay: %d cases; %s; %d constraint lists validated by TLC" % (len(cases), dict(tally), n))
    if solved:
        c, r = solved[len(solved) // 2]
        ctx.sample({"script": c["toks"], "wrap": c["wrap"], "coin": c["coin"], "keys": c["keys"], "unlocking": r["unlock"]})
    return cases, res


RANDOM_TOKS = (["K1", "K2", "HK1", "HP1", "SP1", "0", "1", "2", "DUP", "DROP", "SWAP", "OVER", "2DUP", "NIP", "TUCK", "ROT", "IFDUP", "SIZE",
                "DEPTH", "NOT", "VERIFY", "EQUAL", "EQUALVERIFY", "HASH160", "SHA256", "CHECKSIG", "CHECKSIGVERIFY", "CHECKMULTISIG",
                "CHECKMULTISIGVERIFY", "IF", "NOTIF", "ELSE", "ENDIF", "CLTV", "CSV", "TOALT", "FROMALT", "ADD", "NOP", "0NOTEQUAL",
                "BOOLAND", "BOOLOR", "2DROP", "PICK", "HASH256", "RIPEMD160", "NUMEQUAL"])
RANDOM_FRAGS = [["K1", "CHECKSIG"], ["K2", "CHECKSIGVERIFY"], ["DUP", "HASH160", "HK1", "EQUALVERIFY", "CHECKSIG"],
                ["1", "K1", "K2", "2", "CHECKMULTISIG"], ["2", "K1", "K2", "2", "CHECKMULTISIGVERIFY"], ["HASH160", "HP1", "EQUALVERIFY"],
                ["SHA256", "SP1", "EQUAL"], ["1", "CLTV", "DROP"], ["IF"], ["ELSE"], ["ENDIF"], ["NOTIF"]]


def random_scripts(seed, n):
    rnd = random.Random(("x08", seed).__repr__())
    out = []
    for i in range(n):
        toks = []
        for _ in range(rnd.randrange(1, 6)):
            if rnd.random() < 0.45:
                toks += rnd.choice(RANDOM_FRAGS)
            else:
                toks.append(rnd.choice(RANDOM_TOKS))
        if toks.count("IF") + toks.count("NOTIF") > toks.count("ENDIF") and rnd.random() < 0.8:
            toks += ["ENDIF"] * (toks.count("IF") + toks.count("NOTIF") - toks.count("ENDIF"))
        toks = toks[:12]
        ks = sorted({int(t[-1]) for t in toks if t in ("K1", "K2", "HK1")})
        keys = [k for k in ks if rnd.random() < 0.7]
        out.append({"id": i, "toks": toks, "wrap": rnd.choice(X.WRAPS), "coin": rnd.choice(X.COINS), "keys": keys,
                    "pre": rnd.random() < 0.6 and any(t in ("HP1", "SP1") for t in toks), "extra": rnd.random() < 0.5, "cons": True,
                    "twice": i % 4 == 0})
    return out


def stage_random(ctx, policy):
    """seeded random scripts from a wider grammar (longer, every opcode of the token language): the same clauses, with TLC
    computing the accepted stacks / solvability per recorded call"""
    n = 1500 if ctx.quick else 12000
    cases = random_scripts(ctx.seed, n)
    for c in cases:
        if not policy[c["coin"]]["witness"] and c["wrap"] in ("p2wsh", "p2sh-p2wsh"):
            c["wrap"] = "p2sh"
    res = [x for ch in pmap(_run_chunk, split(cases, 64)) for x in ch]
    # solvability of these comes from the trace spec (one TLC pass), then the judge
    evs = [{"toks": c["toks"], "keys": c["keys"], "pre": c["pre"], "cons": r.get("cons") if not r.get("cons_problem") and "cons" in r else [],
            "maxatom": r.get("cons_maxatom", -1) if "cons" in r and not r.get("cons_problem") else -1,
            "outcome": "solved" if r.get("ok") else "cannot"} for c, r in zip(cases, res)]
    vs = validate_traces(ctx, evs)
    for c, v in zip(cases, vs):
        c["solv"], c["clean"], c["deep"] = v["solv"], v["clean"], v["deep"]
    tally, solved = judge(ctx, cases, res, policy, "random")
    acc = 0
    for c, r, e, v in zip(cases, res, evs, vs):
        if v["deep"]:
            continue
        if v["badc"]:
            bc = e["cons"][v["badc"] - 1]
            kind = bc["t"]["k"] if "t" in bc else bc["c"]
            ctx.fail("X08|constraints|not-implied-by-the-script|kind=%s|%s" % (kind, _blind(c)),
                     "determine_constraints reports a constraint that an accepting stack of the script violates (constraint %d = %s): %s" % (
                         v["badc"], json.dumps(bc), _desc(c)), {"case": c, "event": e, "verdict": v})
        else:
            acc += 1
    ctx.traces += acc
    ctx.action("random.cases", len(cases))
    ctx.extra["random_tally"] = dict(tally)
    ctx.log("random: %d scripts; %s; %d recorded calls accepted by TLC" % (len(cases), dict(tally), acc))
    return cases, res, evs


def stage_selftest(ctx, policy, cases, res):
    # (1) model: a tracer that numbers the unknowns the other way round violates the lemmas
    r = ctx.tlc("X08_MC_Solve", "X08_MC_Solve_bad_fill", workers=4, expect_ok=False, count=False, timeout=1200)
    ctx.selftest("model_rejects_tracer_with_reversed_atom_numbering", r.violated is not None)
    r = ctx.tlc("X08_MC_Solve", "X08_MC_Solve_bad_nullfail", workers=4, expect_ok=False, count=False, timeout=1200)
    ctx.selftest("model_rejects_tracer_without_the_nullfail_side_condition", r.violated is not None)
    # (2) replay binding: a canned observation "reported solved" with a corrupted signature must be failed by the judge
    base = next(((c, r_) for c, r_ in zip(cases, res) if r_.get("ok") and c["wrap"] == "bare" and c["toks"] == ["K1", "CHECKSIG"] and c["coin"] == "BTC"), None)
    if base is None:
        canned = {"id": 0, "toks": ["K1", "CHECKSIG"], "wrap": "bare", "coin": "BTC", "keys": [1], "pre": False, "extra": False,
                  "solv": True, "clean": True, "deep": False}
        base = (canned, X.run_case(canned))
    c, r0 = copy.deepcopy(base)
    N = X.network("BTC")
    tx = N.tx.from_hex(r0["txhex"])
    from vf.drv import script as SC
    blob = [d for op, d, pc, npc in N.script.get_opcodes(tx.txs_in[0].script) if d][0]
    r_, s_ = SC.parse_der_lax(blob[:-1])
    hi = SC.der_sig(r_, SC.N - s_, blob[-1])          # the same signature with the high S value: consensus-valid, not standard
    tx.txs_in[0].script = SC.push_enc(hi)
    r0["txhex"] = tx.as_hex()
    sub = _Sub(ctx)
    tl, _ = judge(sub, [c], [r0], policy, "selftest")
    ctx.selftest("judge_rejects_high_s_signature_reported_solved", any(k.startswith("X08|reported-solved|standard-flags-reject|rule=SIG_HIGH_S") for k in sub.keys))
    c2, r2 = copy.deepcopy(base)
    c2["solv"] = False
    try:
        judge(_Sub(ctx), [c2], [r2], policy, "selftest")
        ctx.selftest("expected_class_cannot_is_binding", False)
    except MachineryError:
        ctx.selftest("expected_class_cannot_is_binding", True)
    # (3) trace binding: a constraint naming the other key / an outcome the spec forbids must be rejected
    ev = {"toks": ["K1", "CHECKSIG"], "keys": [1], "pre": False, "maxatom": 0, "outcome": "solved",
          "cons": [{"c": "true", "t": {"k": "sigok", "keys": [{"k": "tok", "v": "K1"}], "sigs": [{"k": "atom", "i": 0}]}}]}
    e2 = copy.deepcopy(ev)
    e2["cons"][0]["t"]["keys"][0]["v"] = "K2"
    e3 = copy.deepcopy(ev)
    e3["keys"] = []
    vs = validate_traces(ctx, [ev, e2, e3])
    ctx.selftest("trace_accepts_true_constraint", vs[0]["badc"] == 0 and vs[0]["outcomeOk"])
    ctx.selftest("trace_rejects_constraint_on_other_key", vs[1]["badc"] == 1)
    ctx.selftest("trace_rejects_solved_without_the_key", not vs[2]["outcomeOk"])


class _Sub:
    """a stand-in context that collects failure keys (self-tests must not count as violations)"""

    def __init__(self, ctx):
        self.ctx = ctx
        self.keys = []
        self.replayed = 0
        self.known_seen = {}

    def fail(self, key, what, detail=None):
        self.keys.append(key)

    def case(self, *a, **k):
        pass

    def tlc(self, *a, **k):
        k["count"] = False
        return self.ctx.tlc(*a, **k)


def run(ctx):
    _wrap_fail(ctx)
    ctx.rule = ("cases = (script of the bounded grammar enumerated by TLC or seeded random script) x supply of keys / preimage x wrapping x coin, "
                "each executed on Tx.sign, Solver.solve and determine_constraints; distinct_nontrivial counts distinct (stage, first tokens, "
                "wrapping, coin, reported solved, solve outcome) classes")
    ctx.assumptions += [
        "the judge of 'the interpreter accepts' is the consensus specification of C03 (ScriptVM / VerifyScript through MC_ScriptRun); "
        "ECDSA verification and signature digests inside its signature oracle come from pycoin (C01 / C04)",
        "the model abstracts signatures / hashes to a toy algebra (signature i verifies for key i, injective tagged hash); its verdict "
        "'not solvable' is cross-checked against the consensus specification on the real bytes whenever pycoin claims a solution",
        "IS_PUBKEY / IS_SIGNATURE are annotations without a denotation; a constraint is judged on accepting stacks deep enough to carry every unknown it names",
    ]
    ctx.exhaustive = False
    recs, policy = stage_model(ctx)
    cases, res = [], []
    if _only(ctx, "replay"):
        cases, res = stage_replay(ctx, recs, policy)
    if _only(ctx, "random"):
        stage_random(ctx, policy)
    if _only(ctx, "selftest"):
        stage_selftest(ctx, policy, cases, res)
