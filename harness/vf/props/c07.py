"""C07 - transactions round-trip through the wire format and have stable ids.

1. TLC checks the lemmas of spec/Bytes.tla (compact-size parser as a state machine, run-length
   byte strings, limb arithmetic) and, in every state of the replay runs below, the round-trip
   lemmas of spec/TxWire.tla + TxParse.tla and spec/Spendable.tla.
2. fidelity: the real transactions of tests/btc/data/tx_valid.json (and one with a known id)
   are parsed and re-serialised by the SPEC (Trace_TxWire, TLC) and must come back byte for
   byte, with the outpoints the vector lists - before the spec judges pycoin.
3. spec -> code: every case printed by MC_TxWireReplay / MC_SpendableReplay is executed on
   pycoin (BTC and LTC): bytes, hex, parsed fields, re-serialisation, ids, unspents extension,
   spendable text / dict / binary forms; every history printed by MC_TxWireHistory (ids and bytes
   asked between edits of the fields) on one long-lived object and on fresh ones.
4. code -> spec: seeded random transactions (sizes and counts beyond the grid) are serialised,
   parsed and hashed by pycoin; the log is validated by TLC against Trace_TxWire.
"""
from __future__ import annotations

import copy
import json
import os
import random
import re
import tempfile

from ..ctx import MachineryError, REPO
from ..drv import txwire as D
from ..par import NPROC

SYMS = ("BTC", "LTC")


def _replay(ctx, module, cfg, fname, syms, workers, kind):
    rp = D.StreamReplayer(fname, syms, NPROC)
    first = []
    seen = set()

    def on(rec):
        if rec.get("k") != kind:
            return
        if not first:
            first.append(rec)
        if rp.records % 997 == 0:
            ctx.sample({"case": _brief(rec)})
        rp.feed(rec)
        _count_class(ctx, rec)
        if kind == "tx":
            seen.add((rec["mode"], rec["bip144"]))
            ctx.action("case.%s.%s" % (rec["mode"], "bip144" if rec["bip144"] else "legacy"), 1)
    r = ctx.tlc(module, cfg, workers=workers, on_record=on, keep_records=False, timeout=3000)
    fails = rp.finish()
    ctx.log("%s/%s: %d cases from TLC, %d executions on pycoin, %d disagreements" % (module, cfg, rp.records, rp.executed, len(fails)))
    if rp.records == 0:
        raise MachineryError("%s/%s printed no case" % (module, cfg))
    if kind == "tx" and seen != {(m, b) for m in ("wire", "noseg", "ext", "ltcmweb") for b in (False, True)}:
        raise MachineryError("vacuous replay: (mode, BIP144) classes seen: %s" % sorted(seen))
    ctx.replayed += rp.records
    ctx.case(None, rp.executed)
    ctx.action("replay." + cfg, rp.records)
    for key, what, detail in fails:
        ctx.fail(key, what, detail)
    return first[0], r


def _brief(rec):
    s = json.dumps(rec)
    return rec if len(s) < 1500 else {"k": rec.get("k"), "mode": rec.get("mode"), "truncated": s[:1200]}


def _count_class(ctx, rec):
    if rec["k"] == "tx":
        t = rec["tx"]
        ins = D.seq(t["ins"])
        key = ("tx", rec["mode"], rec["bip144"], min(len(ins), 4), min(len(D.seq(t["outs"])), 4),
               tuple(sorted({D.lenclass(len(D.expand(i["script"]))) for i in ins})),
               tuple(sorted({len(D.seq(i["wit"])) for i in ins}))[:3])
        ctx.case(key, 0)
    elif rec["k"] == "whist":
        ctx.case(("whist", len(D.seq(rec["start"]["ins"])), tuple(a["op"] for a in rec["acts"])), 0)
    else:
        s = rec["s"]
        ctx.case(("sp", tuple(s["amount"]), D.lenclass(len(D.expand(s["script"]))), tuple(s["bia"]), s["spent"]), 0)


# ---------------------------------------------------------------- traces

def _abs_to_json(p):
    """plain projection -> the JSON shape Trace_TxWire reads (numbers as limbs, bytes as runs)"""
    return {"version": D.limbs(p[0], 2), "lock": D.limbs(p[3], 2),
            "ins": [{"hash": D.rle(i[0]), "index": D.limbs(i[1], 2), "script": D.rle(i[2]), "seq": D.limbs(i[3], 2),
                     "wit": [D.rle(w) for w in i[4]]} for i in p[1]],
            "outs": [{"amount": D.limbs(o[0], 4), "script": D.rle(o[1])} for o in p[2]]}


def _rand_bytes(rnd, n):
    """content is opaque to the codec; few runs keep the byte strings short for TLC (the spec walks runs),
    a short fully random string now and then keeps it honest"""
    if n == 0:
        return b""
    if n <= 24 and rnd.random() < 0.5:
        return bytes(rnd.randrange(256) for _ in range(n))
    out = b""
    while len(out) < n:
        k = min(n - len(out), rnd.choice([1, 1, 2, 3, 40, 300, 70000, n, n]))
        out += bytes([rnd.choice([0, 1, 0xfc, 0xfd, 0xfe, 0xff, rnd.randrange(256)])]) * k
    return out


def _rand_len(rnd, big):
    r = rnd.random()
    if r < 0.25:
        return rnd.choice([0, 1, 2, 0xfb, 0xfc, 0xfd, 0xfe, 0xff, 0x100])
    if r < 0.85:
        return rnd.randrange(0, 120)
    if big and r < 0.95:
        return rnd.choice([0xfffe, 0xffff, 0x10000, 0x10001, 100000 + rnd.randrange(1000)])
    return rnd.randrange(0, 600)


def _rand_u(rnd, bits):
    r = rnd.random()
    if r < 0.4:
        e = rnd.randrange(0, bits + 1)
        return max(0, min((1 << bits) - 1, (1 << e) + rnd.choice([-1, 0, 1])))
    return rnd.getrandbits(bits)


def _rand_tx(rnd, big):
    r = rnd.random()
    nin = 1 + (rnd.randrange(0, 6) if r < 0.85 else rnd.choice([251, 252, 253, 254, 260]) if big else rnd.randrange(0, 12))
    r = rnd.random()
    nout = rnd.randrange(0, 6) if r < 0.85 else (rnd.choice([252, 253, 254]) if big else rnd.randrange(0, 12))
    many = nin > 20 or nout > 20
    segwit = rnd.random() < 0.6
    ins = []
    for i in range(nin):
        h = bytes([rnd.randrange(256)]) * 32 if rnd.random() < 0.7 or many else bytes(rnd.randrange(256) for _ in range(32))
        wit = ()
        if segwit and rnd.random() < 0.6:
            ni = rnd.choice([1, 1, 2, 3, 5]) if rnd.random() < 0.95 or many else rnd.choice([252, 253, 254])
            wit = tuple(_rand_bytes(rnd, _rand_len(rnd, big and not many) if ni < 10 else rnd.randrange(0, 2)) for _ in range(ni))
        ins.append((h, _rand_u(rnd, 32), _rand_bytes(rnd, 0 if many and rnd.random() < 0.7 else _rand_len(rnd, big and not many)),
                    _rand_u(rnd, 32), wit))
    outs = tuple((_rand_u(rnd, 64), _rand_bytes(rnd, 0 if many and rnd.random() < 0.7 else _rand_len(rnd, big and not many)))
                 for _ in range(nout))
    return (_rand_u(rnd, 32), tuple(ins), outs, _rand_u(rnd, 32))


def _rand_edit(rnd, Tx, tx):
    """the owner of the object changes one of its fields (any public attribute, the object's own method,
    or its lists); at least one input stays.  Returns the name of what was changed."""
    nin, nout = len(tx.txs_in), len(tx.txs_out)
    kinds = ["version", "lock_time", "sequence", "in.script", "previous_index", "set_witness", "attr_witness", "clear_witnesses",
             "append_in", "append_out"] + (["amount", "out.script", "pop_out"] if nout else []) + (["pop_in"] if nin > 1 else [])
    kind = rnd.choice(kinds)
    i, o = rnd.randrange(nin), rnd.randrange(nout) if nout else 0
    wit = [_rand_bytes(rnd, rnd.choice([0, 1, 33, 72, 253])) for _ in range(rnd.choice([0, 1, 2, 2]))]
    if kind == "version":
        tx.version = (tx.version + 1 + rnd.randrange(3)) % (1 << 32)
    elif kind == "lock_time":
        tx.lock_time = (tx.lock_time + 1 + rnd.randrange(3)) % (1 << 32)
    elif kind == "sequence":
        tx.txs_in[i].sequence = (tx.txs_in[i].sequence + 1) % (1 << 32)
    elif kind == "in.script":
        tx.txs_in[i].script = tx.txs_in[i].script + b"\x00"
    elif kind == "previous_index":
        tx.txs_in[i].previous_index = (tx.txs_in[i].previous_index + 1) % (1 << 32)
    elif kind == "set_witness":
        tx.set_witness(i, wit)
    elif kind == "attr_witness":
        tx.txs_in[i].witness = wit
    elif kind == "clear_witnesses":
        for t in tx.txs_in:
            t.witness = []
    elif kind == "append_in":
        t = Tx.TxIn(bytes([rnd.randrange(256)]) * 32, rnd.randrange(4), _rand_bytes(rnd, rnd.choice([0, 1, 107])), _rand_u(rnd, 32))
        if rnd.random() < 0.5:
            t.witness = wit
        tx.txs_in.append(t)
    elif kind == "append_out":
        tx.txs_out.append(Tx.TxOut(_rand_u(rnd, 64), _rand_bytes(rnd, rnd.choice([0, 1, 25]))))
    elif kind == "amount":
        tx.txs_out[o].coin_value = (tx.txs_out[o].coin_value + 1) % (1 << 64)
    elif kind == "out.script":
        tx.txs_out[o].script = tx.txs_out[o].script + b"\x51"
    elif kind == "pop_out":
        tx.txs_out.pop(o)
    elif kind == "pop_in":
        tx.txs_in.pop(i)
    return kind


def record_traces(seed, count, big):
    """drive pycoin on random transactions; log what it did (no expectation is computed here).
    -> (events, crashes): a codec that raises on a well-formed transaction is reported by the caller"""
    rnd = random.Random(seed)
    traces = []
    crashes = []
    for t in range(count):
        sym = SYMS[t % 2]
        p = _rand_tx(rnd, big)
        rnd2 = random.Random(rnd.getrandbits(64))      # the choices of one trace do not shift the next
        try:
            traces.append(_record_one(rnd2, sym, p, t))
        except Exception as e:
            crashes.append((sym, p, type(e).__name__, repr(e)[:200]))
    return traces, crashes


def _record_one(rnd, sym, p, t):
    import io
    Tx = D.network(sym).tx
    tx = D.build_tx(Tx, p, "set_witness" if t % 3 else "attr")
    ev = {"sym": sym, "tx": p}
    b = tx.as_bin()
    ev["bytes"] = b
    ev["stripped"] = tx.as_bin(include_witness_data=False)
    ev["hash"] = tx.hash()
    ev["w_hash"] = tx.w_hash()
    ev["id"] = tx.id()
    ev["w_id"] = tx.w_id()
    if sym == "LTC" and rnd.random() < 0.3:
        # Litecoin's MWEB-flagged form: pycoin cannot write it; derive it from the standard bytes (flag bit 3 set,
        # MWEB byte 0 before the lock time).  Trace_TxWire checks that the result is WireLTC(tx, TRUE).
        if b != ev["stripped"]:
            inp = b[:5] + bytes([b[5] | 8]) + b[6:-4] + b"\x00" + b[-4:]
        else:
            inp = b[:4] + b"\x00\x08" + b[4:-4] + b"\x00" + b[-4:]
        t2 = Tx.from_bin(inp) if t % 2 else Tx.parse(io.BytesIO(inp))
        ev.update(kind="ltc", us=None, input=inp, allow=True, parsed=D.project_tx(t2), punspents=D.project_unspents(t2),
                  reser=t2.as_bin())
        return ev
    # the unspents extension on some
    us = None
    if rnd.random() < 0.4:
        us = tuple((max(1, _rand_u(rnd, 64)) if rnd.random() < 0.9 else 0, _rand_bytes(rnd, _rand_len(rnd, False))) for _ in p[1])
        tx.set_unspents([Tx.TxOut(a, s) for a, s in us])
        b = tx.as_bin(include_unspents=True)
    ev["us"] = us
    ev["input"] = b
    allow = True
    if sym == "BTC" and rnd.random() < 0.2 and us is None:
        # legacy parser on the stripped form
        allow = False
        b = ev["stripped"]
        ev["input"] = b
        t2 = Tx.parse(io.BytesIO(b), allow_segwit=False)
    else:
        t2 = Tx.from_bin(b) if t % 2 else Tx.from_hex(b.hex())
    ev["allow"] = allow
    ev["parsed"] = D.project_tx(t2)
    ev["punspents"] = D.project_unspents(t2)
    ev["reser"] = t2.as_bin(include_unspents=True)
    # HISTORY: the object has answered for its bytes and ids; now its owner changes a field and asks again
    if len(p[1]) <= 20 and len(p[2]) <= 20 and rnd.random() < 0.5:
        ev["edit"] = _rand_edit(rnd, Tx, tx)
        ev["tx2"] = D.project_tx(tx)
        ev["w_hash2"], ev["w_id2"], ev["hash2"], ev["id2"] = tx.w_hash(), tx.w_id(), tx.hash(), tx.id()
        ev["bytes2"] = tx.as_bin()
        ev["stripped2"] = tx.as_bin(include_witness_data=False)
    return ev


def _trace_json(ev):
    if ev.get("kind") == "ltcreal":
        return {"kind": "ltcreal", "input": D.rle(ev["input"]), "allow": True, "parsed": _abs_to_json(ev["parsed"])}
    pu = []
    for u in ev["punspents"]:
        pu.append({"none": True, "amount": [0, 0, 0, 0], "script": []} if u is None
                  else {"none": False, "amount": D.limbs(u[0], 4), "script": D.rle(u[1])})
    return {"kind": ev.get("kind", "codec"), "tx": _abs_to_json(ev["tx"]), "bytes": D.rle(ev["bytes"]), "stripped": D.rle(ev["stripped"]),
            "us": [] if ev["us"] is None else [{"amount": D.limbs(a, 4), "script": D.rle(s)} for a, s in ev["us"]],
            "hasus": ev["us"] is not None,
            "input": D.rle(ev["input"]), "allow": ev["allow"],
            "parsed": _abs_to_json(ev["parsed"]), "punspents": pu, "reser": D.rle(ev["reser"]),
            "edited": "edit" in ev, "tx2": _abs_to_json(ev["tx2"]) if "edit" in ev else [],
            "bytes2": D.rle(ev.get("bytes2", b"")), "stripped2": D.rle(ev.get("stripped2", b""))}


def validate_traces(ctx, tjson, workers=1, quiet=False):
    """-> (set of rejected 0-based indices, records printed by the trace spec keyed by tid)"""
    fd, path = tempfile.mkstemp(prefix="vf-c07-traces-", suffix=".json")
    with os.fdopen(fd, "w") as f:
        json.dump(tjson, f)
    try:
        r = ctx.tlc("Trace_TxWire", "Trace_TxWire", workers=workers, env={"TRACE_FILE": path}, count=False, timeout=3000)
    finally:
        os.unlink(path)
    acc = {rec["tid"] - 1: rec for rec in r.records if rec.get("k") == "ids"}
    why = {rec["tid"] - 1: rec for rec in r.records if rec.get("k") == "rej"}
    loaded = [rec["n"] for rec in r.records if rec.get("k") == "loaded"]
    if set(acc) & set(why) or not r.ok or loaded != [len(tjson)] or not set(acc) | set(why) <= set(range(len(tjson))):
        raise MachineryError("trace run inconsistent (sent %d traces, TLC loaded %s): %s" % (len(tjson), loaded, r.raw_tail[-5:]))
    rej = set(range(len(tjson))) - set(acc)
    for i in sorted(rej):
        if not quiet:
            ctx.log("trace %d rejected: %s" % (i, why.get(i, "parser did not terminate")))
    return rej, acc


# ---------------------------------------------------------------- spendable traces

def _chars(t):
    return [ord(c) for c in t]


def _sp_json(p):
    return {"amount": D.limbs(p[0], 4), "script": D.rle(p[1]), "hash": D.rle(p[2]), "index": D.limbs(p[3], 2),
            "bia": D.limbs(p[4], 4), "spent": bool(p[5]), "bis": D.limbs(p[6], 4)}


def _mag(n):
    out = []
    while n:
        out.append(n & 0xFFFF)
        n >>= 16
    return out


def _dict_json(d):
    return {k: (_chars(v) if isinstance(v, str) else _mag(int(v))) for k, v in d.items()}


def record_sp_traces(seed, count):
    """drive pycoin's Spendable codecs on random spendables; every call is logged with what it returned"""
    rnd = random.Random(seed)
    out = []
    for t in range(count):
        Tx = D.network(SYMS[t % 2]).tx
        blk = lambda: rnd.choice([0, 1, 252, 253, 65535, 65536, 2 ** 32 - 1, 2 ** 32, rnd.getrandbits(20), rnd.getrandbits(64)])
        p = (_rand_u(rnd, 64), _rand_bytes(rnd, rnd.choice([0, 1, 2, 25, 34, 107, 252, 253, 254])),
             bytes(rnd.randrange(256) for _ in range(32)) if rnd.random() < 0.8 else bytes([rnd.randrange(256)]) * 32,
             _rand_u(rnd, 32), blk(), rnd.random() < 0.5, blk())
        ev = []

        def call(name, f, arg=None, conv=lambda x: x):
            try:
                r = f()
                ev.append({"call": name, "raised": False, "arg": arg if arg is not None else [], "result": conv(r), "info": ""})
                return r
            except Exception as e:
                ev.append({"call": name, "raised": True, "arg": arg if arg is not None else [], "result": [], "info": type(e).__name__})
                return None
        try:
            s = D.build_sp(Tx, p)
        except Exception as e:
            out.append({"s": p, "ev": [{"call": "build", "raised": True, "arg": [], "result": [], "info": type(e).__name__}]})
            continue
        order = ["text", "dict", "bin"]
        rnd.shuffle(order)
        for form in order:
            if form == "text":
                txt = call("as_text", s.as_text, conv=_chars)
                if txt is not None:
                    call("from_text", lambda: D.project_sp(Tx.Spendable.from_text(txt)), _chars(txt), _sp_json)
            elif form == "dict":
                d = call("as_dict", s.as_dict, conv=_dict_json)
                if d is not None:
                    call("from_dict", lambda: D.project_sp(Tx.Spendable.from_dict(d)), _dict_json(d), _sp_json)
            else:
                call("as_bin", s.as_bin, conv=D.rle)
                b = call("as_bin_spendable", lambda: s.as_bin(as_spendable=True), conv=D.rle)
                if b is not None:
                    call("from_bin", lambda: D.project_sp(Tx.Spendable.from_bin(b)), D.rle(b), _sp_json)
        out.append({"s": p, "ev": ev})
    return out


def _sp_traces(ctx):
    n = 300 if ctx.quick else 3000
    trs = record_sp_traces(ctx.seed * 7919 + 77, n)
    tj = [{"s": _sp_json(t["s"]), "ev": [{k: e[k] for k in ("call", "raised", "arg", "result")} for e in t["ev"]]} for t in trs]

    def validate(tjson):
        fd, path = tempfile.mkstemp(prefix="vf-c07-sptraces-", suffix=".json")
        with os.fdopen(fd, "w") as f:
            json.dump(tjson, f)
        try:
            r = ctx.tlc("Trace_Spendable", "Trace_Spendable", workers=4, env={"TRACE_FILE": path}, count=False, timeout=3000)
        finally:
            os.unlink(path)
        loaded = [rec["n"] for rec in r.records if rec.get("k") == "loaded"]
        if not r.ok or loaded != [len(tjson)]:
            raise MachineryError("spendable trace run inconsistent (sent %d, TLC loaded %s): %s" % (len(tjson), loaded, r.raw_tail[-5:]))
        prog, done = {}, set()
        for rec in r.records:
            if rec.get("k") == "prog":
                prog[rec["tid"] - 1] = max(prog.get(rec["tid"] - 1, 0), rec["l"])
                if rec["done"]:
                    done.add(rec["tid"] - 1)
        return {i: prog.get(i, 0) for i in range(len(tjson)) if i not in done}
    bad = validate(tj)
    ctx.case(None, sum(len(t["ev"]) for t in trs))
    # a trace stops at the first call the spec does not allow; the calls after it are re-validated on their own
    # so that one known defect does not hide the rest of the trace
    retry, owner = [], []
    for i, matched in sorted(bad.items()):
        t = trs[i]
        e = t["ev"][matched]
        what = "exc=" + e["info"] if e["raised"] else "result-differs"
        ctx.fail("C07|trace|spendable|%s|%s" % ("as_bin(as_spendable=True)" if e["call"] == "as_bin_spendable" else e["call"], what),
                 "recorded Spendable run is not a behaviour of Spendable.tla: call #%d %s -> %s on %s" % (matched + 1, e["call"], what, D._short(t["s"])),
                 {"s": D._short(t["s"]), "calls": [(x["call"], x["raised"], x["info"]) for x in t["ev"]], "failed_at": matched})
        rest = tj[i]["ev"][matched + 1:]
        if rest:
            retry.append({"s": tj[i]["s"], "ev": rest})
            owner.append((i, matched + 1))
    bad2 = validate(retry) if retry else {}
    for j, matched in sorted(bad2.items()):
        i, off = owner[j]
        e = trs[i]["ev"][off + matched]
        what = "exc=" + e["info"] if e["raised"] else "result-differs"
        ctx.fail("C07|trace|spendable|%s|%s" % ("as_bin(as_spendable=True)" if e["call"] == "as_bin_spendable" else e["call"], what),
                 "recorded Spendable run is not a behaviour of Spendable.tla: %s -> %s on %s" % (e["call"], what, D._short(trs[i]["s"])), None)
    ctx.traces += len(trs) - len(bad)
    ctx.extra["spendable_traces"] = {"recorded": len(trs), "fully_accepted": len(trs) - len(bad),
                                     "accepted_after_skipping_the_failing_call": len(retry) - len(bad2)}
    ctx.sample({"spendable_trace": {"s": D._short(trs[0]["s"]), "calls": [(x["call"], x["raised"]) for x in trs[0]["ev"]]}})
    # binding self-test: one character of a logged text / one limb of a parsed amount
    g = next(t for t in tj if t["ev"] and t["ev"][0]["call"] == "as_text" and not t["ev"][0]["raised"])
    g = {"s": g["s"], "ev": g["ev"][:2]}
    b1 = copy.deepcopy(g)
    b1["ev"][0]["result"][-1] ^= 1
    b2 = copy.deepcopy(g)
    b2["ev"][1]["result"]["amount"][0] ^= 1
    bad = validate([g, b1, b2])
    _selftest(ctx, "spendable_trace_rejects_corrupted_field", set(bad) == {1, 2})


def _ground_truth(ctx):
    """R2: the spec parses / re-serialises real transactions byte for byte before it judges pycoin."""
    vec = [v for v in json.load(open(os.path.join(REPO, "tests/btc/data/tx_valid.json"))) if len(v) == 3]
    src = open(os.path.join(REPO, "tests/tx_test.py")).read()
    m = re.search(r"TX_([0-9A-F]{64})_HEX = \(((?:\s*\"[0-9a-f]+\"\s*)+)\)", src)
    known = []
    if m:
        known.append((m.group(1).lower(), "".join(re.findall(r"\"([0-9a-f]+)\"", m.group(2)))))
    tj = []
    meta = []
    for v in vec:
        raw = bytes.fromhex(v[1])
        tj.append({"kind": "bytes", "input": D.rle(raw), "allow": True})
        meta.append(("tx_valid", raw, v[0]))
    for txid, hx in known:
        raw = bytes.fromhex(hx)
        tj.append({"kind": "bytes", "input": D.rle(raw), "allow": True})
        meta.append(("known-id", raw, txid))
    rej, terms = validate_traces(ctx, tj, workers=4)
    if rej:
        raise MachineryError("spec does not reproduce real transactions byte for byte: vectors %s" % sorted(rej)[:10])
    n_out = 0
    for i, (kind, raw, extra) in enumerate(meta):
        t = terms.get(i)
        if t is None:
            raise MachineryError("trace spec printed no record for ground-truth vector %d" % i)
        got = {(D.expand(o["hash"])[::-1].hex(), D.num(o["index"])) for o in D.seq(t["outpoints"])}
        if kind == "tx_valid":
            want = {(p[0], p[1] & 0xFFFFFFFF) for p in extra}
            if got != want:
                raise MachineryError("spec parser reads other outpoints than the vector lists: vector %d %r vs %r" % (i, sorted(got)[:3], sorted(want)[:3]))
            n_out += len(want)
        else:
            if D.eval_term(t["txid"])[::-1].hex() != extra:
                raise MachineryError("spec TxId term does not evaluate to the known id of %s" % extra)
    ctx.log("fidelity: %d real transactions (tx_valid.json) parse and re-serialise byte for byte through TxParse/TxWire; "
            "%d outpoints agree with the vectors; %d known txid reproduced" % (len(vec), n_out, len(known)))
    ctx.extra["ground_truth_vectors"] = len(meta)
    if not known:
        raise MachineryError("known-id transaction not found in tests/tx_test.py")


def _real_ltc_block():
    """the transactions of the Litecoin MWEB block in pycoin's test-suite, delimited and parsed by pycoin's own
    block parser (offsets are pycoin's: include_offsets); -> events, crashes"""
    import io
    src = open(os.path.join(REPO, "tests/litecoin_mweb_test.py")).read()
    m = re.search(r"BLOCK_BLOB = h2b\(((?:\s*\"[0-9a-f]+\"\s*)+)\)", src)
    if not m:
        raise MachineryError("Litecoin block not found in tests/litecoin_mweb_test.py")
    blob = bytes.fromhex("".join(re.findall(r"\"([0-9a-f]+)\"", m.group(1))))
    net = D.network("LTC")
    try:
        f = io.BytesIO(blob)
        blk = net.block.parse(f, include_offsets=True, check_merkle_hash=False)
        end = f.tell()
        offs = [t.offset_in_block for t in blk.txs] + [end]
        return [{"kind": "ltcreal", "sym": "LTC", "tx": D.project_tx(t), "parsed": D.project_tx(t), "us": None, "allow": True,
                 "input": blob[a:b], "bytes": blob[a:b], "stripped": t.as_bin(include_witness_data=False),
                 "hash": t.hash(), "id": t.id(), "w_hash": None}
                for t, a, b in zip(blk.txs, offs, offs[1:])], []
    except Exception as e:
        return [], [("LTC", ((), (), (), 0), type(e).__name__, "real Litecoin block: " + repr(e)[:200])]


def _traces(ctx):
    q = ctx.quick
    n = 400 if q else 2500
    evs = []
    crashes = []
    # two seeds: everyday sizes, and sizes / counts beyond the enumerated grid
    for seed, cnt, big in ((ctx.seed * 7919 + 7, n, False), (ctx.seed * 7919 + 70, n // 4, True)):
        e, c = record_traces(seed, cnt, big)
        evs += e
        crashes += c
    e, c = _real_ltc_block()
    evs += e
    crashes += c
    for sym, p, exc, info in crashes:
        ctx.case(None, 1)
        ctx.fail("C07|trace|%s|exc=%s|%s" % (sym, exc, D.tx_class(p, "trace", any(i[4] for i in p[1]))),
                 "pycoin raised %s while serialising / parsing / hashing a well-formed transaction" % info, {"tx": D._short(p)})
    if not evs:
        return
    tj = [_trace_json(e) for e in evs]
    chunks = [(i, min(len(tj), i + 700)) for i in range(0, len(tj), 700)]
    for (a, b) in chunks:
        rej, terms = validate_traces(ctx, tj[a:b], workers=4)
        ctx.traces += (b - a) - len(rej)
        ctx.case(None, b - a)
        for i in sorted(rej):
            e = evs[a + i]
            ctx.fail("C07|trace|%s|rejected|%s" % (e["sym"], D.tx_class(e["tx"], e["kind"] if e.get("kind") else "ext" if e["us"] is not None else "wire" if e["allow"] else "noseg", e["bytes"] != e["stripped"])),
                     "recorded pycoin run is not a behaviour of TxWire/TxParse: %s" % D._short(e["tx"]),
                     {"event": {k: D._short(v) for k, v in e.items()}})
        for i in range(b - a):
            if i in rej:
                continue
            e = evs[a + i]
            t = terms.get(i)
            if t is None:
                raise MachineryError("trace spec printed no id terms for accepted trace %d" % (a + i))
            h, wh = D.eval_term(t["txid"]), D.eval_term(t["wtxid"])
            cls = D.tx_class(e["tx"], "trace", e["bytes"] != e["stripped"])
            if e["w_hash"] is None:
                wh = None          # a real Litecoin transaction: only the id is compared (the MWEB marker is not kept)
            if e["hash"] != h or e["id"] != h[::-1].hex():
                ctx.fail("C07|trace|%s|hash|%s|not-h256d-of-stripped" % (e["sym"], cls), "id differs from the spec's TxId term", {"event": {k: D._short(v) for k, v in e.items()}})
            if wh is not None and (e["w_hash"] != wh or e["w_id"] != wh[::-1].hex()):
                ctx.fail("C07|trace|%s|w_hash|%s|not-h256d-of-wire" % (e["sym"], cls), "w_id differs from the spec's WTxId term", {"event": {k: D._short(v) for k, v in e.items()}})
            if "edit" in e:
                if "txid2" not in t:
                    raise MachineryError("trace spec printed no id terms for the edited object of trace %d" % (a + i))
                h2, wh2 = D.eval_term(t["txid2"]), D.eval_term(t["wtxid2"])
                ctx.case(None, 1)
                if e["hash2"] != h2 or e["id2"] != h2[::-1].hex():
                    ctx.fail("C07|trace|%s|hash|after-edit|not-h256d-of-stripped" % e["sym"], "after the owner's edit (%s) of an object that had been asked "
                             "for its ids, the id differs from the spec's TxId term of the current fields" % e["edit"], {"event": {k: D._short(v) for k, v in e.items()}})
                if e["w_hash2"] != wh2 or e["w_id2"] != wh2[::-1].hex():
                    ctx.fail("C07|trace|%s|w_hash|after-edit|not-h256d-of-wire" % e["sym"], "after the owner's edit (%s) of an object that had been asked "
                             "for its ids, the witness id differs from the spec's WTxId term of the current fields" % e["edit"], {"event": {k: D._short(v) for k, v in e.items()}})
    ctx.sample({"trace": {k: D._short(v) for k, v in evs[0].items()}})
    # binding self-test: corrupt one logged field / one byte
    good = [i for i, e in enumerate(evs[:200]) if e.get("kind") is None and e["us"] is None and e["allow"] and len(e["tx"][2]) >= 1]
    g = tj[good[0]]
    bad1 = copy.deepcopy(g)
    bad1["parsed"]["outs"][0]["amount"][0] ^= 1
    bad2 = copy.deepcopy(g)
    runs = bad2["bytes"]
    runs[-1] = [runs[-1][0] ^ 1, runs[-1][1]] if len(runs) < 2 or runs[-2][0] != runs[-1][0] ^ 1 else [runs[-1][0] ^ 2, runs[-1][1]]
    bad3 = copy.deepcopy(g)
    bad3["tx"]["ins"][0]["seq"][1] ^= 1
    # ... and of a Litecoin MWEB trace: a witness item parsed differently; the MWEB byte in the wrong place
    lg = [i for i, e in enumerate(evs) if e.get("kind") == "ltc" and any(x[4] for x in e["tx"][1])]
    extra = []
    if lg:
        g2 = tj[lg[0]]
        bad4 = copy.deepcopy(g2)
        k = [j for j, x in enumerate(bad4["parsed"]["ins"]) if x["wit"]][0]
        bad4["parsed"]["ins"][k]["wit"] = bad4["parsed"]["ins"][k]["wit"][:-1]
        bad5 = copy.deepcopy(g2)
        raw = D.unrle(g2["input"])
        nstr = len(evs[lg[0]]["stripped"])
        bad5["input"] = D.rle(raw[:nstr + 2 - 4] + b"\x00" + raw[nstr + 2 - 4:-5] + raw[-4:])   # MWEB byte before the witness stacks
        extra = [g2, bad4, bad5]
    rej, _ = validate_traces(ctx, [g, bad1, bad2, bad3] + extra, quiet=True)
    _selftest(ctx, "trace_rejects_corrupted_field", rej == ({1, 2, 3} | ({5, 6} if extra else set())))


def _selftest(ctx, name, ok):
    """a binding self-test runs a corrupted case through the real implementation; if the implementation is
    already known to misbehave in this run (a violation was reported) a failed self-test is inconclusive,
    not a machinery failure - the run must still end with exit 1"""
    if ok or not ctx.violations:
        ctx.selftest(name, ok)
    else:
        ctx.selftests[name] = "inconclusive (violations reported; the implementation misbehaves on the self-test case)"


def run(ctx):
    q = ctx.quick
    only = getattr(ctx, "only", None)
    W = 4 if q else 8       # TLC evaluates the case grid once per worker: a few workers are faster than many here
    ctx.rule = ("replay: every abstract transaction / spendable of spec/TxGrid.tla (TLC enumerates; lemmas checked in every state) "
                "executed on pycoin BTC and LTC; distinct_nontrivial = distinct (mode, BIP144?, #inputs, #outputs, script-length classes, "
                "witness stack sizes) for transactions and (amount, script-length class, block index, spent) for spendables")
    ctx.assumptions += ["SHA-256 is hashlib's (ids are compared with hashlib over the pre-image the spec emits)",
                        "transactions have >= 1 input (the property's scope: the extended form is ambiguous otherwise)",
                        "list counts up to 300 and single blobs up to 1,000,000 bytes in the enumerated grid; beyond that traces",
                        "unspents extension entries with amount 0 are not bound (the property excludes them)",
                        "TLC/SANY, CPython"]
    # 1. lemmas of the byte layer
    if not only or "bytes" in only:
        ctx.tlc("MC_Bytes", "MC_Bytes", workers=4, coverage=not q)
    if not q and (not only or "lemmas" in only):
        # every non-terminal parser state has a successor (ENABLED), on the quick grid
        ctx.tlc("MC_TxWireReplay", "MC_TxWireReplay_lemmas", workers=W, timeout=3000)
    # 2. fidelity of the spec (machinery error if it fails)
    if not only or "fidelity" in only:
        _ground_truth(ctx)
    # teeth of the model itself: a serialiser that forgets empty witness items must violate the round-trip lemma
    if not only or "modelteeth" in only:
        r = ctx.tlc("MC_TxWireReplay", "MC_TxWireReplay_bug", workers=4, expect_ok=False, count=False, timeout=1200)
        ctx.selftest("model_rejects_serialiser_dropping_empty_witness_items", (not r.ok) and r.violated in ("RoundTrip", "NoFail"))
    # 3. spec -> code
    if not only or "tx" in only:
        first, _ = _replay(ctx, "MC_TxWireReplay", "MC_TxWireReplay_q" if q else "MC_TxWireReplay_t", "check_tx_record", SYMS, W, "tx")
        bad = copy.deepcopy(first)
        # binding self-test: corrupt one expected value of one case (flip the low bit of the lock time limb in the expected bytes)
        tok = bad["bytes"]
        tok[0] = ("%02x" % (int(tok[0][:2], 16) ^ 1)) + tok[0][2:] if tok[0][0] != "*" else "*%02xx%s" % (int(tok[0][1:3], 16) ^ 1, tok[0].split("x")[1])
        f = D.check_tx_record(bad, "BTC")
        _selftest(ctx, "replay_rejects_corrupted_expected_bytes", any("bytes-differ" in k for k, _, _ in f))
        bad = copy.deepcopy(first)
        bad["txid"]["arg"] = bad["txid"]["arg"] + ["00"]
        f = D.check_tx_record(bad, "BTC")
        _selftest(ctx, "replay_rejects_corrupted_id_term", any("|hash|" in k for k, _, _ in f))
    # ... on one long-lived object: ids and bytes asked between edits of the fields
    if not only or "history" in only:
        for bad in (("badNoFields",) if q else ("badNoFields", "badNoWitness")):
            r = ctx.tlc("MC_TxWireHistory", "MC_TxWireHistory_" + bad, workers=2, expect_ok=False, count=False, timeout=1200)
            ctx.selftest("model_rejects_memo_" + bad[3:], (not r.ok) and r.violated == "AnswersOfCurrentFields")
        first, _ = _replay(ctx, "MC_TxWireHistory", "MC_TxWireHistory_q" if q else "MC_TxWireHistory_t", "check_whist_record", SYMS, W, "whist")
        bad = copy.deepcopy(first)
        bad["outs"][-1]["facts"]["wtxid"]["arg"] = bad["outs"][-1]["facts"]["wtxid"]["arg"] + ["00"]
        bad["outs"][-1]["facts"]["txid"]["arg"] = bad["outs"][-1]["facts"]["txid"]["arg"] + ["00"]
        bad["outs"][-1]["facts"]["wire"] = bad["outs"][-1]["facts"]["wire"] + ["00"]
        f = D.check_whist_record(bad, "BTC")
        _selftest(ctx, "history_rejects_corrupted_expectation", any("not-of-current-fields" in k for k, _, _ in f))
    if not only or "sp" in only:
        first, _ = _replay(ctx, "MC_SpendableReplay", "MC_SpendableReplay_q" if q else "MC_SpendableReplay_t", "check_sp_record", ("BTC",), W, "sp")
        bad = copy.deepcopy(first)
        bad["text"][1]["v"] = [7]
        f = D.check_sp_record(bad, "BTC")
        _selftest(ctx, "replay_rejects_corrupted_spendable_text", any("as_text" in k for k, _, _ in f))
    # 4. code -> spec
    if not only or "traces" in only:
        _traces(ctx)
    if not only or "sptraces" in only:
        _sp_traces(ctx)
    ctx.exhaustive = True


def replay(ctx, obj):
    """./check C07 --replay FILE : re-run exactly the failing case recorded in a replay file"""
    d = obj.get("detail") or {}
    case = d.get("case")
    if not case:
        print(json.dumps(obj, indent=1)[:4000])
        print("(a recorded trace, not an enumerated case: the record above is the failing run)")
        return
    f = D.check_tx_record if case.get("k") == "tx" else D.check_whist_record if case.get("k") == "whist" else D.check_sp_record
    fails = f(case, d.get("sym", "BTC"))
    print("case: %s" % json.dumps(_brief(case))[:3000])
    for key, what, detail in fails:
        print("  disagreement: %s\n    %s" % (key, what))
        ctx.fail(key, what, detail)
    if not fails:
        print("  the implementation now agrees with the specification on this case")
