"""C03 - script evaluation agrees with Bitcoin consensus.

The specification (spec/VMNum, ScriptVM, VerifyScript) is an executable
transcription of Bitcoin Core's EvalScript / VerifyScript on byte strings.

  fidelity   the spec is run (MC_ScriptRun) on Core's script_tests.json; its verdict must
             equal Core's expected result for every vector, else exit 2 (the oracle is broken)
  core       pycoin's check_solution on the same vectors must equal the spec's verdict
  enum       MC_ScriptEnum: bounded exploration of the interpreter (every machine state x every
             instruction of the alphabet x flag configurations); each transition is replayed on
             pycoin's BitcoinVM (verdict + final stack)
  sig        MC_SigEnum: CHECKSIG/CHECKMULTISIG over a table of real signatures/keys x flags
  spend      MC_SpendShapes: shapes of spends (bare/P2SH/witness, deviations, permitted flag sets),
             concretised with real signatures; verdict computed by MC_ScriptRun; pycoin must agree
  limits     scenario families at the consensus limits and with hash opcodes / FindAndDelete /
             OP_CODESEPARATOR (verdict and stack computed by MC_ScriptRun)
  cond       CondStack.tla: pycoin's two counters refine Core's vfExec vector (TLC), replayed
  trace      pycoin's own traceback hook logs every instruction of seeded random scripts; TLC
             validates each step relation against ScriptVM (Trace_ScriptVM)
"""
from __future__ import annotations

import collections
import hashlib
import json
import os
import random
import tempfile

from ..ctx import REPO, MachineryError
from ..drv import script as S
from ..par import pmap, split
from ..scriptrun import spec_run

OPN = {v: k for k, v in S.OPNAMES.items() if k not in ("OP_TRUE", "OP_FALSE", "OP_NOP2", "OP_NOP3")}


def _last_ins(script):
    pc = 0
    last = 0
    n = len(script)
    while pc < n:
        last = pc
        op = script[pc]
        if op < 76:
            pc += 1 + op
        elif op == 76:
            pc += 2 + (script[pc + 1] if pc + 1 < n else 0)
        elif op == 77:
            pc += 3 + (script[pc + 1] + 256 * script[pc + 2] if pc + 2 < n else 0)
        elif op == 78:
            pc += 5 + (script[pc + 1] + 256 * script[pc + 2] if pc + 4 < n else 0)
        else:
            pc += 1
    return script[last:]


def _opname(b):
    return OPN.get(b, "PUSH" if b < 79 else "0x%02x" % b)


def _tx_sig_oracle(c, sig, key, code, sv):
    spend, idx = S.spend_tx_of(c)
    return S.sig_oracle_tx(sig, key, code, sv, spend, idx)


def _fixed_sig_oracle(c, sig, key, code, sv):
    return S.sig_oracle_fixed(sig, key, S.Z_FIXED)


def _any_sig_oracle(c, sig, key, code, sv):
    if c["sigmode"] == "fixed":
        return _fixed_sig_oracle(c, sig, key, code, sv)
    return _tx_sig_oracle(c, sig, key, code, sv)


class Batch:
    """cases of several stages share the MC_ScriptRun rounds (one TLC start-up per oracle round)"""

    def __init__(self, ctx):
        self.ctx = ctx
        self.parts = []

    def add(self, cases, done):
        self.parts.append((cases, done))

    def run(self):
        allc = [c for cases, _ in self.parts for c in cases]
        if not allc:
            return
        res = spec_run(self.ctx, allc, _any_sig_oracle, label="batch")
        k = 0
        for cases, done in self.parts:
            done(res[k:k + len(cases)])
            k += len(cases)


def _run_spend_chunk(chunk):
    return [S.run_spend(c) for c in chunk]


def _run_eval_chunk(chunk):
    return [S.run_eval(c, z=S.Z_FIXED) for c in chunk]


# ------------------------------------------------------------------ stages

def stage_core(ctx, batch):
    tests = S.load_core_script_tests(REPO + "/tests/btc/data/script_tests.json")
    cases = [t[0] for t in tests]
    batch.add(cases, lambda res: _core_done(ctx, tests, cases, res))


def _core_done(ctx, tests, cases, res):
    wrong = [(t[0]["text"], t[1], r["status"], r["err"]) for t, r in zip(tests, res) if (r["status"] == "ok") != (t[1] == "OK")]
    if wrong:
        raise MachineryError("spec disagrees with Bitcoin Core on %d of its own vectors, e.g. %s" % (len(wrong), wrong[:3]))
    ctx.extra["core_vectors_spec_agrees"] = len(tests)
    got = [g for ch in pmap(_run_spend_chunk, split(cases, 64)) for g in ch]
    n_exc = 0
    for (c, exp, com), r, g in zip(tests, res, got):
        ctx.case(("core", exp, tuple(c["flags"])))
        want_ok = r["status"] == "ok"
        if g[0] == "exc":
            n_exc += 1
        if (g[0] == "ok") != want_ok:
            ctx.fail("C03|core-vector|exp=%s|got=%s|%s" % (r["status"] + ":" + r["err"], g[0], c["text"][2]),
                     "Core vector %r: consensus %s, pycoin %s" % (c["text"], exp, g), {"case": c, "spec": r, "pycoin": g})
    ctx.replayed += len(tests)
    ctx.action("core.vectors", len(tests))
    ctx.extra["core_vectors_pycoin_exceptions"] = n_exc
    ctx.sample({"core_vector": tests[700][0]["text"], "consensus": tests[700][1]})


def stage_coretx(ctx, batch):
    """Core's tx_valid.json / tx_invalid.json: real multi-input transactions, every input a spend case"""
    for name, valid in (("tx_valid", True), ("tx_invalid", False)):
        tests = S.load_core_tx_tests(REPO + "/tests/btc/data/%s.json" % name, valid)
        cases = [c for t in tests for c in t[0]]
        batch.add(cases, lambda res, name=name, valid=valid, tests=tests, cases=cases: _coretx_done(ctx, name, valid, tests, cases, res))


def _coretx_done(ctx, name, valid, tests, cases, res):
    n_inputs = 0
    if True:
        got = [g for ch in pmap(_run_spend_chunk, split(cases, 16)) for g in ch]
        k = 0
        for t in tests:
            rs = res[k:k + len(t[0])]
            gs = got[k:k + len(t[0])]
            k += len(t[0])
            if valid and not all(r["status"] == "ok" for r in rs):
                raise MachineryError("spec rejects an input of a transaction Bitcoin Core accepts (%s): %s" % (
                    t[1][:80], [(r["status"], r["err"]) for r in rs]))
            for r, g, c in zip(rs, gs, t[0]):
                n_inputs += 1
                ctx.case(("coretx", name, r["status"], r["err"], tuple(c["flags"])))
                if (r["status"] == "ok") != (g[0] == "ok"):
                    ctx.fail("C03|core-tx|%s|exp=%s:%s|got=%s" % (name, r["status"], r["err"], g[0]),
                             "%s vector (%s) input %d: consensus %s %s, pycoin %s" % (name, t[1][:80], c["tx"]["idx"], r["status"], r["err"], g),
                             {"txhex": t[2], "input": c["tx"]["idx"], "flags": c["flags"], "spec": r, "pycoin": g})
    ctx.replayed += n_inputs
    ctx.action("core.tx_inputs", n_inputs)
    ctx.extra["core_tx_inputs"] = ctx.extra.get("core_tx_inputs", 0) + n_inputs


def _enum_chunk(args):
    """replay a chunk of MC_ScriptEnum transitions; returns (n, per-op counts, distinct classes, mismatches)"""
    trs, cfgs = args
    ops = collections.Counter()
    classes = set()
    bad = []
    for t in trs:
        c = cfgs[t["cfg"]]
        case = {"pk": t["script"], "stack": t["init"], "flags": c["flags"], "sv": c["sv"], "ctx": c["ctx"]}
        g = S.run_eval(case, z=S.Z_FIXED)
        li = _last_ins(t["script"])
        exp = ("fail",) if (t["status"] == "fail" or t["open"] > 0) else ("ok", [bytes(x) for x in t["stack"]])
        gg = g if g[0] == "ok" else ("fail",)
        ops[_opname(li[0])] += 1
        if t["status"] == "run":
            classes.add((li[0], t["cfg"], len(t["stack"])))
        if gg != exp:
            how = "stack" if (gg[0] == "ok" and exp[0] == "ok") else gg[0]
            bad.append(("C03|eval|%s|sv=%s|minimal=%s|exp=%s|got=%s" % (
                _opname(li[0]), case["sv"], "MINIMALDATA" in case["flags"], exp[0], how),
                "script %s flags %s: consensus %s %s, pycoin %s" % (bytes(t["script"]).hex(), case["flags"], t["status"],
                                                                     t["err"] or t["stack"], g),
                {"case": case, "spec": t, "pycoin": [g[0], str(g[1])[:300]]}))
    return len(trs), ops, classes, bad[:50]


def _enum_replay(ctx, cfgname, module="MC_ScriptEnum"):
    """stream TLC's transitions into worker processes (the thorough configurations export > 10^7)"""
    import multiprocessing as mp
    from ..par import NPROC
    pool = mp.get_context("fork").Pool(NPROC)
    cfgs = {}
    buf = []
    pending = []
    total = [0]
    sample = []

    def collect(ar):
        n, ops, classes, bad = ar.get()
        total[0] += n
        ctx.evaluations += n
        for k, v in ops.items():
            ctx.by_action.setdefault("enum." + k, [0, 0])[1] += v
        ctx._distinct.update(("enum",) + c for c in classes)
        for key, what, detail in bad:
            ctx.fail(key, what, detail)

    def flush():
        if buf:
            pending.append(pool.apply_async(_enum_chunk, ((list(buf), dict(cfgs)),)))
            del buf[:]
        while len(pending) > 3 * NPROC:
            collect(pending.pop(0))

    def on(rec):
        k = rec.get("k")
        if k == "cfg":
            cfgs[rec["id"]] = rec
        elif k == "tr":
            buf.append(rec)
            if not sample:
                sample.append(rec)
            if len(buf) >= 3000:
                flush()
    try:
        ctx.tlc(module, cfgname, timeout=6000, on_record=on, keep_records=False)
        flush()
        for ar in pending:
            collect(ar)
    finally:
        pool.close()
        pool.join()
    if not total[0]:
        raise MachineryError("%s exported no transitions" % cfgname)
    ctx.replayed += total[0]
    if sample:
        ctx.sample({"enum_transition": sample[0]})
    return total[0]


def stage_enum(ctx):
    for cfg in (["MC_ScriptEnum_q", "MC_ScriptEnum_deep", "MC_ScriptEnum_ops"] if ctx.quick else
                ["MC_ScriptEnum_t", "MC_ScriptEnum_deep", "MC_ScriptEnum_ops_t"]):
        n = _enum_replay(ctx, cfg)
        ctx.log("replayed %d interpreter transitions of %s" % (n, cfg))
    # binding self-test: a corrupted expectation must be noticed
    bad = {"pk": [81, 81, 147], "stack": [], "flags": [], "sv": "base",
           "ctx": {"version": 1, "locktime": [0, 0, 0, 0], "sequence": [255, 255, 255, 255]}}
    g = S.run_eval(bad)
    ctx.selftest("enum_replay_rejects_corrupted_expectation", g == ("ok", [b"\x02"]) and g != ("ok", [b"\x03"]))


def _sig_chunk(args):
    recs, names = args

    def nm(st):
        return [names.get(bytes(x).hex(), bytes(x).hex()) for x in st]
    classes = set()
    bad = []
    for t in recs:
        case = S.mk_case("eval", pk=bytes([t["op"]]), stack=[bytes(x) for x in t["stack"]], sv=t["sv"], flags=t["flags"],
                         sigmode="fixed")
        g = S.run_eval(case, z=S.Z_FIXED)
        exp = ("fail",) if t["status"] == "fail" else ("ok", [bytes(x) for x in t["out"]])
        gg = g if g[0] == "ok" else ("fail",)
        classes.add((t["op"], t["sv"], tuple(t["flags"]), t["status"], t["err"]))
        if gg != exp:
            st = nm(t["stack"])
            operands = ",".join(st) if t["op"] in (172, 173) else "n=%d" % len(st)
            bad.append(("C03|sig|%s|%s|exp=%s:%s|got=%s" % (_opname(t["op"]), operands, exp[0], t["err"], gg[0]),
                        "%s on %s flags %s sv %s: consensus %s %s, pycoin %s" % (_opname(t["op"]), st, t["flags"], t["sv"],
                                                                              t["status"], t["err"] or t["out"], g),
                        {"case": case, "spec": t, "pycoin": [g[0], str(g[1])[:300]], "names": st}))
    return len(recs), classes, bad[:60]


def stage_sig(ctx):
    import multiprocessing as mp
    from ..par import NPROC
    tab = S.make_sig_table(small=True if ctx.quick else "medium")
    names = tab["names"]
    fd, path = tempfile.mkstemp(prefix="vf-c03-sigtab-", suffix=".json")
    with os.fdopen(fd, "w") as f:
        json.dump(tab, f)
    pool = mp.get_context("fork").Pool(NPROC)
    buf, pending, total, sample = [], [], [0], []

    def collect(ar):
        n, classes, bad = ar.get()
        total[0] += n
        ctx.evaluations += n
        ctx._distinct.update(("sig",) + c for c in classes)
        for key, what, detail in bad:
            ctx.fail(key, what, detail)

    def flush():
        if buf:
            pending.append(pool.apply_async(_sig_chunk, ((list(buf), names),)))
            del buf[:]
        while len(pending) > 3 * NPROC:
            collect(pending.pop(0))

    def on(rec):
        if rec.get("k") == "sigcase":
            buf.append(rec)
            if not sample:
                sample.append(rec)
            if len(buf) >= 2000:
                flush()
    try:
        ctx.tlc("MC_SigEnum", "MC_SigEnum_q" if ctx.quick else "MC_SigEnum_t", env={"SIGTAB_FILE": path}, timeout=6000,
                on_record=on, keep_records=False)
        flush()
        for ar in pending:
            collect(ar)
    finally:
        os.unlink(path)
        pool.close()
        pool.join()
    if not total[0]:
        raise MachineryError("MC_SigEnum exported no cases")
    ctx.replayed += total[0]
    ctx.action("sig.cases", total[0])
    if sample:
        t = sample[0]
        ctx.sample({"sig_case": {"op": t["op"], "stack": [names.get(bytes(x).hex(), "?") for x in t["stack"]], "flags": t["flags"],
                                 "consensus": [t["status"], t["err"]]}})
    ctx.log("replayed %d CHECKSIG/CHECKMULTISIG cases" % total[0])


def stage_lock(ctx):
    r = ctx.tlc("MC_LockEnum", "MC_LockEnum", timeout=1200)
    recs = r.by_kind("lock")
    cases = [S.mk_case("eval", pk=bytes([t["op"]]), stack=[bytes(x) for x in t["stack"]], flags=t["flags"],
                       version=t["version"], locktime=int.from_bytes(bytes(t["locktime"]), "little"),
                       sequence=int.from_bytes(bytes(t["sequence"]), "little"), sigmode="fixed") for t in recs]
    got = [g for ch in pmap(_run_eval_chunk, split(cases, 64)) for g in ch]
    for t, case, g in zip(recs, cases, got):
        exp = ("fail",) if t["status"] == "fail" else ("ok", [bytes(x) for x in t["out"]])
        gg = g if g[0] == "ok" else ("fail",)
        ctx.evaluations += 1
        ctx._distinct.add(("lock", t["op"], t["status"], t["err"], tuple(t["flags"])))
        if gg != exp:
            operand = bytes(t["stack"][0]).hex() if t["stack"] else "none"
            ctx.fail("C03|lock|%s|exp=%s:%s|got=%s|flags=%s" % (_opname(t["op"]), exp[0], t["err"], gg[0], ",".join(sorted(t["flags"]))),
                     "%s operand %s version %s locktime %s sequence %s flags %s: consensus %s %s, pycoin %s" % (
                         _opname(t["op"]), operand, t["version"], bytes(t["locktime"]).hex(), bytes(t["sequence"]).hex(), t["flags"],
                         t["status"], t["err"], g), {"case": case, "spec": t, "pycoin": g})
    ctx.replayed += len(recs)
    ctx.action("lock.cases", len(recs))
    ctx.sample({"lock_case": recs[len(recs) // 2]})
    ctx.log("replayed %d CLTV/CSV cases" % len(recs))


def _concretize_chunk(chunk):
    return [S.concretize(s) for s in chunk]


def stage_spend(ctx, batch):
    r = ctx.tlc("MC_SpendShapes", "MC_SpendShapes_" + ("quick" if ctx.quick else "thorough"), workers=4)
    shapes = r.by_kind("shape")
    cases = [c for ch in pmap(_concretize_chunk, split(shapes, 64)) for c in ch]
    batch.add(cases, lambda res: _spend_done(ctx, cases, res))


def _spend_done(ctx, cases, res):
    got = [g for ch in pmap(_run_spend_chunk, split(cases, 64)) for g in ch]
    n_ok = 0
    for c, rr, g in zip(cases, res, got):
        want_ok = rr["status"] == "ok"
        n_ok += want_ok
        ctx.case(("spend",) + tuple(c["shape"]) + (rr["status"], rr["err"]))
        if (g[0] == "ok") != want_ok:
            ctx.fail("C03|spend|%s|exp=%s:%s|got=%s" % ("|".join(c["shape"]), rr["status"], rr["err"], g[0]),
                     "spend %s flags %s: consensus %s %s, pycoin %s" % (c["shape"], c["flags"], rr["status"], rr["err"], g),
                     {"case": c, "spec": rr, "pycoin": g})
    # canonical solutions must be accepted by consensus under the plain flag sets (the concretizer is sane)
    canon_ok = [rr["status"] for c, rr in zip(cases, res)
                if c["shape"][2] == "canon" and c["shape"][3] == "canon" and c["shape"][1] in ("p2pk", "p2pkh", "multisig")
                and set(c["flags"]) <= {"P2SH", "WITNESS"} and (c["shape"][0] == "bare" or "P2SH" in c["flags"])
                and (c["shape"][0] in ("bare", "p2sh") or "WITNESS" in c["flags"])]
    if not canon_ok or any(x != "ok" for x in canon_ok):
        raise MachineryError("concretizer: a canonical standard spend is not valid under the spec: %s" % collections.Counter(canon_ok))
    ctx.replayed += len(cases)
    ctx.action("spend.shapes", len(cases))
    ctx.extra["spend_shapes_valid_under_consensus"] = n_ok
    ctx.sample({"spend_shape": cases[len(cases) // 2]["shape"], "flags": cases[len(cases) // 2]["flags"],
                "consensus": [res[len(cases) // 2]["status"], res[len(cases) // 2]["err"]]})
    ctx.log("checked %d spend shapes (%d valid under consensus)" % (len(cases), n_ok))


def _limit_cases(quick):
    """scenario families at the limits; each is a plain eval or spend case whose verdict TLC computes"""
    out = []

    def ev(script, stack=(), flags=(), sv="base", tag=""):
        out.append(S.mk_case("eval", pk=script, stack=stack, flags=flags, sv=sv, sigmode="fixed", tag=tag))
    # opcode count 200/201/202 (NOPs are counted, pushes are not, also inside an unexecuted branch)
    for k in (200, 201, 202):
        ev(b"\x51" + b"\x61" * k, tag="opcount-nop-%d" % k)
        ev(b"\x00\x63" + b"\x61" * (k - 2) + b"\x68\x51", tag="opcount-unexecuted-%d" % k)
        ev(b"\x51" * 30 + b"\x61" * (k - 1) + b"\x75" * 1, tag="opcount-pushes-free-%d" % k)
    # CHECKMULTISIG adds the key count
    for nk, nops in ((20, 180), (20, 181), (20, 182), (0, 200), (0, 201)):
        keys = b"".join(S.push_enc(bytes([2]) + bytes([i + 1] * 32)) for i in range(nk))
        ev(b"\x61" * nops + b"\x00\x00" + keys + (bytes([80 + nk]) if 1 <= nk <= 16 else (b"\x00" if nk == 0 else S.push_enc(S.scriptnum(nk)))) + b"\xae",
           tag="opcount-multisig-%d-%d" % (nk, nops))
    # stack size 1000/1001 (stack + altstack)
    for k in (999, 1000, 1001):
        ev(b"\x51" * k + b"\x75" * 0, tag="stack-%d" % k)
    ev(b"\x51" * 500 + b"\x6b" * 500 + b"\x51" * 500, tag="stack+alt-1000")
    ev(b"\x51" * 500 + b"\x6b" * 500 + b"\x51" * 501, tag="stack+alt-1001")
    ev(b"\x51" * 998 + b"\x6f", tag="3dup-over-1000")
    # an initial stack (witness items) beyond the limit is only checked after each executed instruction
    ev(b"\x75", stack=[b"\x01"] * 1001, tag="initstack-1001-drop")
    ev(b"\x61", stack=[b"\x01"] * 1001, tag="initstack-1001-nop")
    ev(b"\x75", stack=[b"\x01"] * 1002, tag="initstack-1002-drop")
    ev(b"\x75\x75", stack=[b"\x01"] * 1002, tag="initstack-1002-drop-drop")
    # CHECKMULTISIG key / signature counts are 4-byte script numbers (minimal under MINIMALDATA)
    k1 = S.push_enc(bytes([2]) + bytes([7] * 32))
    for nm, enc in (("min", b"\x01"), ("nonmin2", b"\x01\x00"), ("five", b"\x01\x00\x00\x00\x00"), ("four", b"\x01\x00\x00\x00")):
        for fl in ((), ("MINIMALDATA",)):
            ev(b"\x00\x00\x00" + k1 + S.push_enc(enc) + b"\xae", flags=fl, tag="msig-keycount-%s" % nm)      # 0 sigs: dummy, nSigs=0
            ev(b"\x00\x00" + S.push_enc(b"\x00" * len(enc) if nm != "min" else b"") + k1 + b"\x51\xae", flags=fl,
               tag="msig-sigcount-zero-%s" % nm)
    # element size 520/521
    for k in (520, 521):
        ev(S.push_enc(b"\x07" * k) + b"\x75\x51", tag="push-%d" % k)
        ev(b"\x00\x63" + S.push_enc(b"\x07" * k) + b"\x68\x51", tag="push-unexecuted-%d" % k)
    # script size 10000/10001
    unit = S.push_enc(b"\x07" * 520) + b"\x75"
    base = unit * 19
    for total in (10000, 10001):
        pad = total - len(base) - 1
        ev(base + S.push_enc(b"\x07" * (pad - 2 - (1 if pad - 2 > 75 else 0))) + b"\x75" + b"\x51", tag="script-%d" % total)
    # minimal pushes at the encoding boundaries, with and without MINIMALDATA
    for n in (0, 1, 2, 75, 76, 255, 256, 520):
        for enc in ("direct", "pd1", "pd2", "pd4"):
            d = b"\x07" * n
            if enc == "direct":
                if n > 75:
                    continue
                s = bytes([n]) + d
            elif enc == "pd1":
                if n > 255:
                    continue
                s = bytes([76, n]) + d
            elif enc == "pd2":
                s = bytes([77, n & 255, n >> 8]) + d
            else:
                s = bytes([78]) + n.to_bytes(4, "little") + d
            for fl in ((), ("MINIMALDATA",)):
                ev(s + b"\x82" + b"\x51", flags=fl, tag="minpush-%d-%s" % (n, enc))      # SIZE, 1
                ev(b"\x00\x63" + s + b"\x68\x51", flags=fl, tag="minpush-unexec-%d-%s" % (n, enc))
    for v in (1, 16, 0x81, 17, 0):
        for fl in ((), ("MINIMALDATA",)):
            ev(bytes([1, v]) + b"\x51", flags=fl, tag="minpush-value-%02x" % v)
    # truncated pushes
    for s in (b"\x4c", b"\x4d", b"\x4d\x01", b"\x4e\x01\x00\x00", b"\x05\x01\x02", b"\x4c\x05\x01", b"\x4d\x02\x00\x01",
              b"\x4e\x00\x00\x00\x80", b"\x4e\xff\xff\xff\xff", b"\x4e\xfb\xff\xff\xff", b"\x4e\x00\x00\x01\x00", b"\x4e\x01\x00\x00\x00",
              b"\x4d\xff\xff", b"\x4c\xff"):
        ev(b"\x51" + s, tag="truncated-%s" % s.hex())
        ev(b"\x00\x63" + s, tag="truncated-unexec-%s" % s.hex())
    # hash opcodes x operand classes
    for op in (166, 167, 168, 169, 170):
        for x in (b"", b"\x00", b"abc", b"\x07" * 64, b"\x07" * 520):
            ev(bytes([op, 0x82]), stack=[x], tag="hash-%d-%d" % (op, len(x)))   # H SIZE
        ev(bytes([op]), tag="hash-%d-empty-stack" % op)
        ev(bytes([op, op, op]), stack=[b"x"], tag="hash-%d-thrice" % op)
    # every opcode value once, executed and unexecuted (the 256-entry dispatch table)
    for b in range(256):
        if b in (76, 77, 78) or 1 <= b <= 75:
            continue
        for fl in ((), ("DISCOURAGE_UPGRADABLE_NOPS",)):
            ev(bytes([b]), stack=[b"\x01", b"\x02", b"\x03"], flags=fl, tag="op-%02x" % b)
            ev(b"\x00\x63" + bytes([b]) + b"\x68\x51", flags=fl, tag="op-unexec-%02x" % b)
    return out


def _limit_spends():
    """real transactions: FindAndDelete, OP_CODESEPARATOR, NULLDUMMY/NULLFAIL with real digests"""
    from pycoin.symbols.btc import network
    out = []
    K1, K2 = S._sec(S._D1), S._sec(S._D2)

    def spend(spk_f, ss_f, wit_f=None, flags=(), tag=""):
        # two passes: build skeleton, sign, build final
        def mk(ss, wit):
            return S.build_txs(ss, spk_f(), wit, S.AMOUNT)[1]
        skel = mk(b"", [])
        sc = network.tx.SolutionChecker(skel)
        ss = ss_f(sc)
        wit = wit_f(sc) if wit_f else []
        out.append(S.mk_case("spend", ss, spk_f(), wit, flags=flags, amount=S.AMOUNT, tag=tag))
    # signature over the script code after OP_CODESEPARATOR
    spk1 = S.push_enc(K1) + b"\xab" + b"\xac"                      # <K1> CODESEPARATOR CHECKSIG
    for which, tag in ((b"\xac", "codesep-right"), (spk1, "codesep-whole-script")):
        spend(lambda: spk1, lambda sc, w=which: S.push_enc(S._sign(S._D1, sc._signature_hash(w, 0, 1))), tag=tag)
    # signature embedded in the script it signs (FindAndDelete): scriptPubKey = <sig> <K1> CHECKSIG signs itself minus the push
    body = S.push_enc(K1) + b"\xac"

    def spk_embedded():
        skel = S.build_txs(b"", body, [], S.AMOUNT)[1]
        # digest over the script with the signature push deleted == body ; but txid of the credit depends on spk: fixpoint impossible,
        # so embed a signature made for script code `body` and spend with an empty scriptSig
        return body
    spend(lambda: body, lambda sc: S.push_enc(S._sign(S._D1, sc._signature_hash(body, 0, 1))), tag="p2pk-plain")
    # 2-of-2 multisig with signatures in both orders, NULLDUMMY and NULLFAIL
    ms = b"\x52" + S.push_enc(K1) + S.push_enc(K2) + b"\x52\xae"
    for order in ((S._D1, S._D2), (S._D2, S._D1)):
        for dummy in (b"\x00", b"\x51"):
            for fl in ((), ("NULLDUMMY",), ("NULLFAIL",), ("NULLDUMMY", "NULLFAIL")):
                spend(lambda: ms,
                      lambda sc, o=order, d=dummy: d + b"".join(S.push_enc(S._sign(x, sc._signature_hash(ms, 0, 1))) for x in o),
                      flags=fl, tag="msig-order-%s-dummy-%s" % ("12" if order[0] == S._D1 else "21", dummy.hex()))
    # hash types: a signature is valid only for the hash type it was made with
    for ht in (1, 2, 3, 0x81, 0x82, 0x83, 0, 4, 0x41):
        for fl in ((), ("STRICTENC",)):
            spend(lambda: body, lambda sc, h=ht: S.push_enc(S._sign(S._D1, sc._signature_hash(body, 0, h), h)), flags=fl,
                  tag="hashtype-%02x" % ht)
    return out


def stage_limits(ctx, batch):
    cases = _limit_cases(ctx.quick)
    sp = _limit_spends()
    batch.add(cases, lambda res: _limits_done(ctx, cases, res))
    batch.add(sp, lambda res: _limit_spends_done(ctx, sp, res))


def _limits_done(ctx, cases, res):
    got = [g for ch in pmap(_run_eval_chunk, split(cases, 32)) for g in ch]
    for c, rr, g in zip(cases, res, got):
        exp = ("ok", [bytes(x) for x in rr["stack"]]) if rr["status"] == "ok" else ("fail",)
        gg = g if g[0] == "ok" else ("fail",)
        ctx.case(("limit", c["tag"], rr["status"], rr["err"]))
        if gg != exp:
            how = "stack" if (gg[0] == "ok" and exp[0] == "ok") else gg[0]
            fam = c["tag"].split("-")[0]
            ctx.fail("C03|limit|%s|exp=%s:%s|got=%s" % (c["tag"] if fam in ("minpush", "truncated", "op") else c["tag"], rr["status"], rr["err"], how),
                     "scenario %s flags %s: consensus %s %s, pycoin %s" % (c["tag"], c["flags"], rr["status"], rr["err"], g[:1] + (str(g[1])[:80],)),
                     {"tag": c["tag"], "flags": c["flags"], "script_hex": bytes(c["pk"]).hex()[:400], "spec": {k: rr[k] for k in ("status", "err")}, "pycoin": g[0]})
    ctx.replayed += len(cases)
    ctx.action("limits.scenarios", len(cases))
    ctx.log("checked %d limit scenarios" % len(cases))


def _limit_spends_done(ctx, sp, res2):
    got2 = [g for ch in pmap(_run_spend_chunk, split(sp, 16)) for g in ch]
    oks = 0
    for c, rr, g in zip(sp, res2, got2):
        oks += rr["status"] == "ok"
        ctx.case(("limit-spend", c["tag"], tuple(c["flags"]), rr["status"], rr["err"]))
        if (g[0] == "ok") != (rr["status"] == "ok"):
            ctx.fail("C03|limit-spend|%s|%s|exp=%s:%s|got=%s" % (c["tag"], ",".join(c["flags"]), rr["status"], rr["err"], g[0]),
                     "spend scenario %s flags %s: consensus %s %s, pycoin %s" % (c["tag"], c["flags"], rr["status"], rr["err"], g),
                     {"case": c, "spec": rr, "pycoin": g})
    if oks < 10:
        raise MachineryError("limit spends: only %d valid under the spec - the scenario builder is broken" % oks)
    ctx.replayed += len(sp)
    ctx.action("limits.spend_scenarios", len(sp))
    ctx.log("checked %d real-transaction scenarios" % len(sp))


def stage_cond(ctx):
    r = ctx.tlc("CondStack", "MC_CondStack", coverage=not ctx.quick)
    seqs = r.by_kind("cond")
    from pycoin.vm.ConditionalStack import ConditionalStack
    bad = 0
    for rec in seqs:
        errs = []
        cs = ConditionalStack(lambda msg: errs.append(msg))
        for a in rec["acts"]:
            if errs:
                break
            if a[0] == "IF":
                cs.OP_IF(bool(a[1]))
            elif a[0] == "NOTIF":
                cs.OP_IF(bool(a[1]), reverse_bool=True)
            elif a[0] == "ELSE":
                cs.OP_ELSE()
            else:
                cs.OP_ENDIF()
        got = {"err": bool(errs), "exec": cs.all_if_true(), "open": cs.true_count + cs.false_count}
        want = {"err": rec["err"], "exec": rec["exec"], "open": rec["open"]}
        ctx.evaluations += 1
        if rec["err"]:
            ok = got["err"]
        else:
            ok = got == want
        if not ok:
            bad += 1
            ctx.fail("C03|condstack|exp=%s|got=%s" % (json.dumps(want, sort_keys=True), json.dumps(got, sort_keys=True)),
                     "conditional sequence %s: consensus %s, pycoin ConditionalStack %s" % (rec["acts"], want, got), rec)
    ctx._distinct.update(("cond", len(x["acts"]), x["err"], x["exec"], x["open"]) for x in seqs)
    ctx.replayed += len(seqs)
    ctx.action("cond.sequences", len(seqs))
    ctx.log("replayed %d conditional sequences" % len(seqs))


# ------------------------------------------------------------------ traces (code -> spec)

_TR_OPS = [97, 99, 100, 103, 104, 105, 107, 108, 109, 110, 111, 112, 113, 114, 115, 116, 117, 118, 119, 120, 121, 122, 123, 124,
           125, 130, 135, 136, 139, 140, 143, 144, 145, 146, 147, 148, 154, 155, 156, 157, 158, 159, 160, 161, 162, 163, 164,
           165, 171, 176, 177, 178, 166, 167, 168, 169, 170]


# (needs, net effect) of the opcodes the random scripts use; numeric ones want small numbers on top
_ARITY = {97: (0, 0), 105: (1, -1), 107: (1, -1), 108: (0, 1), 109: (2, -2), 110: (2, 2), 111: (3, 3), 112: (4, 2), 113: (6, 0),
          114: (4, 0), 115: (1, 0), 116: (0, 1), 117: (1, -1), 118: (1, 1), 119: (2, -1), 120: (2, 1), 121: (2, 0), 122: (2, -1),
          123: (3, 0), 124: (2, 0), 125: (2, 1), 130: (1, 1), 135: (2, -1), 136: (2, -2), 139: (1, 0), 140: (1, 0), 143: (1, 0),
          144: (1, 0), 145: (1, 0), 146: (1, 0), 147: (2, -1), 148: (2, -1), 154: (2, -1), 155: (2, -1), 156: (2, -1), 157: (2, -2),
          158: (2, -1), 159: (2, -1), 160: (2, -1), 161: (2, -1), 162: (2, -1), 163: (2, -1), 164: (2, -1), 165: (3, -2),
          171: (0, 0), 176: (0, 0), 177: (1, 0), 178: (1, 0), 166: (1, 0), 167: (1, 0), 168: (1, 0), 169: (1, 0), 170: (1, 0)}


def _random_script(rnd, depth0=0):
    """stack-aware random script: most instructions find their operands, so runs are long;
    a fraction is left to fail (underflow, unbalanced conditionals, 5-byte operands)"""
    out = bytearray()
    depth = depth0          # estimated stack depth
    alt = 0
    opened = 0
    n = rnd.randint(4, 22)
    sloppy = rnd.random() < 0.15
    for _ in range(n):
        r = rnd.random()
        if r < 0.38 or depth == 0:
            k = rnd.random()
            if k < 0.35:
                out += bytes([rnd.choice([0, 79, 81, 82, 83, 84, 96])])
            elif k < 0.85:
                ln = rnd.choice([1, 1, 1, 2, 2, 3, 4, 4, 5])
                d = bytes(rnd.choice([0, 1, 2, 0x7F, 0x80, 0x81, 0xFF]) for _ in range(ln))
                out += S.push_enc(d) if rnd.random() < 0.9 else bytes([76, ln]) + d
            else:
                d = bytes(rnd.randrange(256) for _ in range(rnd.choice([20, 33, 76, 80])))
                out += S.push_enc(d)
            depth += 1
        elif r < 0.50:
            # conditionals
            c = rnd.random()
            if c < 0.45 and depth > 0:
                out.append(rnd.choice([99, 100]))
                depth -= 1
                opened += 1
            elif c < 0.7 and opened > 0:
                out.append(103)
            elif opened > 0:
                out.append(104)
                opened -= 1
            elif sloppy:
                out.append(rnd.choice([103, 104]))
        else:
            cands = [op for op, (need, _) in _ARITY.items() if need <= depth or sloppy]
            if alt == 0:
                cands = [op for op in cands if op != 108] or cands
            op = rnd.choice(cands)
            out.append(op)
            depth = max(0, depth + _ARITY[op][1])
            if op == 107:
                alt += 1
            if op == 108:
                alt = max(0, alt - 1)
    if not sloppy or rnd.random() < 0.5:
        out += b"\x68" * opened
    return bytes(out)


def _record_chunk(args):
    seed, count = args
    rnd = random.Random(seed)
    flagsets = [[], ["MINIMALDATA"], ["MINIMALDATA", "CHECKLOCKTIMEVERIFY", "CHECKSEQUENCEVERIFY", "DISCOURAGE_UPGRADABLE_NOPS"],
                ["CHECKLOCKTIMEVERIFY", "CHECKSEQUENCEVERIFY", "MINIMALIF"]]
    out = []
    for i in range(count):
        nst = rnd.randint(0, 3)
        script = _random_script(rnd, nst)
        fl = rnd.choice(flagsets)
        sv = "wit" if "MINIMALIF" in fl and rnd.random() < 0.7 else "base"
        stack = [bytes(rnd.choice([0, 1, 2, 0x80]) for _ in range(rnd.choice([0, 1, 1, 2]))) for _ in range(nst)]
        case = S.mk_case("eval", pk=script, stack=stack, sv=sv, flags=fl, version=rnd.choice([1, 2]), locktime=rnd.choice([0, 100, 500000001]),
                         sequence=rnd.choice([0xFFFFFFFF, 10, 0x400005]), sigmode="fixed")
        tr = []
        res = S.run_eval(case, z=S.Z_FIXED, trace=tr)
        out.append({"case": case, "steps": tr, "result": [res[0], [list(x) for x in res[1]] if res[0] == "ok" else []]})
    return out


def stage_trace(ctx):
    n = 4000 if ctx.quick else 30000
    per = 100
    chunks = [(ctx.seed * 1000003 + 31 * i + 3, per) for i in range(n // per)]
    recs = [t for ch in pmap(_record_chunk, chunks) for t in ch]
    # hash oracle for every hash instruction actually executed (input = logged top of stack)
    data = []
    for t in recs:
        hashes = []
        seen = set()
        for st in t["steps"]:
            if 166 <= st["op"] <= 170 and st["stack"]:
                x = bytes(st["stack"][-1])
                if (st["op"], x) not in seen:
                    seen.add((st["op"], x))
                    hashes.append([st["op"], list(x), list(S.hash_oracle(st["op"], x))])
        c = dict(t["case"])
        c["hashes"] = hashes
        data.append({"case": c, "steps": [{"pc": s["pc"] + 1, "stack": s["stack"], "alt": s["alt"]} for s in t["steps"]],
                     "res": t["result"][0], "out": t["result"][1]})
    rejected = _validate_script_traces(ctx, data)
    ctx.traces += len(data) - len(rejected)
    ctx.case(None, len(data))
    ctx.sample({"script_trace": {"script": bytes(data[0]["case"]["pk"]).hex(), "flags": data[0]["case"]["flags"],
                                 "steps": len(data[0]["steps"]), "result": data[0]["res"]}})
    for i in rejected:
        t = data[i]
        li = t["case"]["pk"][t["steps"][-1]["pc"] - 1] if t["steps"] else 0
        ctx.fail("C03|trace|last-op=%s|result=%s" % (_opname(li), t["res"]),
                 "recorded BitcoinVM run is not a behaviour of ScriptVM.tla: script %s stack %s flags %s sv %s" % (
                     bytes(t["case"]["pk"]).hex(), t["case"]["stack"], t["case"]["flags"], t["case"]["sv"]), t)
    # binding self-test: corrupt one logged stack and one logged verdict
    import copy
    good = [t for i, t in enumerate(data[:300]) if i not in rejected and len(t["steps"]) >= 3 and t["res"] == "ok" and t["steps"][2]["stack"]]
    if good:
        b1 = copy.deepcopy(good[0])
        b1["steps"][2]["stack"][-1] = b1["steps"][2]["stack"][-1] + [9]
        b2 = copy.deepcopy(good[0])
        b2["res"] = "fail"
        rej = _validate_script_traces(ctx, [good[0], b1, b2])
        ctx.selftest("trace_rejects_corrupted_step_and_verdict", rej == [1, 2])
    ctx.log("validated %d recorded interpreter runs (%d rejected)" % (len(data), len(rejected)))


def _validate_script_traces(ctx, data):
    rejected = []
    for lo in range(0, len(data), 2500):
        part = data[lo:lo + 2500]
        fd, path = tempfile.mkstemp(prefix="vf-c03-traces-", suffix=".json")
        with os.fdopen(fd, "w") as f:
            json.dump(part, f)
        try:
            r = ctx.tlc("Trace_ScriptVM", "Trace_ScriptVM", workers=1, env={"TRACE_FILE": path}, count=False, timeout=3000)
        finally:
            os.unlink(path)
        rej = None
        for rec in r.records:
            if isinstance(rec, dict) and rec.get("k") == "rejected":
                if rec["n"] != len(part):
                    raise MachineryError("Trace_ScriptVM saw %s traces, %d were sent" % (rec["n"], len(part)))
                rej = sorted(int(x) - 1 + lo for x in rec["ids"])
        if rej is None:
            raise MachineryError("Trace_ScriptVM printed no verdict: %s" % r.raw_tail[-5:])
        rejected += rej
    return rejected


STAGES = [("core", stage_core), ("coretx", stage_coretx), ("enum", stage_enum), ("sig", stage_sig), ("lock", stage_lock), ("spend", stage_spend), ("limits", stage_limits),
          ("cond", stage_cond), ("trace", stage_trace)]


def run(ctx):
    ctx.rule = ("cases are enumerated by TLC (interpreter transitions, signature-check stacks, spend shapes, conditional "
                "sequences) or listed scenario families whose verdict TLC computes; distinct_nontrivial counts distinct "
                "(stage, opcode/shape, flag configuration, consensus outcome) classes")
    ctx.assumptions += [
        "Bitcoin Core's script_tests.json (in the repository) is ground truth for the specification: the spec must agree with all of it",
        "ECDSA verification and signature hashes inside the signature oracle come from pycoin itself (properties C01/C04); key parsing and lax DER parsing are re-implemented from Core",
        "transaction versions are small non-negative integers",
    ]
    only = getattr(ctx, "only", None)
    batch = Batch(ctx)
    for name, f in STAGES:
        if only and name not in only:
            continue
        if name in ("core", "coretx", "spend", "limits"):
            f(ctx, batch)
        else:
            f(ctx)
    batch.run()
    ctx.exhaustive = False
