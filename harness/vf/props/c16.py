"""C16 - peer-to-peer messages round-trip through pack and parse; packed bytes are the wire encoding.

1. model: TLC checks the codec lemmas of spec/P2PMsg.tla letter by letter (MC_P2PCodec: decode . encode
   = id with nothing of the tail eaten, widths, byte order, truncation rejected) and, in every state of
   the replay run, Parse(Pack(m)) = m / re-packing gives the payload back / payload size = sum of the
   widths (MC_P2PReplay over spec/P2PGrid.tla; the parser is the cursor state machine P2PParse which
   reads embedded transactions with C07's TxParse).  The spec is first validated against the examples
   of the protocol documentation (ASSUME Vectors) and against real transactions / a real block.
2. spec -> code: every codec case (streamer.pack_struct / parse_struct) and every message case
   (network.message.pack / parse) TLC prints is executed on pycoin: bytes compared with the spec's,
   parse result compared field by field.  merkleblock cases carry the proofs of an honest BIP37 prover
   for every block size / traversal size (MC_P2PMerkle over C14's PartialMerkle.tla; hash terms
   evaluated with hashlib).  Sessions (MC_P2PSession over spec/P2PSession.tla): every sequence of
   steps - packs, updates of long-lived address / header / transaction objects, calls outside the
   property's quantifier that are refused half way - on ONE codec, each pack compared with the
   answer the (history-free) standard demands.
3. code -> spec: seeded random messages (long arrays, random values, real transactions and blocks) are
   packed and parsed by pycoin; the log is validated by TLC against spec/Trace_P2P.tla.
4. binding self-tests: a corrupted expected byte / a corrupted logged field must be rejected.
"""
from __future__ import annotations

import copy
import hashlib
import json
import os
import random
import re
import tempfile

from ..ctx import MachineryError, REPO
from ..drv import p2p as D
from ..drv.txwire import rle


# ---------------------------------------------------------------- real transactions and blocks (tests/)

def _sha256d(b):
    return hashlib.sha256(hashlib.sha256(b).digest()).digest()


def _merkle(hs):
    hs = list(hs)
    while len(hs) > 1:
        if len(hs) % 2:
            hs.append(hs[-1])
        hs = [_sha256d(hs[i] + hs[i + 1]) for i in range(0, len(hs), 2)]
    return hs[0]


def real_data():
    """-> (legacy tx bytes list, segwit tx bytes list, block bytes list).  Transactions from
    tests/btc/data/tx_valid.json, the block of tests/btc/parse_block_test.py, and blocks assembled from
    legacy transactions with the merkle root computed by hashlib (a block message is only parsed when
    the root matches)."""
    vec = [v for v in json.load(open(os.path.join(REPO, "tests/btc/data/tx_valid.json"))) if len(v) == 3]
    raws = []
    for v in vec:
        b = bytes.fromhex(v[1])
        if b not in raws:
            raws.append(b)
    segwit = [b for b in raws if b[4:6] == b"\x00\x01"]
    legacy = [b for b in raws if b[4:5] != b"\x00"]
    src = open(os.path.join(REPO, "tests/btc/parse_block_test.py")).read()
    m = re.search(r"block_data = h2b\(((?:\s*\"[0-9A-Fa-f]+\"\s*)+)\)", src)
    if not m or not legacy or not segwit:
        raise MachineryError("real transactions / block not found under tests/")
    blocks = [bytes.fromhex("".join(re.findall(r"\"([0-9A-Fa-f]+)\"", m.group(1))))]
    hdr0 = blocks[0][:80]
    for txs in (legacy[:1], legacy[1:3], legacy[3:6]):
        root = _merkle([_sha256d(t) for t in txs])
        blocks.append(hdr0[:36] + root + hdr0[68:] + bytes([len(txs)]) + b"".join(txs))
    return legacy, segwit, blocks


def write_pool(txs, blocks, proofs=()):
    fd, path = tempfile.mkstemp(prefix="vf-c16-pool-", suffix=".json")
    with os.fdopen(fd, "w") as f:
        json.dump({"tx": [rle(t) for t in txs], "block": [rle(b) for b in blocks],
                   "merkle": [{"n": p["n"], "hashes": [rle(h) for h in p["hashes"]], "flags": list(p["flags"]), "root": rle(p["root"])}
                              for p in proofs]}, f)
    return path


# ---------------------------------------------------------------- merkleblock: proofs of an honest prover

def _ev_term(t, leaf):
    """hash term of spec/Merkle.tla -> bytes (leaf: index -> 32 bytes)"""
    if t["op"] == "leaf":
        return leaf(t["i"])
    if t["op"] == "h256d":
        return _sha256d(_ev_term(t["l"], leaf) + _ev_term(t["r"], leaf))
    raise MachineryError("unknown hash term %r" % t["op"])


def merkle_proofs(ctx, salt=b""):
    """MC_P2PMerkle: one partial merkle tree per block size and traversal size (PartialMerkle.Build), each accepted by
    the BIP37 verifier state machine (lemma Accepted).  The hash terms are evaluated here; R2: the root term must be
    what hashlib gives level by level for the same leaves."""
    q = ctx.quick
    recs, meta = [], {}

    def on(rec):
        if rec.get("k") == "proof":
            recs.append(rec)
        elif rec.get("k") == "nproofs":
            meta["n"] = rec["n"]
    ctx.tlc("MC_P2PMerkle", "MC_P2PMerkle_q" if q else "MC_P2PMerkle_t", workers=4, on_record=on, keep_records=False, timeout=1800)
    if not recs or meta.get("n") != len(recs) or any(r["verdict"] != "accept" for r in recs):
        raise MachineryError("MC_P2PMerkle: %d proofs printed, %s expected" % (len(recs), meta.get("n")))

    def leaf(i):
        return hashlib.sha256(b"C16 leaf|%d|%d|" % (ctx.seed, i) + salt).digest()
    out = []
    for r in sorted(recs, key=lambda r: (r["n"], r["bits"])):
        root = _ev_term(r["root"], leaf)
        if root != _merkle([leaf(i) for i in range(1, r["n"] + 1)]):
            raise MachineryError("merkle root term of %d leaves disagrees with hashlib" % r["n"])
        flags = D.seq(r["flags"])
        if len(flags) != (r["bits"] + 7) // 8:
            raise MachineryError("flag bytes of a %d-bit traversal: %r" % (r["bits"], flags))
        out.append({"n": r["n"], "bits": r["bits"], "hashes": [_ev_term(h, leaf) for h in D.seq(r["hashes"])],
                    "flags": flags, "root": root, "matched": len(D.seq(r["matched"]))})
    ctx.extra["merkleblock_proofs"] = {"count": len(out), "block_sizes": sorted({p["n"] for p in out}),
                                       "flag_bits": sorted({p["bits"] for p in out})}
    ctx.log("merkleblock: %d honest proofs (block sizes %d..%d, %d..%d flag bits; whole flag bytes: %s)" % (
        len(out), min(p["n"] for p in out), max(p["n"] for p in out), min(p["bits"] for p in out), max(p["bits"] for p in out),
        sorted({p["bits"] for p in out if p["bits"] % 8 == 0})))
    return out


def fidelity(ctx, real):
    """R2: before it judges pycoin, the SPEC parses every real transaction / block (as a tx / block message) and
    re-packs it byte for byte (invariant RoundTrip of MC_P2PReplay, tier "p").  The abstract values it read are
    what the recorder later hands to pycoin - real data never passes through pycoin's own parser on its way in."""
    legacy, segwit, blocks = real
    pool = write_pool(legacy + segwit, blocks)
    got = {}

    def on(rec):
        if rec.get("k") == "msg":
            if rec["end"] != "done" or rec["left"] != 0 or rec["parsed"]["same"]:
                raise MachineryError("spec does not parse a real %s to its end" % rec["name"])
            f = D.seq(rec["parsed"]["fields"])[0]
            got[D.expand(rec["bytes"])] = D.plain(f["t"], f["v"])
    try:
        ctx.tlc("MC_P2PReplay", "MC_P2PReplay_pool", workers=8, env={"P2P_POOL": pool}, on_record=on, keep_records=False, timeout=1800)
    finally:
        os.unlink(pool)
    missing = [b for b in legacy + segwit + blocks if b not in got]
    if missing:
        raise MachineryError("spec did not parse and re-pack %d real transactions / blocks" % len(missing))
    ctx.extra["ground_truth_vectors"] = len(got) + 4
    ctx.log("fidelity: %d real transactions and %d blocks parse and re-pack byte for byte through P2PParse/P2PMsg" % (len(legacy) + len(segwit), len(blocks)))
    return [got[b] for b in legacy], [got[b] for b in segwit], [got[b] for b in blocks]


# ---------------------------------------------------------------- code -> spec: the recorder

def _rand_u(rnd, bits):
    r = rnd.random()
    if r < 0.4:
        e = rnd.randrange(0, bits + 1)
        return max(0, min((1 << bits) - 1, (1 << e) + rnd.choice([-1, 0, 1])))
    return rnd.getrandbits(bits)


def _rand_bytes(rnd, n, cheap=False):
    if n == 0:
        return b""
    if cheap or n > 400 or rnd.random() < 0.3:
        out = b""
        while len(out) < n:
            k = min(n - len(out), rnd.choice([1, 2, 31, 300, 70000, n]))
            out += bytes([rnd.choice([0, 1, 0xfc, 0xfd, 0xfe, 0xff, rnd.randrange(256)])]) * k
        return out
    return bytes(rnd.randrange(256) for _ in range(n))


def _rand_len(rnd, big):
    r = rnd.random()
    if r < 0.3:
        return rnd.choice([0, 1, 2, 0xfc, 0xfd, 0xfe, 0xff, 0x100])
    if big and r < 0.4:
        return rnd.choice([0xfffe, 0xffff, 0x10000, 0x10001, 70000 + rnd.randrange(1000)])
    return rnd.randrange(0, 90)


def _rand_ip(rnd):
    import ipaddress
    r = rnd.random()
    if r < 0.45:      # IPv4: the 16-byte form comes from the standard library
        a = bytes(rnd.choice([0, 1, 10, 127, 192, 255, rnd.randrange(256)]) for _ in range(4))
        return ipaddress.IPv6Address("::ffff:" + ".".join(str(x) for x in a)).packed
    if r < 0.6:
        return bytes([rnd.choice([0, 255])]) * 16
    return bytes(rnd.randrange(256) for _ in range(16))


class Gen:
    def __init__(self, rnd, real, big, proofs=()):
        self.rnd, self.big, self.proofs = rnd, big, list(proofs)
        self.legacy, self.segwit, self.blocks = real

    def tx(self):
        rnd = self.rnd
        r = rnd.random()
        if r < 0.5:
            return rnd.choice(self.legacy if r < 0.25 else self.segwit)
        nin, nout = rnd.randrange(1, 4), rnd.randrange(0, 4)
        ins = tuple((_rand_bytes(rnd, 32, rnd.random() < 0.5), _rand_u(rnd, 32), _rand_bytes(rnd, _rand_len(rnd, False)), _rand_u(rnd, 32),
                     tuple(_rand_bytes(rnd, _rand_len(rnd, False)) for _ in range(rnd.choice([0, 0, 1, 2])))) for _ in range(nin))
        outs = tuple((_rand_u(rnd, 64), _rand_bytes(rnd, _rand_len(rnd, False))) for _ in range(nout))
        return (_rand_u(rnd, 32), ins, outs, _rand_u(rnd, 32))

    def header(self):
        rnd = self.rnd
        return (_rand_u(rnd, 32), _rand_bytes(rnd, 32, rnd.random() < 0.5), _rand_bytes(rnd, 32, rnd.random() < 0.5),
                _rand_u(rnd, 32), _rand_u(rnd, 32), _rand_u(rnd, 32))

    def val(self, l, cheap=False):
        rnd = self.rnd
        if l == "L":
            return _rand_u(rnd, 32)
        if l == "Q":
            return _rand_u(rnd, 64)
        if l == "6":
            return _rand_u(rnd, 48)
        if l == "I":
            return rnd.choice([0, 1, 252, 253, 254, 255, 65535, 65536, 2 ** 32 - 1, 2 ** 32, 2 ** 64 - 1]) if rnd.random() < 0.4 else _rand_u(rnd, 64)
        if l == "1":
            return rnd.randrange(256)
        if l == "b":
            return rnd.random() < 0.5
        if l == "O":
            return rnd.choice([None, True, False])
        if l == "h":
            return _rand_u(rnd, 16)
        if l == "S":
            return _rand_bytes(rnd, 3 if cheap else _rand_len(rnd, self.big), cheap)
        if l == "#":
            return _rand_bytes(rnd, 32, cheap or rnd.random() < 0.5)
        if l == "A":
            return (_rand_u(rnd, 64), _rand_ip(rnd) if not cheap else bytes([rnd.randrange(256)]) * 16, _rand_u(rnd, 16))
        if l == "v":
            return (rnd.choice([1, 2, 3, 4, 0x40000001, 0x40000002, _rand_u(rnd, 32)]), _rand_bytes(rnd, 32, cheap or rnd.random() < 0.5))
        if l == "z":
            return self.header()
        if l == "T":
            return self.tx()
        if l == "B":
            return rnd.choice(self.blocks)
        raise ValueError(l)

    def field(self, t):
        rnd = self.rnd
        arr, ls = D.letters(t)
        if not arr:
            return self.val(ls)
        heavy = any(l in "TBz" for l in ls)
        r = rnd.random()
        if heavy:
            n = rnd.randrange(0, 5) if r < 0.9 or "T" in ls else rnd.choice([252, 253, 254])
        elif r < 0.55:
            n = rnd.randrange(0, 6)
        elif r < 0.8:
            n = rnd.choice([251, 252, 253, 254, 255, 256, 300])
        else:
            n = rnd.randrange(400, 2200 if self.big else 700)
        cheap = n > 40
        if len(ls) == 1:
            return tuple(self.val(ls, cheap) for _ in range(n))
        return tuple(tuple(self.val(l, cheap) for l in ls) for _ in range(n))

    def message(self, name, layout):
        rnd = self.rnd
        if name == "merkleblock":      # only a well-formed partial merkle tree is parsed (C14 owns the rest)
            h = self.header()
            if self.proofs and rnd.random() < 0.8:      # a proof of MC_P2PMerkle under a random header
                p = rnd.choice(self.proofs)
                return {"header": h[:2] + (p["root"],) + h[3:], "total_transactions": p["n"],
                        "hashes": tuple(p["hashes"]), "flags": tuple(p["flags"])}
            return {"header": h, "total_transactions": 1, "hashes": (h[2],), "flags": (rnd.choice([0, 1]),)}
        return {n: self.field(t) for n, t in layout}


TRACE_SYMS = ("BTC", "XTN", "LTC")      # XTN shares BTC's Tx class; LTC has Tx and Block classes of its own


def _ill_call(rnd, M, name, lay, kwargs):
    """a call outside the property's quantifier on the same codec (its outcome is free, nothing is logged): the last
    keyword missing, or a number below its range"""
    bad = dict(kwargs)
    nums = [n for n, t in lay if t in ("L", "Q", "1", "h") and n in bad]
    if nums and rnd.random() < 0.5:
        bad[nums[-1]] = -1
    else:
        del bad[lay[-1][0]]
    D.guarded((name, "illpack"), M.pack, name, **bad)


def record_traces(seed, count, big, layouts, real, proofs=(), stats=None):
    """drive pycoin on random messages; log what it did (no expectation is computed here).
    Messages that carry headers / blocks / transactions go to BTC, XTN and LTC in turn (all imported in this process).
    The codec of a network is one object for the whole recording; address and header objects live on between
    messages and are updated in place (drv.p2p.Live); now and then a call the codec has to refuse is made in between.
    -> list of events; an event that cannot be logged carries "direct" = (key suffix, what)."""
    rnd = random.Random(seed)
    g = Gen(rnd, real, big, proofs)
    live = D.Live(random.Random(seed + 1))
    rill = random.Random(seed + 2)
    nill = 0
    names = sorted(n for n in layouts if n != "alert_info")
    # an auxiliary packer for the structure inside alert.payload, from the SPEC's layout of it
    from pycoin.message.make_parser_and_packer import make_parser_and_packer
    ai_layout = layouts["alert_info"]
    D.use("BTC")
    _, ai_pack = make_parser_and_packer(D.streamer(), {"alert_info": " ".join("%s:%s" % nt for nt in ai_layout)}, {})
    evs = []
    for k in range(count):
        name = names[k % len(names)] if k < 2 * len(names) else rnd.choice(names)
        lay = layouts[name]
        sym = TRACE_SYMS[(k // len(names) + k) % len(TRACE_SYMS)] if name in D.CARRIERS else "BTC"
        D.use(sym)
        M = D.N().message
        ev = {"name": name, "layout": lay, "sym": sym}
        inner = None
        if name == "alert":
            inner = {n: g.field(t) for n, t in ai_layout}
            r = D.guarded(("alert_info", "pack"), ai_pack, "alert_info", **{n: D.api_field_from_plain(t, inner[n]) for n, t in ai_layout})
            if r[0] != "ok":
                if r[0] == "exc":
                    ev["fields"], ev["inner"], ev["direct"] = inner, None, ("alert-payload|pack|" + D.exc_what(r), r[2])
                    evs.append(ev)
                continue
            fields = {"payload": r[1], "signature": _rand_bytes(rnd, rnd.choice([0, 71, 72]))}
        else:
            fields = g.message(name, lay)
        ev["fields"] = fields
        ev["inner"] = inner
        live.begin()
        try:
            kwargs = {n: D.api_field_from_plain(t, fields[n], v4form=(k % 2 == 0), live=live) for n, t in lay}
        except Exception as e:
            ev["direct"] = ("construct|exc=" + type(e).__name__, repr(e)[:300])
            evs.append(ev)
            continue
        if lay and rill.random() < 0.2:
            _ill_call(rill, M, name, lay, kwargs)
            nill += 1
        r = D.guarded((name, "pack"), M.pack, name, **kwargs)
        if r[0] == "skipped":
            continue
        if r[0] == "exc":
            ev["direct"] = ("pack|" + D.exc_what(r), r[2])
            evs.append(ev)
            continue
        b = r[1]
        ev["bytes"] = bytes(b)
        r = D.guarded((name, "parse"), M.parse, name, b)
        if r[0] == "skipped":
            continue
        if r[0] == "exc":
            ev["direct"] = ("parse|" + D.exc_what(r), r[2])
            evs.append(ev)
            continue
        d = r[1]
        try:
            ev["parsed"] = {}
            for n, t in lay:
                if n not in d:
                    raise D.Unprojectable("field=%s|missing" % n)
                ce = D.class_errors(t, d[n], D.N())
                if ce:
                    raise D.Unprojectable("field=%s|class=%s|expected=%s" % (n, ce[0][0], ce[0][1]))
                try:
                    ev["parsed"][n] = D.proj_field(t, d[n])
                    D.to_abs_field(t, ev["parsed"][n])
                except D.Unprojectable as e:
                    raise D.Unprojectable("field=%s|type=%s" % (n, str(e).split(":")[0]))
            if inner is not None:
                ev["alert_info"] = {n: D.proj_field(t, d["alert_info"][n]) for n, t in ai_layout}
        except D.Unprojectable as e:
            ev["direct"] = ("parse|" + str(e), "the parsed value is not of the field's type / the network's class")
        except KeyError as e:
            ev["direct"] = ("parse|alert_info|missing", repr(e))
        evs.append(ev)
    D.use("BTC")
    if stats is not None:
        stats["objects_updated_in_place"] = stats.get("objects_updated_in_place", 0) + live.updated
        stats["refused_calls_in_between"] = stats.get("refused_calls_in_between", 0) + nill
    return evs


def trace_json(ev, layouts):
    lay = ev["layout"]
    j = {"name": ev["name"],
         "fields": {n: D.to_abs_field(t, ev["fields"][n]) for n, t in lay},
         "bytes": rle(ev["bytes"]),
         "parsed": {n: D.to_abs_field(t, ev["parsed"][n]) for n, t in lay}}
    if ev["inner"] is not None:
        ai = layouts["alert_info"]
        j["inner"] = {n: D.to_abs_field(t, ev["inner"][n]) for n, t in ai}
        j["alert_info"] = {n: D.to_abs_field(t, ev["alert_info"][n]) for n, t in ai}
    return j


def validate_traces(ctx, tjson, workers=4):
    """-> (set of rejected 0-based indices, reasons keyed by index)"""
    fd, path = tempfile.mkstemp(prefix="vf-c16-traces-", suffix=".json")
    with os.fdopen(fd, "w") as f:
        json.dump(tjson, f)
    try:
        r = ctx.tlc("Trace_P2P", "Trace_P2P", workers=workers, env={"TRACE_FILE": path}, count=False, timeout=3000)
    finally:
        os.unlink(path)
    acc = {rec["tid"] - 1 for rec in r.records if rec.get("k") == "acc"}
    why = {rec["tid"] - 1: rec for rec in r.records if rec.get("k") == "rej"}
    if acc & set(why) or not r.ok:
        raise MachineryError("trace run inconsistent: %s" % r.raw_tail[-5:])
    rej = set(range(len(tjson))) - acc
    return rej, why


def _ttag(ev):
    return "trace" if ev["sym"] == "BTC" else "trace@" + ev["sym"]


def _trace_key(ev, why):
    """class-level key of a rejected trace: which conjunct failed, at which field, sent/parsed classes"""
    if why is None:
        return "C16|%s|%s|rejected|parser-did-not-terminate" % (_ttag(ev), ev["name"])
    failed = ",".join(sorted(D.seq(why["failed"])))
    fld = why.get("field", "")
    extra = ""
    if fld and fld in ev["fields"] and fld in ev.get("parsed", {}):
        t = dict(ev["layout"])[fld]
        if t[0] != "[":
            extra = "|sent=%s|parsed=%s" % (D.cls(ev["fields"][fld]), D.cls(ev["parsed"][fld]))
    return "C16|%s|%s|rejected|failed=%s|field=%s%s" % (_ttag(ev), ev["name"], failed, fld, extra)


def _traces(ctx, layouts, real, proofs=()):
    q = ctx.quick
    n = 480 if q else 3000
    stats = {}
    evs = record_traces(ctx.seed * 104729 + 16, n, False, layouts, real, proofs, stats)
    evs += record_traces(ctx.seed * 104729 + 160, n // 8, True, layouts, real, proofs, stats)
    ctx.extra["trace_history"] = stats
    ctx.case(None, len(evs))
    logged = []
    for e in evs:
        if "direct" in e:
            ctx.fail("C16|%s|%s|%s" % (_ttag(e), e["name"], e["direct"][0]),
                     "recorded session (%s): %s on %s" % (e["sym"], e["direct"][0], e["name"]),
                     {"fields": D._short(e["fields"], 2000), "error": e["direct"][1]})
        else:
            logged.append(e)
    tj = [trace_json(e, layouts) for e in logged]
    size = 350
    accepted = []
    for a in range(0, len(tj), size):
        b = min(len(tj), a + size)
        rej, why = validate_traces(ctx, tj[a:b], workers=8)
        ctx.traces += (b - a) - len(rej)
        accepted += [i for i in range(a, b) if i - a not in rej]
        for i in sorted(rej):
            e = logged[a + i]
            ctx.fail(_trace_key(e, why.get(i)), "recorded pycoin run is not a behaviour of P2PMsg/P2PParse: %s %s" % (e["name"], why.get(i)),
                     {"fields": D._short(e["fields"], 2000), "bytes": e["bytes"][:300].hex(), "parsed": D._short(e["parsed"], 2000), "verdict": why.get(i)})
    for e in logged[:2]:
        ctx.sample({"trace": {"name": e["name"], "fields": D._short(e["fields"], 400), "bytes": e["bytes"][:80].hex()}})
    ctx.extra["trace_events"] = len(evs)
    ctx.extra["trace_events_by_network"] = {sy: sum(1 for e in evs if e["sym"] == sy) for sy in TRACE_SYMS}
    ctx.extra["trace_messages_covered"] = len({e["name"] for e in logged})
    ctx.extra["trace_longest_array"] = max((len(v) for e in logged for v in e["fields"].values() if isinstance(v, tuple)), default=0)
    # binding self-test: take traces TLC accepted; corrupt one logged field, one byte, one parsed value
    base = []
    for want in ("ping", "addr", "version", "inv", "getblocks"):
        i = next((i for i in accepted if logged[i]["name"] == want and _mutable(logged[i])), None)
        if i is not None:
            base.append(i)
    base = base[:2]
    if not base:
        ctx.selftests["trace_rejects_corrupted_field"] = "skipped (TLC accepted no trace to corrupt)"
        return
    batch, expect = [], set()
    for i in base:
        g = tj[i]
        lay = logged[i]["layout"]
        batch.append(g)
        for what in ("fields", "bytes", "parsed"):
            bad = copy.deepcopy(g)
            if what == "bytes":
                runs = bad["bytes"]
                runs[0] = [runs[0][0] ^ 0x80, runs[0][1]]
                if len(runs) > 1 and runs[1][0] == runs[0][0]:
                    runs[0][0] ^= 0x40
            else:
                n, t = lay[0]
                bad[what][n] = _mutate_abs(t, bad[what][n])
            expect.add(len(batch))
            batch.append(bad)
    rej, _ = validate_traces(ctx, batch, workers=1)
    ctx.selftest("trace_rejects_corrupted_field", rej == expect)


def _mutable(ev):
    lay = ev["layout"]
    if not lay or not ev["bytes"]:
        return False
    n, t = lay[0]
    arr, ls = D.letters(t)
    return ls[0] in "LQ6I1hbA#Sv" and (not arr or len(ev["fields"][n]) > 0)


def _mutate_abs(t, v):
    """change an abstract value into another value of the same type"""
    arr, ls = D.letters(t)
    if arr:
        v = list(v)
        if len(ls) == 1:
            v[0] = _mutate_abs(ls, v[0])
        else:
            v[0] = [_mutate_abs(ls[0], v[0][0])] + list(v[0][1:])
        return v
    l = ls
    if l in "LQ6I":
        return [v[0] ^ 1] + list(v[1:])
    if l in "1h":
        return v ^ 1
    if l == "b":
        return not v
    if l in "S#":
        return [[v[0][0] ^ 1, v[0][1]]] + [list(r) for r in v[1:]] if v and (len(v) < 2 or v[1][0] != v[0][0] ^ 1) else [[7, 1]] + ([] if l == "S" else [[8, 31]])
    if l == "A":
        return dict(v, port=v["port"] ^ 1)
    if l == "v":
        return dict(v, type=[v["type"][0] ^ 1, v["type"][1]])
    raise ValueError(l)


# ---------------------------------------------------------------- sessions: one codec, long-lived objects

def _sessions(ctx, pool):
    """MC_P2PSession enumerates every session over its alphabet.  -> [(alphabet, sessions)] per family"""
    out = []
    for cfg in (("MC_P2PSession_q",) if ctx.quick else ("MC_P2PSession_t", "MC_P2PSession_t4")):
        alpha, sessions = {}, []

        def on(rec, alpha=alpha, sessions=sessions):
            if rec.get("k") == "alphabet":
                alpha.update(rec)
            elif rec.get("k") == "session":
                sessions.append(rec)
        ctx.tlc("MC_P2PSession", cfg, workers=4, env={"P2P_POOL": pool}, on_record=on, keep_records=False, timeout=3000)
        if not alpha or not sessions or len(sessions) != alpha.get("nsessions"):
            raise MachineryError("%s: %d sessions printed, the alphabet announces %s" % (cfg, len(sessions), alpha.get("nsessions")))
        alpha["steps"] = D.seq(alpha["steps"])
        out.append((alpha, sessions))
    return out


def _run_sessions(ctx, pool):
    """every session executed in order on the BTC codec of this process (one object for the whole run) with one API
    object per store entry.  -> the first family (it also goes to the other networks)"""
    stats = {}
    families = _sessions(ctx, pool)
    fails = {}
    kept = []
    total = 0
    for alpha, sessions in families:
        kinds = [D.step_kind(st) for st in alpha["steps"]]
        for se in sessions:
            steps = D.seq(se["steps"])
            ctx.case(("session",) + tuple(kinds[k - 1] for k in steps))
            ctx.action("replay.session." + kinds[steps[-1] - 1])
            f = D.run_session(alpha, se, "BTC", stats)
            for key, what, detail in f:
                fails.setdefault(key, (what, detail))
            if not f and len(kept) < 2 and _stale_candidate(alpha, steps, se):
                kept.append((alpha, se))
        total += len(sessions)
        ctx.extra.setdefault("sessions", []).append({"steps_per_session": alpha["slen"], "alphabet": kinds, "sessions": len(sessions)})
    ctx.replayed += total
    ctx.extra["session_calls_outside_the_quantifier"] = stats
    ctx.log("sessions: %d executed on one codec, %d disagreement classes; %d of %d calls outside the quantifier were refused" % (
        total, len(fails), stats.get("ill_raised", 0), stats.get("ill_calls", 0)))
    for key, (what, detail) in fails.items():
        ctx.fail(key, what, detail)
    # binding self-tests on a session pycoin passed: [pack m(o), set o.x, pack m(o)]
    if not kept:
        ctx.selftests["session_rejects_corrupted_expected_bytes"] = "skipped (pycoin passed no such session)"
        ctx.selftests["session_rejects_stale_answer"] = "skipped (pycoin passed no such session)"
        return families[0]
    alpha, se = kept[0]
    bad = copy.deepcopy(se)
    bad["ans"][0]["bytes"] = ["ff"] + D.seq(bad["ans"][0]["bytes"])
    ctx.selftest("session_rejects_corrupted_expected_bytes", any("|pack|bytes-differ" in k for k, _, _ in D.run_session(alpha, bad)))
    bad = copy.deepcopy(se)
    bad["ans"][2] = copy.deepcopy(bad["ans"][0])      # what the object held when it was packed first
    f = D.run_session(alpha, bad)
    ctx.selftest("session_rejects_stale_answer", any("history=pack+set|pack|bytes-differ" in k for k, _, _ in f))
    return families[0]


def _stale_candidate(alpha, steps, se):
    a, b, c = (alpha["steps"][k - 1] for k in steps[:3]) if len(steps) >= 3 else (None, None, None)
    return bool(a) and a["op"] == "pack" and b["op"] == "set" and steps[0] == steps[2] and se["ans"][0] != se["ans"][2]


# ---------------------------------------------------------------- several networks in one process, both import orders

ORDER = ["BTC", "XTN", "LTC", "XLT", "BTG", "XTG"]
DRIVE = ["BTC", "XTN", "LTC", "XLT", "XTG"]     # Bitcoin header format: the spec's cases apply as they are
NATIVE = ["BTG"]                                # a header format of its own: format-independent check only


def _multi_network(ctx, carriers, session_family=None):
    """BTC/XTN/XLT share one Tx class, BTG/XTG another, LTC has its own; each network has its own block class.
    Fresh subprocess per import order; all networks imported first, then every header / block / tx carrying case
    on each: the spec's bytes, and objects of THAT network's classes."""
    import subprocess
    import sys
    jobs = []
    for order in (ORDER, ORDER[::-1]):
        fd, path = tempfile.mkstemp(prefix="vf-c16-multi-", suffix=".json")
        with os.fdopen(fd, "w") as f:
            job = {"order": order, "drive": DRIVE, "native": NATIVE, "cases": carriers, "tripped": sorted(D.TRIPPED)}
            if session_family and order == ORDER:      # the sessions once per network (the codec is per network)
                job["sessions"] = {"alphabet": session_family[0], "sessions": session_family[1]}
            json.dump(job, f)
        p = subprocess.Popen([sys.executable, "-m", "vf.drv.p2p_multi", path], stdout=subprocess.PIPE, stderr=subprocess.PIPE, text=True)
        jobs.append((order, path, p))
    total = 0
    for order, path, p in jobs:
        try:
            out, err = p.communicate(timeout=1500)
        except subprocess.TimeoutExpired:
            p.kill()
            ctx.fail("C16|multi|import-order=%s|hang" % ",".join(order), "the multi-network worker did not finish", None)
            continue
        finally:
            os.unlink(path)
        if p.returncode in (-9, 137):
            ctx.fail("C16|multi|import-order=%s|killed" % ",".join(order), "the multi-network worker was killed (memory)", err[-500:])
            continue
        if p.returncode != 0:
            raise MachineryError("multi-network worker failed (order %s): %s" % (order, err[-1500:]))
        res = json.loads(out)
        total += res["executed"]
        ctx.log("networks imported in the order %s: %d executions, %d disagreement classes%s" % (
            ",".join(order), res["executed"], len(res["fails"]),
            "" if not res["skipped"] else ", %d calls skipped after a hang / MemoryError" % res["skipped"]))
        for key, what, detail in res["fails"]:
            ctx.fail(key, what, detail)
        ctx.action("replay.networks." + ",".join(order), res["executed"])
    ctx.case(None, total)
    ctx.replayed += total
    ctx.extra["networks"] = ORDER


# ---------------------------------------------------------------- single-case replay (./check C16 --replay FILE)

def replay(ctx, obj):
    """re-execute the failing case stored in a replay file on the pycoin under test"""
    d = obj.get("detail") or {}
    rec = d.get("case")
    print("replaying %s" % obj.get("key"))
    if isinstance(rec, dict) and rec.get("k") == "msg":
        for sym in d.get("import_order") or []:
            D.network(sym)
        fails = D.check_msg_record(rec, d.get("network", "BTC"))
    elif isinstance(rec, dict) and rec.get("k") == "codec":
        fails = D.check_codec_record(rec)
    elif isinstance(rec, dict) and rec.get("k") == "session":
        for sym in d.get("import_order") or []:
            D.network(sym)
        fails = D.run_session(d["alphabet"], rec, d.get("network", "BTC"))
    else:
        print(json.dumps(obj, indent=1)[:4000])
        print("(a recorded session: re-run ./check C16 with the same VERIF_SEED to reproduce it)")
        return
    for key, what, detail in fails:
        print("  still fails:", key, "-", json.dumps(detail.get("detail"))[:300])
        ctx.fail(key, what, detail)
    if not fails:
        print("  the case passes on this tree")


# ---------------------------------------------------------------- run

def _mutant_lemmas(ctx, pool):
    """the lemmas themselves have teeth: each deliberately wrong codec (cfg substitution) violates one"""
    for cfg, inv in (("MC_P2PCodec_mut_port", "ByteOrder"), ("MC_P2PCodec_mut_cs", "RoundTrip"), ("MC_P2PCodec_mut_v4", "V4Law")):
        try:
            r = ctx.tlc("MC_P2PCodec", cfg, workers=2, env={"P2P_POOL": pool}, expect_ok=False, count=False)
            bad = not r.ok
        except Exception as e:       # a false ASSUME stops TLC before model checking
            bad = "Assumption" in str(e) or "assumption" in str(e)
        ctx.selftest("lemma_has_teeth_" + cfg, bad)


def run(ctx):
    q = ctx.quick
    only = getattr(ctx, "only", None)
    ctx.rule = ("replay: every case of spec/P2PGrid.tla (base / one field at its boundary values / all-low / all-high"
                + ("" if q else " / every pair of fields") + "; arrays of 0,1,2,253" + ("" if q else ",252,254,300")
                + " elements) packed by P2PMsg.Pack, parsed by the state machine P2PParse (lemmas in every state) and executed on "
                "pycoin's network.message.pack/parse, plus every boundary value of every type letter through the streamer; "
                "merkleblock: one honest BIP37 proof per block size 1..%d and traversal size (MC_P2PMerkle); sessions: every sequence of %s "
                "steps of MC_P2PSession's alphabet (packs, updates of long-lived address / header / transaction objects, calls outside "
                "the quantifier) on one codec; "
                "distinct_nontrivial = distinct (message, per field: type and size class 0/<253/<65536/>=65536 of its encoding), "
                "(letter, value) for codec cases and the sequence of step kinds for sessions" % ((9, "3") if q else (12, "3 (wide alphabet) / 4")))
    ctx.assumptions += ["field names are pycoin's (the keyword API); types, order and encodings are the standard's (protocol documentation, BIPs 31/35/37/61/130/133/144/152/155)",
                        "the full grid and the codecs on the BTC network object; the header / block / tx carrying messages also on XTN, LTC, XLT, XTG (all six networks incl. BTG imported in one fresh process, both import orders; BTG, whose header format is its own, format-independent check only); traces on BTC, XTN, LTC; embedded transactions have >= 1 input; blocks have >= 1 transaction and a correct merkle root (real block of tests/ and blocks assembled from real transactions, root by hashlib)",
                        "merkleblock: only proofs an honest BIP37 prover sends (the parser verifies the tree; corrupted proofs and tx_hashes are C14's); alert: only well-formed payloads",
                        "long-lived objects: PeerAddress, block header and Tx objects are plain mutable records (public attributes, Block.set_nonce); a message carries the value an object holds when it is packed. InvItem (hashable) is not updated in place",
                        "calls outside the property's quantifier (missing keyword, number out of range, value of another kind, truncated payload) may do anything themselves; they are made between the observed calls",
                        "array counts up to 300 in the grid and about 2,200 in traces; strings up to 70,000 bytes; counts >= 2^31 out of reach of TLC integers",
                        "getblocktxn / prefilled indexes are the differentially encoded compact sizes as they are on the wire",
                        "TLC/SANY, CPython"]
    real = real_data()
    proofs = merkle_proofs(ctx)
    pool = write_pool([real[0][0], real[1][0]], real[2][:3], proofs)
    try:
        real_abs = fidelity(ctx, real)
        # ---- 1/2. codecs: lemmas + spec -> code at the streamer level; layouts
        layouts = {}
        n_codec = [0]
        fails = []

        def on_codec(rec):
            if rec.get("k") == "layout":
                layouts[rec["name"]] = [(f["n"], f["t"]) for f in D.seq(rec["fields"])]
            elif rec.get("k") == "codec":
                n_codec[0] += 1
                ctx.case(("codec", rec["l"], json.dumps(rec["v"], sort_keys=True)))
                f = D.check_codec_record(rec)
                fails.extend(f)
                if not f:
                    on_codec.last = rec
        r = ctx.tlc("MC_P2PCodec", "MC_P2PCodec", workers=4, env={"P2P_POOL": pool}, on_record=on_codec, keep_records=False,
                    )
        if n_codec[0] == 0 or len(layouts) < 2:
            raise MachineryError("MC_P2PCodec printed no case / no layout")
        ctx.replayed += n_codec[0]
        ctx.action("replay.codec", n_codec[0])
        ctx.log("codec level: %d values of %d type letters executed on the streamer" % (n_codec[0], 14))
        # the library's message names are exactly the spec's (names only are read from pycoin)
        from pycoin.message.make_parser_and_packer import standard_messages
        lib = set(standard_messages())
        spec = set(layouts) - {"alert_info"}
        if lib - spec:
            raise MachineryError("the library defines messages the spec has no layout for: %s" % sorted(lib - spec))
        ctx.extra["messages"] = len(spec)
        # self-test: corrupt one expected byte of one codec case
        if getattr(on_codec, "last", None) is None:
            ctx.selftests["replay_rejects_corrupted_codec_bytes"] = "skipped (pycoin passed no codec case to corrupt)"
        else:
            bad = copy.deepcopy(on_codec.last)
            bad["bytes"] = ["ff"] + D.seq(bad["bytes"])
            ctx.selftest("replay_rejects_corrupted_codec_bytes", any("bytes-differ" in k for k, _, _ in D.check_codec_record(bad)))
        if not q and (not only or "mut" in only):
            _mutant_lemmas(ctx, pool)

        # ---- 2. messages: lemmas in every state + spec -> code
        if not only or "msg" in only:
            n_msg = [0, 0]
            keep = {}
            carriers = []

            def on_msg(rec):
                if rec.get("k") == "ncases":
                    n_msg.append(rec["n"])
                if rec.get("k") != "msg":
                    return
                n_msg[0] += 1
                if rec["end"] != "done" or rec["left"] != 0:
                    raise MachineryError("replay case did not parse to the end in the spec: %s" % rec["name"])
                if rec["name"] == "alert_info":       # not a message: model only
                    return
                n_msg[1] += 1
                ctx.case(D.msg_class(rec))
                ctx.action("replay.msg." + rec["name"])
                if n_msg[0] % 211 == 0:
                    ctx.sample({"case": rec if len(json.dumps(rec)) < 1500 else {"name": rec["name"], "truncated": json.dumps(rec)[:1200]}})
                f = D.check_msg_record(rec)
                fails.extend(f)
                if rec["name"] in D.CARRIERS:
                    carriers.append(rec)
                fl = D.seq(rec["fields"])
                if not f and "num" not in keep and fl and fl[0]["t"] in ("L", "Q") and rec["parsed"]["same"]:
                    keep["num"] = rec
            ctx.tlc("MC_P2PReplay", "MC_P2PReplay_q" if q else "MC_P2PReplay_t", workers=16, env={"P2P_POOL": pool},
                    on_record=on_msg, keep_records=False, timeout=3000)
            # vacuity guard (TLC's -coverage is prohibitively slow on this spec): every message has cases
            seen = {k[len("replay.msg."):] for k in ctx.by_action if k.startswith("replay.msg.")}
            if seen != spec:
                raise MachineryError("messages without a replayed case: %s" % sorted(spec - seen))
            if n_msg[1] == 0 or len(n_msg) != 3 or n_msg[2] != n_msg[0]:
                raise MachineryError("MC_P2PReplay: %d cases printed, the case set has %s (a case did not reach a terminal state)" % (n_msg[0], n_msg[2:]))
            ctx.replayed += n_msg[1]
            ctx.log("message level: %d cases from TLC (%d executed on pycoin), %d disagreements so far" % (n_msg[0], n_msg[1], len(fails)))
            # binding self-tests: take a case pycoin passed; corrupt one expected byte / one expected parsed value
            if "num" not in keep:
                ctx.selftests["replay_rejects_corrupted_expected_bytes"] = "skipped (pycoin passed no case to corrupt)"
                ctx.selftests["replay_rejects_corrupted_expected_field"] = "skipped (pycoin passed no case to corrupt)"
            else:
                bad = copy.deepcopy(keep["num"])
                tok = D.seq(bad["bytes"])
                bad["bytes"] = ["%02x" % (int(tok[0][:2], 16) ^ 1) + tok[0][2:]] + tok[1:] if tok[0][0] != "*" else ["01"] + tok
                f = D.check_msg_record(bad)
                ctx.selftest("replay_rejects_corrupted_expected_bytes", any("|pack|bytes-differ" in k for k, _, _ in f))
                bad = copy.deepcopy(keep["num"])
                pf = copy.deepcopy(D.seq(bad["fields"]))
                pf[0]["v"] = [pf[0]["v"][0] ^ 1] + list(pf[0]["v"][1:])
                bad["parsed"] = {"same": False, "fields": pf}
                f = D.check_msg_record(bad)
                ctx.selftest("replay_rejects_corrupted_expected_field", any("|parse|field=" + pf[0]["n"] in k for k, _, _ in f))
        for key, what, detail in fails:
            ctx.fail(key, what, detail)
        family = None
        if not only or "session" in only:
            family = _run_sessions(ctx, pool)
        if not only or "msg" in only:
            _multi_network(ctx, carriers, family)

        # ---- 3. code -> spec
        if not only or "traces" in only:
            _traces(ctx, layouts, real_abs, proofs)
    finally:
        os.unlink(pool)
    if D.TRIPPED:
        ctx.extra["calls_not_repeated_after_hang_or_memoryerror"] = {"pairs": sorted("%s.%s" % p for p in D.TRIPPED), "skipped": D.SKIPPED[0]}
    ctx.exhaustive = True
