"""C12 - script integers, data pushes and script text encode canonically and losslessly.

Specs: spec/ScriptNum.tla (CScriptNum codec + MINIMALDATA rule), spec/ScriptPush.tla (shortest
push, instruction decoder as a cursor machine, Core's CheckMinimalPush), spec/Disasm.tla (token
language, compile(disassemble(s)) = s).

0. R2: the specs are first validated, by TLC, against what Bitcoin Core recorded in
   tests/btc/data/script_tests.json (number encodings, MINIMALDATA verdicts, truncated PUSHDATAs).
1. model: MC_ScriptNum / MC_ScriptPush / MC_Disasm check the lemmas on their case spaces and
2. spec -> code: print every case with the demanded outcome; each is executed on pycoin
   (IntStreamer, ScriptStreamer.compile_push_data / get_opcode, the VM with MINIMALDATA,
   ScriptTools.compile / disassemble).
3. code -> spec: seeded random integers (to 96 bits), byte strings, and script sessions
   (assemble with pycoin, walk with get_opcode, truncate, disassemble + recompile) are logged
   and validated by TLC against Trace_ScriptCodec.
"""
from __future__ import annotations

import collections
import copy
import json
import multiprocessing as mp
import os
import random
import re
import tempfile

from ..ctx import MachineryError, REPO
from ..drv import scriptcodec as drv
from ..par import NPROC

# ------------------------------------------------------------------ classes used in keys


def _lenclass(n):
    for name, lo, hi in (("0", 0, 0), ("1", 1, 1), ("2-75", 2, 75), ("76-255", 76, 255), ("256", 256, 256),
                         ("257-65535", 257, 65535), ("65536", 65536, 65536)):
        if lo <= n <= hi:
            return name
    return ">65536" if n < 0x7fffffff else ">=2^31-1"


def _byteclass(x):
    if x == 0:
        return "00"
    if x < 0x80:
        return "01-7f"
    if x == 0x80:
        return "80"
    return "81-ff"


def _hdr_facts(script, pc):
    """input-class facts about the instruction at pc (no expectation): opcode, header cut short, announced size"""
    op = script[pc]
    w = {0x4c: 1, 0x4d: 2, 0x4e: 4}.get(op, 0)
    field = script[pc + 1:pc + 1 + w]
    short = len(field) < w
    size = op if 1 <= op <= 75 else (int.from_bytes(field, "little") if w and not short else 0)
    return "%02x" % op, short, _lenclass(size)


# ------------------------------------------------------------------ spec -> code workers
# every worker takes a list of TLC records and returns (n_evaluated, [fail tuples], set(classes), Counter)

def _replay_num(recs):
    fails, classes, n = [], set(), 0
    for r in recs:
        if r["k"] == "dec":
            b = bytes(r["b"])
            v = drv.to_int(r["neg"], r["mag"])
            top = _byteclass(b[-1]) if b else "-"
            classes.add(("dec", len(b), top, _byteclass(b[-2]) if len(b) > 1 else "-", r["min"]))
            lax = drv.int_decode(b, False)
            n += 1
            if lax.get("v") != v:
                fails.append(("C12|int_from_script_bytes|value|len=%d|top=%s|got=%s" % (len(b), top, "exc:" + lax["exc"] if "exc" in lax else "other-value"),
                              "int_from_script_bytes(%s) gave %r, the spec decodes %d" % (b.hex(), lax, v),
                              {"rec": r, "got": repr(lax)}))
            strict = drv.int_decode(b, True)
            n += 1
            if r["min"]:
                ok = strict.get("v") == v
                got = "raise" if "exc" in strict else "other-value"
            else:
                ok = strict.get("script_error") is True
                got = "accept" if "v" in strict else "exc:" + strict["exc"]
            if not ok:
                fails.append(("C12|int_from_script_bytes|strict|minimal=%s|len=%d|top=%s|got=%s" % (r["min"], len(b), top, got),
                              "int_from_script_bytes(%s, require_minimal=True) gave %r; minimal form: %s, value %d" % (b.hex(), strict, r["min"], v),
                              {"rec": r, "got": repr(strict)}))
        elif r["k"] == "enc":
            v = drv.to_int(r["neg"], r["mag"])
            want = bytes(r["enc"])
            classes.add(("enc", r["neg"], len(want), bool(r["mag"]) and r["mag"][-1] >= 128))
            got = drv.int_encode(v)
            n += 1
            if got.get("out") != want:
                fails.append(("C12|int_to_script_bytes|width=%d|neg=%s|got=%s" % (len(want), r["neg"], "exc:" + got["exc"] if "exc" in got else "width=%d" % len(got["out"])),
                              "int_to_script_bytes(%d) gave %s, the spec encodes %s" % (v, got["out"].hex() if "out" in got else got, want.hex()),
                              {"rec": r, "got": repr(got)}))
    return n, fails, classes, collections.Counter()


# what get_opcode did, in the words of ScriptPush!Fetch
_REPORT = {"ok": "ok", "bad": "malformed", "nonminimal": "nonminimal"}


def _check_items(script, items, fails, detail, tag=""):
    """walk `script` with get_opcode and compare with the spec's instruction list; returns evaluations"""
    n = 0
    for it in items:
        pc = it["at"]
        opx, short, sizecls = _hdr_facts(script, pc)
        g = drv.get_opcode(script, pc, False)
        g2 = drv.get_opcode(script, pc, True)
        n += 2
        if not it["ok"]:
            why = "length-field" if "length" in it["why"] else "data"
            if g["res"] != "bad":
                fails.append(("C12|get_opcode%s|truncated-%s|op=%s|expected=malformed|got=%s" % (tag, why, opx, g["res"]),
                              "get_opcode(%s, %d) reports %r; the push is cut short in its %s: malformed" % (script[:40].hex(), pc, g, why), detail))
            if _REPORT.get(g2["res"], g2["res"]) != it["strict"]:
                fails.append(("C12|get_opcode%s|vmin|truncated-%s|op=%s|size=%s|expected=%s|got=%s" % (tag, why, opx, sizecls, it["strict"], g2["res"]),
                              "get_opcode(%s, %d, verify_minimal_data=True) reports %r; the push is cut short in its %s: %s "
                              "(an instruction is fetched before the minimal-push rule is asked)" % (script[:40].hex(), pc, g2, why, it["strict"]), detail))
            break
        want = {"res": "ok", "op": it["op"], "data": drv.expand(it["val"]) if it["push"] else None, "pc": it["pc"]}
        if g != want:
            field = "res" if g["res"] != "ok" else [f for f in ("op", "data", "pc") if g[f] != want[f]][0]
            fails.append(("C12|get_opcode%s|decode|op=%s|size=%s|differs=%s|got=%s" % (tag, opx, sizecls, field, g["res"]),
                          "get_opcode(%s.., %d) gave %s, the spec reads op=%d data=%d bytes next pc=%d" % (
                              script[:40].hex(), pc, _short(g), it["op"], len(want["data"] or b""), it["pc"]), detail))
            break
        if it["minok"]:
            if g2 != want:
                fails.append(("C12|get_opcode%s|minimal|op=%s|size=%s|expected=accept|got=%s" % (tag, opx, sizecls, g2["res"]),
                              "get_opcode(%s.., %d, verify_minimal_data=True) gave %s; CheckMinimalPush accepts this push (%d bytes by opcode 0x%s)" % (
                                  script[:12].hex(), pc, _short(g2), len(want["data"] or b""), opx), detail))
        elif g2["res"] != "nonminimal":
            fails.append(("C12|get_opcode%s|minimal|op=%s|size=%s|expected=reject|got=%s" % (tag, opx, sizecls, g2["res"]),
                          "get_opcode(%s.., %d, verify_minimal_data=True) gave %s; CheckMinimalPush rejects this push" % (
                              script[:12].hex(), pc, _short(g2)), detail))
    return n


def _short(g):
    g = dict(g)
    if isinstance(g.get("data"), bytes) and len(g["data"]) > 16:
        g["data"] = "%d bytes %s.." % (len(g["data"]), g["data"][:8].hex())
    elif isinstance(g.get("data"), bytes):
        g["data"] = g["data"].hex()
    return g


def _replay_push(recs):
    fails, classes, n = [], set(), 0
    for r in recs:
        if r["k"] == "push":
            d = drv.expand(r["d"])
            want = drv.expand(r["enc"])
            classes.add(("push", r["op"], _lenclass(len(d))))
            got = drv.push(d)
            n += 1
            if got.get("out") != want or got.get("list_out") != want:
                gop = "exc:" + got["exc"] if "exc" in got else "%02x" % (got["out"] or got["list_out"] or b"\xff")[0]
                fails.append(("C12|compile_push_data|len=%s|expected_op=%02x|got_op=%s" % (_lenclass(len(d)), r["op"], gop),
                              "compile_push_data(%d bytes %s..) gave %s.., the shortest push is %s.." % (
                                  len(d), d[:4].hex(), (got.get("out") or b"")[:8].hex() if "out" in got else got, want[:8].hex()),
                              {"rec": _trim(r), "got": repr(got)[:200]}))
        elif r["k"] == "parse":
            try:
                with drv.time_limit(_TIME_LIMIT):
                    n += _parse_record(r, fails, classes)
            except drv.Hang:
                script = drv.expand(r["script"])
                fails.append(("C12|parse|cls=%s|op=%02x|hang" % (r["cls"], script[r["items"][-1]["at"]] if r["items"] else 0),
                              "pycoin did not return within %ds on script %s (get_opcode / get_opcodes / disassemble / VM): the cursor does not advance" % (
                                  _TIME_LIMIT, script[:40].hex()), {"rec": _trim(r)}))
    return n, fails, classes, collections.Counter()


_TIME_LIMIT = 10     # seconds per record / per recorded call group; a healthy call takes milliseconds


def _parse_record(r, fails, classes):
    """one {k:"parse"} record: get_opcode along the script, get_opcodes, disassemble, the VM"""
    n = 0
    script = drv.expand(r["script"])
    items = r["items"]
    detail = {"rec": _trim(r)}
    huge = r["cls"] == "huge"
    tag = "|len>=2^31-1" if huge else ""
    if items:
        classes.add(("parse", r["cls"], items[0]["op"], items[0]["ok"], items[0]["minok"], items[0]["why"], len(items),
                     _lenclass(len(drv.expand(items[0]["val"]))), script[1:5].hex() if huge else ""))
    n += _check_items(script, items, fails, detail, tag)
    # ScriptTools.get_opcodes: terminates, the cursor only moves forward, and it yields the spec's instructions
    # up to the first malformed one
    w = drv.walk(script)
    n += 1
    good = [[it["at"], it["pc"]] for it in items if it["ok"]]
    if "exc" in w:
        fails.append(("C12|get_opcodes%s|op=%02x|wf=%s|got=exc:%s" % (tag, script[items[-1]["at"]] if items else 0, r["wf"], w["exc"]),
                      "get_opcodes(%s) raised %s after %d steps" % (script[:40].hex(), w["exc"], len(w["steps"])), detail))
    elif any(b <= a for a, b in w["steps"]):
        a, b = [x for x in w["steps"] if x[1] <= x[0]][0]
        fails.append(("C12|get_opcodes%s|op=%02x|cursor-not-advancing" % (tag, script[a]),
                      "get_opcodes(%s): the cursor goes from %d to %d" % (script[:40].hex(), a, b), detail))
    elif w["steps"][:len(good)] != good or (r["wf"] and len(w["steps"]) != len(good)):
        fails.append(("C12|get_opcodes%s|wf=%s|other-instructions" % (tag, r["wf"]),
                      "get_opcodes(%s) walks %s, the spec's instructions are %s" % (script[:40].hex(), w["steps"][:6], good[:6]), detail))
    # the VM as consumer of the decoder
    d = drv.expand(r["d"])
    if r["cls"] == "enc" and len(d) <= 520:
        for md in (False, True):
            got = drv.vm_run(script, md)
            n += 1
            if got.get("stack") != [d]:
                fails.append(("C12|vm|push|op=%02x|size=%s|minimaldata=%s|got=%s" % (items[0]["op"], _lenclass(len(d)), md, got.get("exc", "other-stack")),
                              "VM(flags=%s) on the minimal push of %d bytes (%s..): %s" % ("MINIMALDATA" if md else "0", len(d), script[:6].hex(), _shortvm(got)), detail))
    if not r["wf"]:
        bad = items[-1]
        why = "length-field" if "length" in bad["why"] else "data"
        for md in (False, True):
            got = drv.vm_run(script, md)
            n += 1
            if "stack" in got:
                fails.append(("C12|vm%s|truncated-%s|op=%02x|minimaldata=%s|expected=fail|got=ok" % (tag, why, bad["op"], md),
                              "VM(flags=%s) evaluates script %s without error although its push at %d is cut short" % (
                                  "MINIMALDATA" if md else "0", script[:40].hex(), bad["at"]), detail))
    if huge:
        # the disassembler must come back (no demand on the text of a malformed script)
        drv.asm_roundtrip(script)
        n += 1
    return n


def _shortvm(got):
    if "stack" in got:
        return "stack of %d items, top %d bytes" % (len(got["stack"]), len(got["stack"][-1]) if got["stack"] else -1)
    return "%s %s" % (got.get("exc"), got.get("msg", ""))


def _trim(r):
    """records can carry long token lists; keep replay files small"""
    s = json.dumps(r)
    return r if len(s) < 4000 else {"trimmed": s[:4000]}


def _rt(script):
    try:
        with drv.time_limit(_TIME_LIMIT):
            return drv.asm_roundtrip(script)
    except drv.Hang:
        return {"exc": "hang", "stage": "disassemble/compile"}


def _replay_asm(recs):
    fails, classes, n = [], set(), 0
    stats = collections.Counter()
    for r in recs:
        script = drv.expand(r["script"])
        rt = _rt(script)
        n += 1
        spec_text = r["text"] or drv.render(r["toks"])
        if r["text"] and r["text"] != drv.render(r["toks"]):
            fails.append(("MACHINERY", "harness renderer and Disasm!Text disagree: %r vs %r" % (r["text"], drv.render(r["toks"])), None))
        if r["claimed"]:
            classes.add(("asm", tuple(i[0] if i[0] > 78 or i[0] == 0 else -i[0] for i in r["instr"])))
            if rt.get("re") != script:
                culprit = "context|items=%d" % len(r["instr"])
                for op, at, pc in r["instr"]:
                    sub = script[at:pc]
                    if _rt(sub).get("re") != sub:
                        culprit = "item=%02x%s" % (op, "|size=" + _lenclass(pc - at) if 1 <= op <= 78 else "")
                        break
                fails.append(("C12|roundtrip|%s|got=%s" % (culprit, "exc:%s:%s" % (rt["stage"], rt["exc"]) if "exc" in rt else "other-bytes"),
                              "compile(disassemble(s)) != s for s=%s..(%d bytes): text %r -> %s" % (
                                  script[:24].hex(), len(script), (rt.get("text") or "")[:80], (rt.get("re") or b"")[:24].hex() if "re" in rt else rt),
                              {"rec": _trim(r), "got": repr(rt)[:300]}))
            # not demanded by the property (R1), only counted: same text as the spec's token language?
            stats["claimed"] += 1
            if rt.get("text") == spec_text:
                stats["text_equal_to_spec"] += 1
            elif len(stats) < 40:
                stats["text_differs:" + (rt.get("text") or "?")[:40]] += 1
        else:
            stats["unclaimed"] += 1
            if rt.get("re") == script:
                stats["unclaimed_roundtrips_anyway"] += 1
    return n, fails, classes, stats


class Stream:
    """feeds TLC records to worker processes while TLC is still running"""

    def __init__(self, func, chunk=1500):
        self.func, self.chunk = func, chunk
        self.buf, self.pending = [], []
        self.n, self.nrec = 0, 0
        self.fails, self.classes, self.stats = [], set(), collections.Counter()
        self.samples = []
        self.pool = mp.get_context("fork").Pool(NPROC)

    def feed(self, rec):
        self.nrec += 1
        if self.nrec % 9973 == 1 and len(self.samples) < 3:
            self.samples.append(_trim(rec))
        self.buf.append(rec)
        if len(self.buf) >= self.chunk:
            self._flush()

    def _flush(self):
        if self.buf:
            self.pending.append(self.pool.apply_async(self.func, (self.buf,)))
            self.buf = []
        while len(self.pending) > 6 * NPROC:
            self._collect(self.pending.pop(0))

    def _collect(self, ar):
        n, fails, classes, stats = ar.get()
        self.n += n
        self.fails += fails
        self.classes |= classes
        self.stats.update(stats)

    def finish(self):
        self._flush()
        for ar in self.pending:
            self._collect(ar)
        self.pending = []
        self.pool.close()
        self.pool.join()


def _report(ctx, name, s):
    for key, what, detail in s.fails:
        if key == "MACHINERY":
            raise MachineryError(what)
        ctx.fail(key, what, detail)
    ctx.case(None, s.n)
    for c in s.classes:
        ctx.case(c, 0)
    ctx.replayed += s.nrec
    ctx.action("replay." + name, s.nrec)
    for x in s.samples:
        ctx.sample({name: x})
    ctx.log("replayed %d records of %s (%d calls into pycoin): %d disagreements in %d classes" % (
        s.nrec, name, s.n, len(s.fails), len({f[0] for f in s.fails})))


def _model_and_replay(ctx, module, cfg, func, need, actions):
    s = Stream(func)
    # thorough: per-action coverage from TLC, an action never taken is a machinery failure (vacuity guard)
    r = ctx.tlc(module, cfg, on_record=s.feed, keep_records=False, timeout=3000, coverage=not ctx.quick,
                require_actions=() if ctx.quick else actions)
    s.finish()
    if s.nrec == 0 or r.distinct < need:
        raise MachineryError("%s/%s: vacuous run (%d records, %d states)" % (module, cfg, s.nrec, r.distinct))
    _report(ctx, cfg, s)
    return s


# ------------------------------------------------------------------ ground truth (R2)

def core_events():
    """what Bitcoin Core recorded about number encodings, minimal pushes and truncated pushes"""
    vec = json.load(open(os.path.join(REPO, "tests", "btc", "data", "script_tests.json")))
    ev = []
    raw = re.compile(r"^0x[0-9a-fA-F]*$")

    def rawbytes(s):
        toks = s.split()
        if not toks or not all(raw.match(t) for t in toks):
            return None
        return b"".join(bytes.fromhex(t[2:]) for t in toks)
    for v in vec:
        if len(v) < 4 or not isinstance(v[0], str):
            continue
        sig, spk, flags, verdict = v[0], v[1], v[2].split(","), v[3]
        comment = v[4] if len(v) > 4 else ""
        m = re.match(r"^0x([0-9a-fA-F]{2}) 0x([0-9a-fA-F]+) EQUAL$", spk)
        if re.match(r"^-?\d+$", sig) and m and verdict == "OK" and len(sig.lstrip("-")) > 0:
            out = bytes.fromhex(m.group(2))
            if int(m.group(1), 16) == len(out):
                neg, mag = drv.from_int(int(sig))
                ev.append({"a": "core_num", "neg": neg, "mag": mag, "out": list(out)})
            continue
        b = rawbytes(sig)
        if b is None:
            continue
        if "MINIMALDATA" in flags and spk in ("DROP 1", "1") and verdict in ("OK", "MINIMALDATA"):
            ev.append({"a": "core_push", "script": drv.rle(b), "minflag": True, "verdict": verdict})
        elif verdict == "BAD_OPCODE" and "not enough bytes" in comment:
            ev.append({"a": "core_push", "script": drv.rle(b), "minflag": False, "verdict": verdict})
        elif "MINIMALDATA" not in flags and verdict == "OK" and b and b[0] in (0x4c, 0x4d, 0x4e) and "EQUAL" in spk:
            ev.append({"a": "core_push", "script": drv.rle(b), "minflag": False, "verdict": "OK"})
        elif "MINIMALDATA" in flags and spk == "NOT DROP 1" and verdict in ("OK", "UNKNOWN_ERROR") and len(b) >= 1 and b[0] == len(b) - 1 and b[0] <= 4:
            ev.append({"a": "core_numarg", "b": list(b[1:]), "verdict": verdict})
    return ev


# ------------------------------------------------------------------ code -> spec

_LEN_POOL = [0, 1, 2, 3, 20, 32, 33, 71, 72, 73, 74, 75, 76, 77, 100, 254, 255, 256, 257, 300, 519, 520, 521, 1000,
             65534, 65535, 65536, 65537, 70000]


def _rand_data(rnd):
    x = rnd.random()
    if x < 0.35:
        return drv.rle(bytes(rnd.randrange(256) for _ in range(rnd.choice((1, 1, 2, 3, 5, 20, 33)))))
    if x < 0.55:
        n = rnd.randrange(0, 600)
    elif x < 0.7:
        n = rnd.randrange(600, 90000)
    else:
        n = rnd.choice(_LEN_POOL)
    return drv.rle_blob(n, rnd.choice((0, 1, 5, 16, 17, 0x80, 0x81, 0xff, rnd.randrange(256))), rnd.randrange(256))


def _walk(rnd, script, ev):
    """get_opcode from the cursor to the end of the script, as ScriptTools.get_opcodes does"""
    pc = 0
    ev.append({"a": "seek"})
    steps = 0
    while 0 <= pc < len(script) and steps < 12:
        steps += 1
        vmin = rnd.random() < 0.6
        g = drv.get_opcode(script, pc, vmin)
        opx, short, sizecls = _hdr_facts(script, pc)
        e = {"a": "getop", "vmin": vmin, "res": g["res"], "op": g.get("op", -1), "pc": g.get("pc", -1),
             "nodata": g.get("data") is None, "data": drv.rle(g["data"]) if g.get("data") is not None else [],
             "_key": "op=%s|vmin=%s|hdr_short=%s|size=%s|got=%s" % (opx, vmin, short, sizecls, g["res"])}
        ev.append(e)
        if g["res"] == "nonminimal":
            vmin = False
            g = drv.get_opcode(script, pc, False)
            ev.append({"a": "getop", "vmin": False, "res": g["res"], "op": g.get("op", -1), "pc": g.get("pc", -1),
                       "nodata": g.get("data") is None, "data": drv.rle(g["data"]) if g.get("data") is not None else [],
                       "_key": "op=%s|vmin=False|hdr_short=%s|size=%s|got=%s" % (opx, short, sizecls, g["res"])})
        if g["res"] == "bad" and not vmin:
            # the same cursor asked again with minimality required
            g2 = drv.get_opcode(script, pc, True)
            ev.append({"a": "getop", "vmin": True, "res": g2["res"], "op": g2.get("op", -1), "pc": g2.get("pc", -1),
                       "nodata": g2.get("data") is None, "data": drv.rle(g2["data"]) if g2.get("data") is not None else [],
                       "_key": "op=%s|vmin=True|hdr_short=%s|size=%s|got=%s" % (opx, short, sizecls, g2["res"])})
        if g["res"] != "ok" or g["pc"] <= pc:      # (a cursor that does not advance is in the log; TLC rejects it)
            break
        pc = g["pc"]


_HUGE = (0x7fffffff, 0x80000000, 0x80000001, 0xffffff00, 0xfffffffb, 0xfffffffe, 0xffffffff)


def _walk_event(script):
    """ScriptTools.get_opcodes over the whole script"""
    try:
        with drv.time_limit(_TIME_LIMIT):
            w = drv.walk(script)
    except drv.Hang:
        return {"a": "walk", "hang": True, "steps": [], "_key": "hang"}
    if "exc" in w:
        return {"a": "walk", "hang": True, "steps": w["steps"][:50], "_key": "exc:" + w["exc"]}
    back = [x for x in w["steps"] if x[1] <= x[0]]
    return {"a": "walk", "hang": False, "steps": w["steps"][:400],
            "_key": "cursor-not-advancing|op=%02x" % script[back[0][0]] if back else "other-instructions"}


def _asm_event(script):
    rt = _rt(script)
    if "re" not in rt:
        return {"a": "asm", "toks": [], "parsed": False, "re": [{"n": 1, "b": 256}], "_key": "exc:%s:%s" % (rt["stage"], rt["exc"])}
    toks, parsed = drv.tokenize(rt["text"])
    if sum(len(t["d"]) for t in toks) > 400:
        toks, parsed = [], False
    return {"a": "asm", "toks": toks, "parsed": parsed, "re": drv.rle(rt["re"]), "_key": "other-bytes"}


def record_traces(seed, count):
    rnd = random.Random(seed)
    traces = []
    a = drv.api()
    wordops = [0] + list(range(79, 186)) + [255]
    for t in range(count):
        ev = []
        kind = t % 3
        if kind == 0:       # integers, wide
            for _ in range(12):
                bits = rnd.choice((1, 7, 8, 15, 16, 23, 24, 31, 32, 33, 39, 40, 63, 64, 65, 71, 72, 80, 96))
                v = rnd.getrandbits(bits) + rnd.choice((0, 0, 1 << (bits - 1))) * rnd.choice((0, 1))
                v = v if rnd.random() < 0.5 else -v
                neg, mag = drv.from_int(v)
                got = drv.int_encode(v)
                ev.append({"a": "enc", "neg": neg, "mag": mag, "out": list(got["out"]) if "out" in got else [256],
                           "_key": "width=%d" % len(got.get("out", b""))})
            for _ in range(12):
                n = rnd.choice((0, 1, 1, 2, 2, 3, 4, 5, 8, 9, 12))
                b = bytes(rnd.choice((0, 0, 0x80, 0x7f, 0xff, 1, 0x81, rnd.randrange(256))) for _ in range(n))
                strict = rnd.random() < 0.6
                got = drv.int_decode(b, strict)
                neg, mag = drv.from_int(got["v"]) if "v" in got else (False, [])
                ev.append({"a": "dec", "b": list(b), "strict": strict, "exc": "exc" in got, "neg": neg, "mag": mag,
                           "_key": "strict=%s|len=%d|exc=%s" % (strict, len(b), got.get("exc"))})
        else:               # script sessions
            ev.append({"a": "new"})
            script = b""
            srl = []
            for _ in range(rnd.randrange(1, 6)):
                x = rnd.random()
                if x < 0.55:
                    d = _rand_data(rnd)
                    got = drv.push(drv.expand(d))
                    script += got.get("out", b"\xff" * 3)
                    srl = drv.rle(script) if len(script) < 3000 else drv.rle_cat(srl, drv.rle(got.get("out", b"\xff" * 3)))
                    ev.append({"a": "push", "d": d, "script": srl, "_key": "len=%s" % _lenclass(len(drv.expand(d)))})
                elif x < 0.85 or kind == 1:
                    op = rnd.choice(wordops)
                    got = drv.compile_text(a["st"].int_to_opcode.get(op, "OP_NOP"))
                    piece = got.get("out", b"")
                    script += piece
                    srl = drv.rle_cat(srl, drv.rle(piece))
                    ev.append({"a": "raw", "bytes": drv.rle(piece), "script": srl})
                elif x < 0.89:     # OP_PUSHDATA4 announcing 2^31 - 1 bytes or more
                    piece = b"\x4e" + rnd.choice(_HUGE).to_bytes(4, "little") + bytes(
                        rnd.choice((0, 0x61, rnd.randrange(256))) for _ in range(rnd.choice((0, 1, 3, 10, 300))))
                    script += piece
                    srl = drv.rle_cat(srl, drv.rle(piece))
                    ev.append({"a": "raw", "bytes": drv.rle(piece), "script": srl})
                else:       # a non-minimal or arbitrary push header written by the recorder
                    n = rnd.choice((0, 1, 1, 2, 20, 75, 76, 255, 256))
                    op = rnd.choice((0x4c, 0x4d, 0x4e) if n < 256 else (0x4d, 0x4e))
                    body = bytes(rnd.choice((1, 5, 0x81, 0, rnd.randrange(256))) for _ in range(n))
                    piece = bytes([op]) + n.to_bytes({0x4c: 1, 0x4d: 2, 0x4e: 4}[op], "little") + body
                    script += piece
                    srl = drv.rle_cat(srl, drv.rle(piece))
                    ev.append({"a": "raw", "bytes": drv.rle(piece), "script": srl})
            _walk(rnd, script, ev)
            ev.append(_walk_event(script))
            if len(script) < 3000:
                ev.append(_asm_event(script))
            if kind == 2 and len(script) > 1:
                # cut the script somewhere, preferably inside the last instruction's header or data
                k = rnd.choice((len(script) - 1, rnd.randrange(1, len(script)), max(1, len(script) - rnd.randrange(1, 6))))
                script = script[:k]
                srl = drv.rle(script) if len(script) < 3000 else drv.rle_cat([], _rtake(srl, k))
                ev.append({"a": "cut", "k": k, "script": srl})
                _walk(rnd, script, ev)
                ev.append(_walk_event(script))
        traces.append({"ev": ev})
    return traces


def _rtake(srl, k):
    out = []
    for r in srl:
        if k <= 0:
            break
        n = min(k, r["n"])
        out.append({"n": n, "b": r["b"]})
        k -= n
    return out


def _strip(traces):
    return [{"ev": [{k: v for k, v in e.items() if not k.startswith("_")} for e in t["ev"]]} for t in traces]


def validate(ctx, traces, count=False):
    """-> list, per trace, of the index (0-based) of the first event TLC could not explain, or None"""
    fd, path = tempfile.mkstemp(prefix="vf-c12-traces-", suffix=".json")
    with os.fdopen(fd, "w") as f:
        json.dump(_strip(traces), f)
    try:
        r = ctx.tlc("Trace_ScriptCodec", "Trace_ScriptCodec", workers=1, env={"TRACE_FILE": path}, count=False, timeout=1500)
    finally:
        os.unlink(path)
    reached = None
    for rec in r.records:
        if isinstance(rec, dict) and rec.get("k") == "reached":
            reached = {i + 1: m for i, m in enumerate(rec["r"])}
    if reached is None or len(reached) != len(traces):
        raise MachineryError("trace run printed no verdict: %s" % r.raw_tail[-8:])
    return [None if reached[i + 1] == len(t["ev"]) + 1 else reached[i + 1] - 1 for i, t in enumerate(traces)]


_TRACE_CALL = {"enc": "int_to_script_bytes", "dec": "int_from_script_bytes", "push": "compile_push_data",
               "getop": "get_opcode", "walk": "get_opcodes", "asm": "roundtrip"}


# ------------------------------------------------------------------ the check

def run(ctx):
    q = ctx.quick
    only = getattr(ctx, "only", None)

    def want(stage):
        return only is None or stage in only
    ctx.rule = ("distinct_nontrivial = distinct classes among the replayed cases: (decode: length, class of the two top bytes, "
                "minimal?), (encode: sign, width, sign byte needed?), (push: opcode, length class), (parse: kind of script, first "
                "opcode, well-formed?, minimal?, reason, instruction count, length class), (text: the opcode sequence of the script)")
    ctx.assumptions += ["TLC/SANY, CPython", "script lengths and data lengths below 2^31 (a PUSHDATA4 length >= 2^31 never fits)",
                        "the text form is pycoin's own: only compile(disassemble(s)) = s is demanded, not a particular spelling",
                        "the VM is driven with tx_context=None on scripts that consist of the pushes under test"]
    # 0. R2: the specs against what Bitcoin Core recorded
    if want("core"):
        ev = core_events()
        kinds = collections.Counter(e["a"] for e in ev)
        if kinds["core_num"] < 20 or kinds["core_push"] < 40 or kinds["core_numarg"] < 8:
            raise MachineryError("too few ground-truth vectors found: %s" % dict(kinds))
        traces = [{"ev": ev[i:i + 10]} for i in range(0, len(ev), 10)]
        res = validate(ctx, traces)
        bad = [(i, r) for i, r in enumerate(res) if r is not None]
        if bad:
            i, r = bad[0]
            raise MachineryError("spec disagrees with Bitcoin Core's recorded vector: %s" % json.dumps(traces[i]["ev"][r])[:400])
        ctx.extra["ground_truth_vectors_accepted"] = dict(kinds)
        ctx.log("R2: %d Core vectors (%s) accepted by the specs" % (len(ev), dict(kinds)))
        # and the trace spec is not vacuous on them
        t2 = copy.deepcopy(traces)
        i0, e0 = next((i, e) for i, t in enumerate(t2) for e in t["ev"] if e["a"] == "core_num" and len(e["out"]) > 1)
        e0["out"][-1] ^= 0x80
        i1, e1 = next((i, e) for i, t in enumerate(t2) for e in t["ev"] if e["a"] == "core_push" and e["verdict"] == "MINIMALDATA" and i != i0)
        e1["verdict"] = "OK"
        res = validate(ctx, t2)
        ctx.selftest("ground_truth_corruption_rejected", {i for i, r in enumerate(res) if r is not None} == {i0, i1})

    # 1+2. model checking and spec -> code
    if want("num"):
        _model_and_replay(ctx, "MC_ScriptNum", "MC_ScriptNum_q" if q else "MC_ScriptNum_t", _replay_num, 100000,
                          ("Bytes", "Blocks", "Ints", "Pows"))
    if want("push"):
        _model_and_replay(ctx, "MC_ScriptPush", "MC_ScriptPush_q" if q else "MC_ScriptPush_t", _replay_push, 100000,
                          ("Choose", "Cut", "Alt", "Raw", "Big", "Begin", "DecStep", "NextInstr"))
    if want("asm"):
        s = _model_and_replay(ctx, "MC_Disasm", "MC_Disasm_q" if q else "MC_Disasm_t", _replay_asm, 10000,
                              ("Ops", "Pushes", "Alts"))
        ctx.extra["text_form"] = {k: v for k, v in s.stats.items() if not k.startswith("text_differs")}
        diff = [k for k in s.stats if k.startswith("text_differs")]
        if diff:
            ctx.extra["text_form"]["examples_of_other_spelling"] = diff[:5]
    if want("selftest") or only is None:
        # binding self-tests of the replay: corrupting one expected field of a case must change the verdict on it
        # (compared with the verdict on the uncorrupted case, so the test does not presuppose that pycoin is right)
        def sensitive(func, rec, field, value, sub=None):
            bad = copy.deepcopy(rec)
            (bad if sub is None else bad[sub][0])[field] = value
            return [f[0] for f in func([rec])[1]] != [f[0] for f in func([bad])[1]]
        r_enc = {"k": "enc", "neg": False, "mag": [128], "enc": [128, 0]}
        r_dec = {"k": "dec", "b": [128, 0], "min": True, "neg": False, "mag": [128]}
        r_push = {"k": "push", "d": [{"n": 76, "b": 7}], "enc": [{"n": 2, "b": 76}, {"n": 76, "b": 7}], "op": 76}
        r_parse = {"k": "parse", "cls": "raw", "script": [{"n": 1, "b": 2}, {"n": 2, "b": 9}], "d": [], "wf": True,
                   "items": [{"at": 0, "op": 2, "ok": True, "data": [{"n": 2, "b": 9}], "pc": 3, "push": True,
                              "val": [{"n": 2, "b": 9}], "minok": True, "why": "", "plain": "ok", "strict": "ok"}]}
        r_cut = {"k": "parse", "cls": "alttrunc", "script": [{"n": 1, "b": 76}, {"n": 1, "b": 5}, {"n": 1, "b": 9}], "d": [{"n": 5, "b": 9}],
                 "wf": False, "items": [{"at": 0, "op": 76, "ok": False, "data": [], "pc": 2, "push": False, "val": [],
                                         "minok": True, "why": "data truncated", "plain": "malformed", "strict": "malformed"}]}
        r_asm = {"k": "asm", "script": [{"n": 1, "b": 1}, {"n": 1, "b": 5}], "claimed": False, "text": "",
                 "toks": [{"t": "data", "d": [{"n": 1, "b": 5}], "name": ""}], "instr": [[1, 0, 2]]}
        ctx.selftest("replay_rejects_corrupted_expectation", all((
            sensitive(_replay_num, r_enc, "enc", [128]),
            sensitive(_replay_num, r_dec, "min", False),
            sensitive(_replay_num, r_dec, "mag", [129]),
            sensitive(_replay_push, r_push, "enc", [{"n": 1, "b": 77}, {"n": 1, "b": 76}, {"n": 1, "b": 0}, {"n": 76, "b": 7}]),
            sensitive(_replay_push, r_parse, "pc", 2, sub="items"),
            sensitive(_replay_push, r_parse, "minok", False, sub="items"),
            sensitive(_replay_push, r_parse, "ok", False, sub="items"),
            sensitive(_replay_push, r_cut, "strict", "nonminimal", sub="items"),
            sensitive(_replay_push, r_cut, "ok", True, sub="items"),
            sensitive(_replay_asm, r_asm, "claimed", True))))

    # 3. code -> spec
    if want("trace"):
        ntr = 240 if q else 2400
        traces = record_traces(ctx.seed * 7919 + 12, ntr)
        nev = 0
        per = 400
        for c0 in range(0, len(traces), per):
            chunk = traces[c0:c0 + per]
            res = validate(ctx, chunk)
            for t, r in zip(chunk, res):
                nev += len(t["ev"]) if r is None else r
                if r is None:
                    ctx.traces += 1
                    continue
                e = t["ev"][r]
                if e["a"] not in _TRACE_CALL:
                    raise MachineryError("recorder event rejected by the trace spec: %s" % json.dumps(e)[:300])
                ctx.fail("C12|trace|%s|%s" % (_TRACE_CALL[e["a"]], e.get("_key", "")),
                         "recorded %s call is not what the spec computes: %s" % (_TRACE_CALL[e["a"]], json.dumps({k: v for k, v in e.items() if k != "_key"})[:300]),
                         {"trace": _strip([t])[0], "rejected_event_index": r})
            ctx.case(None, sum(len(t["ev"]) for t in chunk))
        ctx.sample({"trace": _strip([traces[1]])[0]})
        ctx.extra["trace_events_explained"] = nev
        ctx.action("trace.events", nev)
        # binding self-test: corrupt one logged field of accepted traces
        good = [t for t, r in zip(traces[:per], validate(ctx, traces[:60]) + [1] * per) if r is None]
        gi = next(t for t in good if t["ev"][0]["a"] == "enc")
        gs = next(t for t in good if any(e["a"] == "getop" and e["res"] == "ok" and not e["nodata"] for e in t["ev"]))
        b1 = copy.deepcopy(gi)
        b1["ev"][3]["out"] = b1["ev"][3]["out"] + [0]
        b2 = copy.deepcopy(gs)
        e = next(e for e in b2["ev"] if e["a"] == "getop" and e["res"] == "ok" and not e["nodata"])
        e["pc"] += 1
        b3 = copy.deepcopy(gs)
        e = next(e for e in b3["ev"] if e["a"] in ("push", "raw"))
        e["script"] = drv.rle_cat(e["script"], [{"n": 1, "b": 0}])
        res = validate(ctx, [gi, b1, gs, b2, b3])
        ctx.selftest("trace_rejects_corrupted_field", res[0] is None and res[2] is None and None not in (res[1], res[3], res[4]))
    # every case TLC enumerates within the constants of the cfg is replayed (nothing is sampled); beyond them: traces
    ctx.exhaustive = True


def replay(ctx, obj):
    """./check C12 --replay FILE : re-run exactly the failing case stored by ctx.fail"""
    d = obj.get("detail") or {}
    print("key :", obj.get("key"))
    print("what:", obj.get("what"))
    if "rec" in d and "k" in d["rec"]:
        rec = d["rec"]
        func = {"enc": _replay_num, "dec": _replay_num, "push": _replay_push, "parse": _replay_push, "asm": _replay_asm}[rec["k"]]
        n, fails, _, _ = func([rec])
        print("spec case (as printed by TLC):", json.dumps(rec)[:1500])
        for key, what, _ in fails:
            print("pycoin disagrees:", key, "\n   ", what)
            ctx.fail(key, what, {"rec": rec})
        if not fails:
            print("pycoin agrees with the spec on this case now")
    elif "trace" in d:
        t = {"ev": d["trace"]["ev"]}
        res = validate(ctx, [t])
        if res[0] is None:
            print("TLC accepts the recorded trace now (%d events)" % len(t["ev"]))
        else:
            e = t["ev"][res[0]]
            print("TLC rejects event %d of the recorded trace: %s" % (res[0], json.dumps(e)[:600]))
            ctx.fail(obj["key"], obj["what"], d)
    else:
        print(json.dumps(obj, indent=1)[:3000])
