"""C09 - BIP32 / Electrum hierarchical derivation, extended-key text, path strings, sub-key cache.

spec/BIP32.tla        the BIP as uninterpreted terms (HMAC-SHA512 data layouts, IL/IR, sums of tweaks so
                      that going public is structural, fingerprint, 78-byte serialisation, path strings)
spec/BIP32Session.tla node objects that memoise children, public copies, subkey_for_path
spec/Subpaths.tla     the path-range grammar as a character-level state machine
spec/ExtKeyText.tla   version bytes of every network x {bip32,bip49,bip84}, parse-by-prefix, round trip
spec/ElectrumKD.tla   Electrum (old style) deterministic keys

1. TLC proves the lemmas (commutation, metadata, layouts, cache transparency, machine = grammar ...).
2. the two official BIP32 vectors go through spec + evaluator (hmac/hashlib + affine reference curve,
   itself cross-checked against pycoin's generator) BEFORE anything judges pycoin.
3. spec -> code: TLC prints every path / session / range / (network, family) case with the terms the
   spec demands; they are evaluated for several seeds and every case is executed on pycoin.
4. code -> spec: seeded random deep derivations are recorded from pycoin (fields + the HMAC calls pycoin
   really made), and TLC validates them against BIP32.tla (Trace_BIP32).
"""
from __future__ import annotations

import ast
import copy
import hashlib
import json
import os
import random
import re
import tempfile

from ..ctx import REPO, MachineryError
from ..drv import bip32 as D
from ..par import pmap, split, NPROC

VEC_SEEDS = [bytes.fromhex("000102030405060708090a0b0c0d0e0f"),
             bytes.fromhex("fffcf9f6f3f0edeae7e4e1dedbd8d5d2cfccc9c6c3c0bdbab7b4b1aeaba8a5a29f9c999693908d8a8784817e7b7875726f6c696663605d5a5754514e4b484542")]
H, Nn = (lambda v: (True, v)), (lambda v: (False, v))
VEC_CHAINS = [[H(0), Nn(1), H(2), Nn(2), Nn(1000000000)],
              [Nn(0), H(2147483647), Nn(1), H(2147483646), Nn(2)]]
XPRV, XPUB = bytes.fromhex("0488ade4"), bytes.fromhex("0488b21e")


def _only(ctx, name):
    return getattr(ctx, "only", None) is None or name in ctx.only


def _tp(path):
    """JSON path (list of {h, v}) -> tuple of (h, v)"""
    return tuple((bool(i["h"]), int(i["v"])) for i in path)


def _jp(path):
    return [{"h": h, "v": v} for h, v in path]


# ------------------------------------------------------------------ 0. the reference curve vs pycoin's generator
def check_reference_curve(ctx):
    from pycoin.ecdsa.secp256k1 import secp256k1_generator as g
    rnd = random.Random(ctx.seed * 1000003 + 9)
    ks = [1, 2, 3, D.N - 1, D.N - 2, 2 ** 255, 2 ** 128 - 1] + [rnd.randrange(1, D.N) for _ in range(60 if ctx.quick else 300)]
    ks += [rnd.randrange(1, 2 ** rnd.randrange(1, 256)) for _ in range(40 if ctx.quick else 200)]
    for k in ks:
        a = D.ec_mul(k)
        if D.mul_g(k) != a:
            raise MachineryError("reference curve: table multiplication differs from double-and-add")
        b = k * g
        if a != (b[0], b[1]):
            raise MachineryError("reference curve and pycoin generator disagree on %d*G" % k)
        if D.parse_p(D.ser_p(a)) != a:
            raise MachineryError("reference SEC codec does not round-trip")
    # and the other way: sums of pycoin points against the reference addition
    for _ in range(50 if ctx.quick else 300):
        k1, k2 = rnd.randrange(1, D.N), rnd.randrange(1, D.N)
        s = D.ec_add(D.ec_mul(k1), D.ec_mul(k2))
        t = k1 * g + k2 * g
        if s != (t[0], t[1]) or s != D.ec_mul(k1 + k2):
            raise MachineryError("reference addition and pycoin disagree")
    if D.ec_mul(D.N) is not None:
        raise MachineryError("n*G is not the neutral element in the reference curve")
    ctx.extra["reference_curve_crosschecked_scalars"] = len(ks)


# ------------------------------------------------------------------ path records -> evaluated tree
def eval_paths(recs, seed, strict=True):
    """recs: the "root"/"path" records of MC_BIP32; returns {path tuple: {"prv": fields, "pub": fields|None,
    "ser": {"prv": bytes, "pub": bytes}}} for one concrete seed."""
    ev = D.Evaluator({"seed": seed})
    out = {}
    root = [r for r in recs if r["k"] == "root"]
    if len(root) != 1:
        raise MachineryError("expected one root record, got %d" % len(root))
    rp = ev.node(root[0]["prv"], strict)
    ev.bind(["prv", []], rp)
    pub0 = dict(rp, k=None)
    ev.bind(["pub", []], pub0)
    out[()] = {"prv": rp, "pub": pub0, "ser": {w: ev.B(root[0]["ser"][w]) for w in ("prv", "pub")}}
    for r in sorted((r for r in recs if r["k"] == "path"), key=lambda r: len(r["path"])):
        p = _tp(r["path"])
        x = ev.node(r["prv"], strict)
        ev.bind(["prv", r["path"]], x)
        if r["pubrefused"]:
            y = None
        else:
            y = ev.node(r["pub"], strict)
            ev.bind(["pub", r["path"]], y)
            # numeric counterpart of the structural lemma CommutesAlongPath (evaluator sanity)
            if y != dict(x, k=None):
                raise MachineryError("evaluator: public chain differs from neutered private chain at %r" % (p,))
        out[p] = {"prv": x, "pub": y, "ser": {w: ev.B(r["ser"][w]) for w in ("prv", "pub")}, "number": r.get("number")}
    return out


def extract_official_vectors():
    """[(seed, chain, [(xprv, xpub) per level])] with the strings taken from REPO/tests/btc/bip32_test.py"""
    src = open(os.path.join(REPO, "tests", "btc", "bip32_test.py")).read()
    tree = ast.parse(src)
    res = []
    for fn, seed, chain in (("test_vector_1", VEC_SEEDS[0], VEC_CHAINS[0]), ("test_vector_2", VEC_SEEDS[1], VEC_CHAINS[1])):
        f = [n for n in ast.walk(tree) if isinstance(n, ast.FunctionDef) and n.name == fn]
        if not f:
            raise MachineryError("official vector %s not found in the repository tests" % fn)
        if seed.hex() not in "".join(n.value for n in ast.walk(f[0]) if isinstance(n, ast.Constant) and isinstance(n.value, str)):
            raise MachineryError("seed of %s not found in the repository tests" % fn)
        lits = sorted((n.lineno, n.col_offset, n.value) for n in ast.walk(f[0])
                      if isinstance(n, ast.Constant) and isinstance(n.value, str) and re.match(r"^xp(rv|ub)", n.value))
        order = []
        for _, _, v in lits:
            if v not in order:
                order.append(v)
        if len(order) != 12:
            raise MachineryError("%s: expected 12 distinct extended keys, found %d" % (fn, len(order)))
        levels = [(order[0], order[1])] + [(order[i + 1], order[i]) for i in range(2, 12, 2)]
        for prv, pub in levels:
            if not (prv.startswith("xprv") and pub.startswith("xpub")):
                raise MachineryError("%s: unexpected order of vector strings" % fn)
        res.append((seed, chain, levels))
    return res


def ground_truth(ctx):
    r = ctx.tlc("MC_BIP32", "MC_BIP32_vec", workers=4, timeout=600)
    recs = [x for x in r.records if isinstance(x, dict) and x.get("k") in ("root", "path")]
    n = 0
    for seed, chain, levels in extract_official_vectors():
        tree = eval_paths(recs, seed)
        for d in range(len(chain) + 1):
            p = tuple(chain[:d])
            if p not in tree:
                raise MachineryError("MC_BIP32_vec did not walk %r" % (p,))
            e = tree[p]
            got = (D.b58check(XPRV + e["ser"]["prv"]), D.b58check(XPUB + e["ser"]["pub"]))
            if got != levels[d]:
                raise MachineryError("spec + evaluator disagree with the official BIP32 vector at m/%s:\n spec %s\n file %s" % (
                    D.path_str(p), got, levels[d]))
            n += 2
    ctx.extra["official_vector_strings_reproduced_by_spec"] = n
    ctx.log("ground truth: %d official extended-key strings reproduced by BIP32.tla + evaluator" % n)
    return recs



# ------------------------------------------------------------------ comparing a pycoin node with evaluated spec fields
def _vclass(cn):
    h, v = cn
    return "%s,v%s" % ("hard" if h else "norm", "<2^24" if v < 2 ** 24 else ">=2^24")


def _cmp(fails, where, cls, want, key_obj, detail):
    """want: evaluated spec fields (k None = public); key_obj: pycoin node"""
    try:
        got = D.project(key_obj)
    except Exception as e:  # noqa
        fails.append(("C09|%s|%s|projection-raises=%s" % (where, cls, type(e).__name__), "observing the node raised %r" % (e,), detail))
        return False
    bad = D.diff_fields(want, got)
    if bad:
        fails.append(("C09|%s|%s|differs=%s" % (where, cls, ",".join(bad)),
                      "pycoin node differs from BIP32.tla in %s: want %s got %s" % (
                          bad, {f: _h(want[f]) for f in bad if f in want}, {f: _h(got.get(f)) for f in bad if f in got}), detail))
        return False
    return True


def _h(x):
    return x.hex() if isinstance(x, bytes) else x


def _refused(f):
    """True iff the call raises (any exception type: the property only says 'refused')"""
    try:
        r = f()
    except Exception:  # noqa
        return True, None
    return False, r


def _neuter(w):
    return dict(w, k=None)


WANT_ARG = {"prv": True, "pub": False, "dflt": None}
_G = {}      # data inherited by forked workers


# ------------------------------------------------------------------ 3a. every path of the grid, long-lived and fresh nodes
def _paths_worker(arg):
    seed, netsym, shuffle_seed = arg
    from pycoin.networks.registry import network_for_netcode
    net = network_for_netcode(netsym)
    prvv, pubv = _G["versions"][netsym]
    recs = _G["path_recs"]
    tree = eval_paths(recs, seed)
    fails = []
    n = 0
    classes = set()
    rnd = random.Random(shuffle_seed)
    paths = sorted(tree)
    rnd.shuffle(paths)          # derivation ORDER on the long-lived nodes is part of the history
    M = net.keys.bip32_seed(seed)
    MP = M.public_copy()
    marks = ["H", "p", "'"]
    for p in paths:
        e = tree[p]
        det = {"seed": seed.hex(), "net": netsym, "path": D.path_str(p)}
        cls = "depth%d|%s" % (len(p), _vclass(p[-1]) if p else "master")
        classes.add(cls)
        # long-lived private chain, default as_private
        node = M
        for h, v in p:
            node = node.subkey(i=v, is_hardened=h)
        ok = _cmp(fails, "paths|long-lived subkey chain", cls, e["prv"], node, det)
        n += 1
        if ok:
            texts = {"hwif(prv)": (node.hwif(as_private=True), D.b58check(prvv + e["ser"]["prv"])),
                     "hwif(pub)": (node.hwif(), D.b58check(pubv + e["ser"]["pub"])),
                     "serialize(prv)": (node.serialize(as_private=True), e["ser"]["prv"]),
                     "serialize(pub)": (node.serialize(as_private=False), e["ser"]["pub"])}
            for nm, (got, want) in texts.items():
                n += 1
                if got != want:
                    fails.append(("C09|paths|%s|%s" % (nm, cls), "%s: want %s got %s" % (nm, _h(want), _h(got)), det))
            if node.fingerprint() != hashlib.new("ripemd160", hashlib.sha256(e["prv"]["K"]).digest()).digest()[:4]:
                fails.append(("C09|paths|fingerprint()|%s" % cls, "fingerprint() is not HASH160(serP(K))[:4]", det))
        if p:
            parent = M
            for h, v in p[:-1]:
                parent = parent.subkey(i=v, is_hardened=h)
            h, v = p[-1]
            # explicit as_private True / False from the long-lived parent, in a seeded order
            for ap in rnd.sample([True, False], 2):
                c = parent.subkey(i=v, is_hardened=h, as_private=ap)
                _cmp(fails, "paths|subkey(as_private=%s)" % ap, cls, e["prv"] if ap else _neuter(e["prv"]), c, det)
                n += 1
            # the last index spelt as the BIP's single child number (big-endian value of ser32): plain integer and decimal
            # path component.  Outcomes the spec allows: rec["number"]["may"] ("refused" only for hardened children).
            num = tree[p]["number"]
            i_num = int.from_bytes(bytes(num["be"]), "big")
            pstr = D.path_str(p[:-1])
            for who, par, want in (("private", parent, e["prv"]), ("public", parent.public_copy(), None if h else _neuter(e["prv"]))):
                for how, f in (("subkey(i)", lambda: par.subkey(i=i_num)),
                               ("subkey_for_path", lambda: par.subkey_for_path(str(i_num))),
                               ("subkey_for_path from master", lambda: (M if who == "private" else MP).subkey_for_path((pstr + "/" if pstr else "") + str(i_num)))):
                    if how.endswith("master") and who == "public" and any(hh for hh, _ in p[:-1]):
                        continue
                    rf, r = _refused(f)
                    n += 1
                    if rf:
                        if "refused" not in num["may"]:
                            fails.append(("C09|paths|child number spelling|%s parent|%s|%s|want=key|got=refused" % (who, how, _vclass(p[-1])),
                                          "child number %d (%s) was refused" % (i_num, D.path_str(p[-1:])), det))
                    elif want is None:
                        fails.append(("C09|paths|child number spelling|%s parent|%s|%s|want=refused|got=key" % (who, how, _vclass(p[-1])),
                                      "child number %d is a hardened child; a public-only parent answered it" % i_num, det))
                    else:
                        _cmp(fails, "paths|child number spelling|%s parent|%s" % (who, how), _vclass(p[-1]), want, r, det)
        # path strings, every hardening mark, with and without .pub; on the long-lived and on a fresh master
        mark = marks[rnd.randrange(3)]
        ps = D.path_str(p, mark)
        for who, root in (("long-lived", M), ("fresh", net.keys.bip32_seed(seed))):
            _cmp(fails, "paths|%s subkey_for_path" % who, cls, e["prv"], root.subkey_for_path(ps), det)
            _cmp(fails, "paths|%s subkey_for_path(.pub)" % who, cls, _neuter(e["prv"]), root.subkey_for_path(ps + ".pub"), det)
            n += 2
        # public-only chain: CKDpub all the way, refusal at the first hardened step
        for who, root in (("long-lived", MP), ("fresh", net.keys.bip32_seed(seed).public_copy())):
            node = root
            refused_at = None
            for d, (h, v) in enumerate(p):
                rf, r = _refused(lambda: node.subkey(i=v, is_hardened=h))
                if rf:
                    refused_at = d
                    break
                node = r
            want_refused = next((d for d, (h, v) in enumerate(p) if h), None)
            n += 1
            if refused_at != want_refused:
                fails.append(("C09|paths|%s public chain|refusal|%s|want=%s|got=%s" % (
                    who, cls, "refused" if want_refused is not None else "key", "refused" if refused_at is not None else "key"),
                    "public-only derivation along %s: spec refuses at step %s, pycoin at %s" % (D.path_str(p), want_refused, refused_at), det))
            elif want_refused is None:
                _cmp(fails, "paths|%s public chain" % who, cls, e["pub"], node, det)
            if want_refused is not None:
                rf, r = _refused(lambda: root.subkey_for_path(ps))
                n += 1
                if not rf:
                    fails.append(("C09|paths|%s public subkey_for_path|refusal|%s" % (who, cls),
                                  "subkey_for_path(%r) on a public-only node returned a key" % ps, det))
    return fails, n, sorted(classes)


def replay_paths(ctx, cfg, seeds, nets):
    r = ctx.tlc("MC_BIP32", cfg, workers=8, timeout=1500)
    recs = [x for x in r.records if isinstance(x, dict) and x.get("k") in ("root", "path")]
    _G["path_recs"] = recs
    jobs = [(s, nets[i % len(nets)], ctx.seed * 31 + i) for i, s in enumerate(seeds)]
    tot = 0
    for (fails, n, classes), job in zip(pmap(_paths_worker, jobs, chunk=1), jobs):
        tot += n
        ctx.case(None, n)
        for c in classes:
            ctx.case("paths|" + c, 0)
        for key, what, det in fails:
            ctx.fail(key, what, det)
    npaths = len(recs)
    ctx.replayed += npaths * len(seeds)
    ctx.action("replay.paths." + cfg, npaths * len(seeds))
    ctx.log("paths: %d paths x %d seeds, %d comparisons on pycoin" % (npaths, len(seeds), tot))
    return recs


# ------------------------------------------------------------------ 3a'. presentations of the master seed (MC_BIP32Seed)
def _seed_entry(net, name, seed, text):
    if name == "keys.bip32_seed(bytes)":
        return net.keys.bip32_seed(seed)
    if name == "parse":
        return net.parse(text)
    return getattr(net.parse, name[len("parse."):])(text)


def replay_seed_texts(ctx, nets):
    from pycoin.networks.registry import network_for_netcode
    r = ctx.tlc("MC_BIP32Seed", "MC_BIP32Seed", workers=2, timeout=600)
    recs = sorted((x for x in r.records if isinstance(x, dict) and x.get("k") == "seed"), key=lambda x: (x["n"], x["head"]))
    if len(recs) < 30:
        raise MachineryError("MC_BIP32Seed printed %d cases" % len(recs))
    rnd = random.Random(ctx.seed * 6007 + 5)
    # R2: for the BIP's first vector the text the spec spells is H: + the hex string of the repository's test file
    v1 = VEC_SEEDS[0]
    src = open(os.path.join(REPO, "tests", "btc", "bip32_test.py")).read()
    hit = [x for x in recs if bytes(x["head"]) == v1[:len(x["head"])] and x["head"] and x["n"] == len(v1) - len(x["head"])]
    if not hit:
        raise MachineryError("no seed case has the shape of the first official vector")
    tot = 0
    fails = []
    for x in recs:
        tails = [bytes(rnd.randrange(256) for _ in range(x["n"])) for _ in range(2 if ctx.quick else 6)]
        if x in hit:
            tails.append(v1[len(x["head"]):])
        for ti, tail in enumerate(tails):
            ev = D.Evaluator({"tail": tail})
            seed = ev.B(x["seed"])
            text = "".join(x["text"]["lit"]) + ev.B(x["text"]["hexof"]).hex()
            want = ev.node(x["master"])
            if seed == v1 and (text[2:] not in src or not text.startswith("H:")):
                raise MachineryError("the spec's text of the first official seed is not the hex string of the BIP vector")
            net = network_for_netcode(nets[(ti + len(x["head"])) % len(nets)])
            for name in x["entries"]:
                det = {"entry": name, "net": net.symbol, "seed": seed.hex(), "text": text}
                tot += 1
                ctx.case("seed|%s|%s" % (name, x["cls"]), 0)
                try:
                    node = _seed_entry(net, name, seed, text)
                except Exception as e:  # noqa
                    node = None
                    det["raised"] = repr(e)
                if node is None:
                    fails.append(("C09|seed|%s|first digit: %s|got=no key" % (name, x["cls"]), "%s gives no key for the seed %s" % (name, text), det))
                    continue
                if not _cmp(fails, "seed|%s" % name, "first digit: %s" % x["cls"], want, node, det):
                    continue
                # and a child below it: the whole tree hangs on the master
                c1, c2 = node.subkey_for_path("0H/1"), net.keys.bip32_seed(seed).subkey_for_path("0H/1")
                if D.project(c1) != D.project(c2):
                    fails.append(("C09|seed|%s|first digit: %s|child differs" % (name, x["cls"]), "children of the same master differ", det))
    seen = {}
    for f in fails:
        seen.setdefault(f[0], f)
    for key, what, det in seen.values():
        ctx.fail(key, what, det)
    ctx.case(None, tot)
    ctx.replayed += tot
    ctx.action("replay.seed_presentations", tot)
    ctx.log("seed presentations: %d (head, length) classes, %d (seed, entry point) cases on pycoin" % (len(recs), tot))


# ------------------------------------------------------------------ 3b. sessions (memoising objects, copies, path strings)
def _sess_eval(rec, seed):
    ev = D.Evaluator({"seed": seed, "chain2": hashlib.sha256(b"vf/C09/chain2" + seed).digest()})
    fields = {}
    for o, d in enumerate(rec["defs"], 1):
        fields[o] = ev.node(d["node"])
        ev.bind(o, fields[o])
    return fields


def _sess_class(ops, i):
    op = ops[i]
    if op["op"] != "derive":
        return op["op"]
    # was the same child VALUE asked of the same object before, with another flag? (the memo-collision class)
    before = [x for x in ops[:i] if x["op"] == "derive" and x["o"] == op["o"] and x["ix"]["v"] == op["ix"]["v"]]
    rep = "first"
    if before:
        rep = "same" if any(x["ix"]["h"] == op["ix"]["h"] and x["want"] == op["want"] for x in before) else "other-flags"
    return "derive|want=%s|hard=%s|%s" % (op["want"], op["ix"]["h"], rep)


def _run_session(rec, seed, net, fails, corrupt=None, net2=None):
    ops, defs = rec["ops"], rec["defs"]
    fields = _sess_eval(rec, seed)
    if corrupt:
        corrupt(fields)
    py = {1: net.keys.bip32_seed(seed)}
    if len(defs) > 1 and defs[1]["how"][0] == "rechain":
        # the second root: an extended public key READ from its text (fields from the spec's node), possibly on another network
        f2, n2 = fields[2], net2 or net
        blob = (_G["versions"][n2.symbol][1] + bytes([f2["depth"]]) + f2["pfp"] + D.cn_int(f2["cn"]).to_bytes(4, "big")
                + f2["chain"] + f2["K"])
        py[2] = n2.parse.bip32_pub(D.b58check(blob))
        if py[2] is None or f2["k"] is not None:
            raise MachineryError("could not read the second root of a session from its text")

    def resolve(o):
        if o not in py:
            d = defs[o - 1]
            how = d["how"]
            par = resolve(d["par"])
            if how[0] == "derive":
                py[o] = par.subkey(i=how[1]["v"], is_hardened=how[1]["h"], as_private=(how[2] == "prv"))
            else:
                raise MachineryError("object %d is not reachable" % o)
        return py[o]
    n = 0
    det = {"seed": seed.hex(), "ops": ops}
    for i, op in enumerate(ops):
        cls = _sess_class(ops, i)
        obj = resolve(op["o"])
        if op["op"] == "derive":
            f = lambda: obj.subkey(i=op["ix"]["v"], is_hardened=op["ix"]["h"], as_private=WANT_ARG[op["want"]])
        elif op["op"] == "copy":
            f = lambda: obj.public_copy()
        else:
            f = lambda: obj.subkey_for_path("".join(op["s"]))
        rf, r = _refused(f)
        n += 1
        if op["res"] == 0:
            if not rf:
                fails.append(("C09|session|%s|want=refused|got=key" % cls, "call %d of the session returned a key, BIP32 refuses" % (i + 1), det))
            continue
        if rf:
            fails.append(("C09|session|%s|want=key|got=raises" % cls, "call %d of the session raised" % (i + 1), det))
            return n
        py.setdefault(op["res"], r)
        if not _cmp(fails, "session", cls, fields[op["res"]], r, dict(det, call=i + 1)):
            return n
    # nothing that exists was changed by later calls
    for o, obj in py.items():
        n += 1
        _cmp(fails, "session|object changed later", "final", fields[o], obj, det)
    return n


def _sess_worker(arg):
    recs, seeds, netsym = arg
    from pycoin.networks.registry import network_for_netcode
    net = network_for_netcode(netsym)
    others = [network_for_netcode(s) for s in ("BTC", "XTN", "LTC")]
    fails = []
    n = 0
    for ri, rec in enumerate(recs):
        for seed in seeds:
            n += _run_session(rec, seed, net, fails, net2=others[ri % 3])
    # keep one failure per key in the chunk
    seen = {}
    for f in fails:
        seen.setdefault(f[0], f)
    return list(seen.values()), n


class Stream:
    """streams TLC records to forked workers in chunks"""

    def __init__(self, worker, params, kind, chunk=300):
        import multiprocessing as mp
        self.pool = mp.get_context("fork").Pool(NPROC)
        self.worker, self.params, self.kind, self.chunk = worker, params, kind, chunk
        self.buf, self.pending, self.results, self.n = [], [], [], 0
        self.first = None

    def feed(self, rec):
        if not isinstance(rec, dict) or rec.get("k") != self.kind:
            return
        if self.first is None:
            self.first = rec
        self.n += 1
        self.buf.append(rec)
        if len(self.buf) >= self.chunk:
            self._flush()

    def _flush(self):
        if self.buf:
            self.pending.append(self.pool.apply_async(self.worker, ((self.buf,) + self.params,)))
            self.buf = []
        while len(self.pending) > 6 * NPROC:
            self.results.append(self.pending.pop(0).get())

    def finish(self):
        self._flush()
        for ar in self.pending:
            self.results.append(ar.get())
        self.pool.close()
        self.pool.join()
        return self.results


def replay_sessions(ctx, cfg, seeds, netsym="BTC"):
    st = Stream(_sess_worker, (seeds, netsym), "sess")
    classes = set()

    def on(rec):
        st.feed(rec)
        if isinstance(rec, dict) and rec.get("k") == "sess":
            classes.add(_sess_class(rec["ops"], len(rec["ops"]) - 1))
            if st.n % 5003 == 1:
                ctx.sample({"session": rec["ops"]})
    ctx.tlc("MC_BIP32Session", cfg, workers=8, timeout=2400, on_record=on, keep_records=False)
    tot = 0
    for fails, n in st.finish():
        tot += n
        for key, what, det in fails:
            ctx.fail(key, what, det)
    ctx.case(None, tot)
    for c in classes:
        ctx.case("session|" + c, 0)
    ctx.replayed += st.n * len(seeds)
    ctx.action("replay.sessions." + cfg, st.n * len(seeds))
    ctx.log("sessions: %d sessions x %d seeds, %d calls compared on pycoin" % (st.n, len(seeds), tot))
    return st.first


# ------------------------------------------------------------------ 3c. path ranges (Subpaths.tla)
def _range_feat(s):
    f = []
    if "-" in s:
        f.append("span")
    if "," in s:
        f.append("list")
    if "/" in s:
        f.append("multi")
    for m in "Hp'":
        if m in s:
            f.append("mark" + m)
    if re.search(r"(^|[/,-])0\d", s):
        f.append("leading0")
    if re.search(r"\d{8}", s):
        f.append("big")
    if s == "":
        f.append("empty")
    return "+".join(f) or "plain"


def _ranges_worker(arg):
    recs, seed, eseed = arg
    from pycoin.symbols.btc import network as BTC
    try:
        from pycoin.key.subpaths import subpaths_for_path_range
    except ImportError:          # (the iterator of strings is an anchor of the property, but subkeys() is the API)
        subpaths_for_path_range = None
    tree = _G.get("tree_for_ranges") or {}
    M = BTC.keys.bip32_seed(seed)
    MP = M.public_copy()
    E = BTC.keys.electrum_private(master_private_key=eseed)
    EP = E.public_copy()
    fails, n, stats = [], 0, {"rejected_by_spec": 0, "rejected_by_both": 0}
    feats = set()

    def walk(root, p):
        node = root
        for h, v in p:
            node = node.subkey(i=v, is_hardened=h)
        return node
    for rec in recs:
        s = "".join(rec["s"])
        if not rec["ok"]:
            if "-" in s:
                continue                  # (a span such as 0-2147483648 would make pycoin derive 2^31 keys)
            stats["rejected_by_spec"] += 1
            rf, r = _refused(lambda: [k.hwif() for k in M.subkeys(s)])
            stats["rejected_by_both"] += 1 if rf else 0
            continue                      # the property is silent about strings outside the grammar
        feat = _range_feat(s)
        feats.add(feat)
        want = [_tp(p) for p in rec["paths"]]
        det = {"range": s, "spec_paths": [D.path_str(p) for p in want][:12], "seed": seed.hex()}
        rf, got = _refused(lambda: list(M.subkeys(s)))
        n += 1
        if rf:
            fails.append(("C09|ranges|subkeys raises|%s" % feat, "subkeys(%r) raised; the grammar accepts it (%d paths)" % (s, len(want)), det))
            continue
        if len(got) != len(want):
            fails.append(("C09|ranges|count|%s" % feat, "subkeys(%r) yields %d keys, the grammar %d paths" % (s, len(got), len(want)), det))
            continue
        for p, g in zip(want, got):
            n += 1
            ref = walk(M, p)
            if g.hwif(as_private=True) != ref.hwif(as_private=True):
                fails.append(("C09|ranges|key|%s" % feat, "subkeys(%r): a key differs from the one at %s (order or expansion)" % (s, D.path_str(p)), det))
                break
            if p in tree:
                _cmp(fails, "ranges|evaluated", feat, tree[p]["prv"], g, det)
        # the same through the iterator of strings, on a public node when nothing is hardened
        rf, strs = _refused(lambda: list(subpaths_for_path_range(s))) if subpaths_for_path_range else (False, None)
        if subpaths_for_path_range is None:
            pass
        elif rf or len(strs) != len(want):
            fails.append(("C09|ranges|subpaths_for_path_range|%s" % feat, "yields %s, want %d paths" % ("an exception" if rf else len(strs), len(want)), det))
        elif not any(h for p in want for h, v in p):
            for p, t in zip(want, strs):
                n += 1
                if MP.subkey_for_path(t).hwif() != walk(MP, p).hwif():
                    fails.append(("C09|ranges|public key|%s" % feat, "public subkey_for_path(%r) differs from path %s" % (t, D.path_str(p)), det))
                    break
        if len(want) == 1 and "-" not in s and "," not in s:
            n += 1
            if M.subkey_for_path(s).hwif(as_private=True) != walk(M, want[0]).hwif(as_private=True):
                fails.append(("C09|ranges|subkey_for_path|%s" % feat, "subkey_for_path(%r) differs from path %s" % (s, D.path_str(want[0])), det))
        # Electrum wallets take "n" or "n/c" ranges
        # (leading zeros are not one of the spellings the property lists; Electrum hashes the decimal TEXT of n)
        if want and "leading0" not in feat and all(len(p) in (1, 2) and not any(h for h, v in p) for p in want):
            for W, nm in ((E, "private"), (EP, "public")):
                rf, got = _refused(lambda: list(W.subkeys(s)))
                n += 1
                if rf or len(got) != len(want):
                    fails.append(("C09|ranges|electrum %s subkeys|%s" % (nm, feat), "subkeys(%r): %s" % (s, "raised" if rf else "%d keys, want %d" % (len(got), len(want))), det))
                    continue
                for p, g in zip(want, got):
                    ref = W.subkey("%d/%d" % (p[0][1], p[1][1] if len(p) == 2 else 0))
                    if tuple(g.public_pair()) != tuple(ref.public_pair()) or g.secret_exponent() != ref.secret_exponent():
                        fails.append(("C09|ranges|electrum %s key|%s" % (nm, feat), "subkeys(%r) differs at %s" % (s, D.path_str(p)), det))
                        break
    seen = {}
    for f in fails:
        seen.setdefault(f[0], f)
    return list(seen.values()), n, stats, sorted(feats)


class _ArgStream(Stream):
    pass


def replay_ranges(ctx, cfg, seed, with_invariants):
    st = Stream(_ranges_worker_adapter, (seed, 0x1234567890ABCDEF1234567890ABCDEF % D.N), "rng", chunk=1500)
    ctx.tlc("MC_Subpaths", cfg, workers=8, timeout=2400, on_record=st.feed, keep_records=False)
    tot = 0
    rej = [0, 0]
    for fails, n, stats, feats in st.finish():
        tot += n
        rej[0] += stats["rejected_by_spec"]
        rej[1] += stats["rejected_by_both"]
        for key, what, det in fails:
            ctx.fail(key, what, det)
        for f in feats:
            ctx.case("ranges|" + f, 0)
    ctx.case(None, tot)
    ctx.replayed += st.n
    ctx.action("replay.ranges." + cfg, st.n)
    ctx.extra["range_strings_outside_grammar"] = {"exported": rej[0], "also_refused_by_pycoin": rej[1]}
    ctx.log("ranges: %d strings (%d outside the grammar, pycoin refuses %d of those), %d comparisons" % (st.n, rej[0], rej[1], tot))
    if st.first is not None:
        ctx.sample({"range": st.first})


def _ranges_worker_adapter(arg):
    recs, seed, eseed = arg
    return _ranges_worker((recs, seed, eseed))


# ------------------------------------------------------------------ 3d. text form on every network (ExtKeyText.tla)
_FAM_METHODS = {"bip32": ("bip32", "bip32_prv", "bip32_pub"), "bip49": ("bip49", "bip49_prv", "bip49_pub"),
                "bip84": ("bip84", "bip84_prv", "bip84_pub")}


def available_networks():
    """(usable, unusable) network symbols: GRS-family needs the groestlcoin_hash package (L3)"""
    from pycoin.networks.registry import network_codes, network_for_netcode
    ok, bad = [], []
    for c in network_codes():
        net = network_for_netcode(c)
        try:
            net.keys.bip32_seed(b"probe").hwif()
            ok.append(c)
        except ImportError:
            bad.append(c)
    return ok, bad


_B58_RUN = re.compile("[1-9A-HJ-NP-Za-km-z]{100,120}")


def _extkey_tokens(text):
    """the substrings of text that ARE extended keys: Base58Check strings over 78 bytes"""
    out = []
    for tok in _B58_RUN.findall(text if isinstance(text, str) else ""):
        try:
            if len(_b58decode_check_soft(tok)) == 78:
                out.append(tok)
        except ValueError:
            pass
    return out


def _b58decode_check_soft(t):
    v = 0
    for c in t:
        v = v * 58 + D._B58.index(c)
    pad = len(t) - len(t.lstrip("1"))
    raw = b"\0" * pad + v.to_bytes((v.bit_length() + 7) // 8, "big")
    if len(raw) < 5 or hashlib.sha256(hashlib.sha256(raw[:-4]).digest()).digest()[:4] != raw[-4:]:
        raise ValueError("bad checksum")
    return raw[:-4]


def _texts_of(node, prv):
    """EVERY public way the node turns into extended-key text -> [(accessor, exact form or None, text)].
    Accessors are discovered, not assumed: a class without as_text / ku_output is simply not asked."""
    outs = []
    rf, t = _refused(lambda: node.hwif(as_private=prv))
    outs.append(("hwif", prv, None if rf else t))
    at = getattr(node, "as_text", None)
    if callable(at):
        rf, t = _refused(lambda: at(as_private=prv))
        if rf:                                   # an as_text without the keyword: whatever it says must still be this node's text
            rf, t = _refused(lambda: at())
            if not rf:
                outs += [("as_text()", None, tok) for tok in _extkey_tokens(t)]
        else:
            outs.append(("as_text", prv, t))
    for nm, f in (("repr", repr), ("str", str)):
        rf, t = _refused(lambda: f(node))
        if not rf:
            outs += [(nm, None, tok) for tok in _extkey_tokens(t)]
    ku = getattr(node, "ku_output", None)
    if callable(ku):
        try:
            for item in ku():
                for x in (item if isinstance(item, (tuple, list)) else (item,)):
                    outs += [("ku_output", None, tok) for tok in _extkey_tokens(x)]
        except Exception:  # noqa  (ku_output also prints addresses etc.; their failures are not C09's)
            pass
    return outs


def _text_worker(arg):
    recs, seeds = arg
    from pycoin.networks.registry import network_for_netcode
    nets = {c: network_for_netcode(c) for c in _G["nets_ok"]}
    fails, n = [], 0
    for seed in seeds:
        tree = _G["trees"][seed]
        ev = D.Evaluator({"seed": seed})
        for p, e in tree.items():
            ev.bind(["prv", _jp(p)], e["prv"])
        for rec in recs:
            A, fam, prv = rec["net"], rec["fam"], rec["prv"]
            if A not in nets:
                continue
            p = _tp(rec["path"])
            want_text = ev.text(rec["text"])
            want_fields = tree[p]["prv"] if prv else _neuter(tree[p]["prv"])
            det = {"net": A, "family": fam, "private": prv, "path": D.path_str(p), "seed": seed.hex(), "spec_text": want_text}
            base = nets[A].keys.bip32_seed(seed).subkey_for_path(D.path_str(p))
            node = base if fam == "bip32" else getattr(nets[A].keys, fam + "_deserialize")(b"\0\0\0\0" + base.serialize(as_private=True))
            # every way to text: on the private node for the private form; for the public form both on the
            # private node and on its public copy.  A text whose form is not chosen by an argument (repr, str,
            # ku_output) must be the spec's private or public text of THIS family.
            sib = _G["text_index"].get((A, fam, tuple(p), not prv))
            allowed = {want_text} | ({ev.text(sib["text"])} if sib is not None else set())
            bad_text = False
            for who, obj in ([("node", node)] if prv else [("node", node), ("public_copy", node.public_copy())]):
                for acc, form, got in _texts_of(obj, prv):
                    n += 1
                    if (got != want_text) if form is not None else (got not in allowed or (who == "public_copy" and got != want_text)):
                        bad_text = bad_text or acc == "hwif"
                        fails.append(("C09|text|%s|net=%s|%s|%s" % (acc, A, fam, "prv" if prv else "pub"),
                                      "%s %s text of m/%s through %s of the %s: pycoin %r, spec %r" % (A, fam, D.path_str(p), acc, who, got, want_text), det))
            if bad_text:
                continue
            # the catch-all parsers of the key's own network give back a key of the SAME family
            for m_all in ("hierarchical_key", "__call__"):
                pf = getattr(nets[A].parse, m_all, None)
                if not callable(pf):
                    continue
                rf, r = _refused(lambda: pf(want_text))
                n += 1
                cls = "%s|%s|%s" % ("parse()" if m_all == "__call__" else m_all, fam, "prv" if prv else "pub")
                if rf or r is None:
                    fails.append(("C09|text|catch-all|%s|want=key|got=%s" % (cls, "raises" if rf else "None"),
                                  "%s.parse.%s does not read the %s text of its own network" % (A, m_all, fam), det))
                    continue
                if not hasattr(r, "hwif"):
                    continue            # read as something else (an address-like contract): C08/C18's subject
                if not _cmp(fails, "text|catch-all", cls, want_fields, r, dict(det, reader=m_all)):
                    continue
                ref = node if prv else node.public_copy()
                same = [(acc, got) for acc, form, got in _texts_of(r, prv) if form is not None]
                if any(got != want_text for acc, got in same) or _refused(lambda: r.address())[1] != _refused(lambda: ref.address())[1]:
                    fails.append(("C09|text|catch-all family|%s" % cls,
                                  "%s.parse.%s(text) is not a %s key: texts %s, address %s vs %s" % (
                                      A, m_all, fam, same, _refused(lambda: r.address())[1], _refused(lambda: ref.address())[1]), det))
            readers = {(a, f) for a, f in rec["readers"]}
            for B, netB in nets.items():
                for fam2, (m_any, m_prv, m_pub) in _FAM_METHODS.items():
                    rf, r = _refused(lambda: getattr(netB.parse, m_any)(want_text))
                    n += 1
                    should = (B, fam2) in readers
                    if rf:
                        fails.append(("C09|text|parse raises|reader=%s|%s" % (B, fam2), "%s.parse.%s(%r) raised" % (B, m_any, want_text), det))
                        continue
                    if (r is not None) != should:
                        fails.append(("C09|text|parse|want=%s|got=%s|same_net=%s|same_family=%s" % (
                            "key" if should else "None", "None" if r is None else "key", A == B, fam == fam2),
                            "%s.parse.%s of a %s %s text: %s" % (B, m_any, A, fam, "rejected" if r is None else "accepted"), det))
                        continue
                    if not should:
                        continue
                    if not _cmp(fails, "text|round trip", "reader=%s|%s|%s" % ("same" if A == B else "other", fam2, "prv" if prv else "pub"),
                                want_fields, r, dict(det, reader=[B, fam2])):
                        continue
                    back = r.hwif(as_private=prv)
                    rprv, rpub = getattr(netB.parse, m_prv)(want_text), getattr(netB.parse, m_pub)(want_text)
                    # same family: every text accessor of the parsed key says the text again, and it pays to the
                    # address a key of that family built directly on that network pays to
                    twin = getattr(netB.keys, fam2 + "_deserialize")(b"\0\0\0\0" + node.serialize(as_private=prv))
                    others = [(acc, got) for acc, form, got in _texts_of(r, prv) if form is not None and got != want_text]
                    if others or _refused(lambda: r.address())[1] != _refused(lambda: twin.address())[1]:
                        fails.append(("C09|text|family of parsed key|%s|%s" % (fam2, "prv" if prv else "pub"),
                                      "%s.parse.%s(text): %s; address %s vs %s" % (B, m_any, others, _refused(lambda: r.address())[1],
                                                                                    _refused(lambda: twin.address())[1]), det))
                    if back != want_text or (rprv is not None) != prv or (rpub is not None) == prv:
                        fails.append(("C09|text|re-serialise|%s|%s" % (fam2, "prv" if prv else "pub"),
                                      "%s.parse.%s(text).hwif() = %r, text = %r; _prv %s, _pub %s" % (B, m_any, back, want_text, rprv, rpub), det))
                    # the parsed key keeps deriving like the original (and stays in its family)
                    c1 = r.subkey(i=1)
                    c0 = node.subkey(i=1) if prv else node.public_copy().subkey(i=1)
                    if D.project(c1) != D.project(c0) or (A == B and fam == fam2 and c1.hwif(as_private=prv) != c0.hwif(as_private=prv)):
                        fails.append(("C09|text|child of parsed key|%s" % fam2, "child 1 of the parsed key differs from child 1 of the original", det))
    seen = {}
    for f in fails:
        seen.setdefault(f[0], f)
    return list(seen.values()), n


def _hdr_worker(arg):
    """header-boundary texts (MC_ExtKeyText "hdrtext"): a text whose depth / fingerprint / child number sit at their byte
    boundaries parses on every reader network to a key with exactly those fields, and is written back unchanged"""
    recs, seeds = arg
    from pycoin.networks.registry import network_for_netcode
    nets = {c: network_for_netcode(c) for c in _G["nets_ok"]}
    fails, n = [], 0
    for seed in seeds:
        root = _G["trees"][seed][()]["prv"]
        ev = D.Evaluator({"seed": seed})
        ev.bind(["prv", []], root)
        for rec in recs:
            A, fam, prv = rec["net"], rec["fam"], rec["prv"]
            if A not in nets:
                continue
            want_text = ev.text(rec["text"])
            cn = (bool(rec["cnh"]), rec["cnv"][0] * 65536 + rec["cnv"][1])
            want = dict(root, depth=rec["depth"], pfp=bytes(rec["pfp"]), cn=cn)
            if not prv:
                want = _neuter(want)
            det = {"net": A, "family": fam, "private": prv, "depth": rec["depth"], "pfp": bytes(rec["pfp"]).hex(), "cn": list(cn),
                   "seed": seed.hex(), "spec_text": want_text}
            cls0 = "depth=%d|%s" % (rec["depth"], "hard" if cn[0] else "normal")
            readers = {(a, f) for a, f in rec["readers"]}
            for B, netB in nets.items():
                for fam2, (m_any, m_prv, m_pub) in _FAM_METHODS.items():
                    if (B, fam2) not in readers:
                        continue
                    rf, r = _refused(lambda: getattr(netB.parse, m_any)(want_text))
                    n += 1
                    cls = "%s|%s|%s" % (cls0, fam2, "prv" if prv else "pub")
                    if rf or r is None:
                        fails.append(("C09|text|header|%s|want=key|got=%s" % (cls, "raises" if rf else "None"),
                                      "%s.parse.%s does not read a %s %s text with depth %d, child %s" % (B, m_any, A, fam, rec["depth"], cn), det))
                        continue
                    if not _cmp(fails, "text|header", cls, want, r, dict(det, reader=[B, fam2])):
                        continue
                    rf, back = _refused(lambda: r.hwif(as_private=prv))
                    if rf or back != want_text:
                        fails.append(("C09|text|header|re-serialise|%s|%s" % (cls, "raises" if rf else "differs"),
                                      "%s.parse.%s(text).hwif() = %r, text = %r" % (B, m_any, back, want_text), det))
    seen = {}
    for f in fails:
        seen.setdefault(f[0], f)
    return list(seen.values()), n


def spec_text_cases(ctx):
    """the records of MC_ExtKeyText (run once): every (network, family, form, key shape) with its text term.
    Also fills _G["spec_versions"][(net, family, private)] = the four version bytes the SPEC demands."""
    if "text_recs" not in _G:
        r = ctx.tlc("MC_ExtKeyText", "MC_ExtKeyText", workers=4, timeout=600)
        recs = [x for x in r.records if isinstance(x, dict) and x.get("k") == "text"]
        if not recs:
            raise MachineryError("MC_ExtKeyText printed no case")
        _G["text_recs"] = recs
        _G["hdr_recs"] = [x for x in r.records if isinstance(x, dict) and x.get("k") == "hdrtext"]
        if not _G["hdr_recs"]:
            raise MachineryError("MC_ExtKeyText printed no header case")
        _G["spec_versions"] = {(x["net"], x["fam"], bool(x["prv"])): bytes(x["text"]["a"]["p"][0]["v"]) for x in recs}
        _G["text_index"] = {(x["net"], x["fam"], _tp(x["path"]), bool(x["prv"])): x for x in recs}
    return _G["text_recs"]


def replay_text(ctx, seeds):
    ok, bad = available_networks()
    _G["nets_ok"] = ok
    if bad:
        ctx.assumptions.append("networks %s need the groestlcoin_hash package for their Base58 checksum: their text form is not exercised (L3)" % ",".join(bad))
    recs = spec_text_cases(ctx)
    from pycoin.networks.registry import network_codes
    spec_nets = {x["net"] for x in recs}
    if spec_nets != set(network_codes()):
        raise MachineryError("ExtKeyText.Versions lists %s, pycoin registers %s: regenerate the table deliberately" % (
            sorted(spec_nets - set(network_codes())), sorted(set(network_codes()) - spec_nets)))
    shapes = [_tp(x["path"]) for x in recs]
    need = [x for x in _G["path_recs"] if x["k"] == "root" or any(_tp(x["path"]) == sh[:len(x["path"])] for sh in shapes)]
    _G["trees"] = {s: eval_paths(need, s) for s in seeds}
    tot = 0
    chunks = split(recs, NPROC)
    for fails, n in pmap(_text_worker, [(c, seeds) for c in chunks], chunk=1):
        tot += n
        for key, what, det in fails:
            ctx.fail(key, what, det)
    hdr = _G["hdr_recs"]
    for fails, n in pmap(_hdr_worker, [(c, seeds[:1]) for c in split(hdr, NPROC)], chunk=1):
        tot += n
        for key, what, det in fails:
            ctx.fail(key, what, det)
    ctx.replayed += len(hdr)
    ctx.action("replay.text.header", len(hdr))
    for x in hdr:
        ctx.case("hdrtext|%s|%s|%s|%d" % (x["net"], x["fam"], x["prv"], x["depth"]), 0)
    ctx.case(None, tot)
    for x in recs:
        ctx.case("text|%s|%s|%s" % (x["net"], x["fam"], x["prv"]), 0)
    ctx.replayed += len(recs) * len(seeds)
    ctx.action("replay.text", len(recs) * len(seeds))
    ctx.sample({"text_case": {k: recs[0][k] for k in ("net", "fam", "prv", "path", "readers")}})
    ctx.log("text: %d (network, family, form, key) cases x %d seeds on %d networks, %d parser calls/comparisons" % (
        len(recs), len(seeds), len(ok), tot))


# ------------------------------------------------------------------ 3e. Electrum
def _electrum_worker(arg):
    recs, seedtext = arg
    from pycoin.symbols.btc import network as BTC
    ev = D.Evaluator({"eseed": seedtext.encode()})
    root = [r for r in recs if r["k"] == "elroot"][0]
    k0 = ev.S(root["prv"])
    vals = {(): (k0, D.mul_g(k0))}
    ev.bind(["e", []], {"k": k0.to_bytes(32, "big"), "K": D.ser_p(vals[()][1])})
    fails, n = [], 0
    W = BTC.keys.electrum_seed(seedtext)
    det0 = {"seed": seedtext}
    if W.secret_exponent() != k0:
        fails.append(("C09|electrum|master key from seed", "stretch(seed) differs", det0))
        return fails, 1
    xy = vals[()][1][0].to_bytes(32, "big") + vals[()][1][1].to_bytes(32, "big")
    if W.master_public_key() != xy:
        fails.append(("C09|electrum|master_public_key", "mpk is not x||y of kG", det0))
    roots = {"seed": W, "private": BTC.keys.electrum_private(master_private_key=k0),
             "public_copy": W.public_copy(), "public": BTC.keys.electrum_public(master_public_key=xy)}
    for r in sorted((r for r in recs if r["k"] == "el"), key=lambda r: len(r["steps"])):
        steps = [tuple(x) for x in r["steps"]]
        k = ev.S(r["prv"])
        K = ev.Pt(r["pub"])
        if D.mul_g(k) != K:
            raise MachineryError("evaluator: Electrum public child is not the public half of the private child")
        ev.bind(["e", r["steps"]], {"k": k.to_bytes(32, "big"), "K": D.ser_p(K)})
        det = dict(det0, steps=steps)
        cls = "depth%d|n%s|c%s" % (len(steps), "<10" if steps[-1][0] < 10 else ">=10", steps[-1][1])
        for nm, root_w in roots.items():
            w = root_w
            for i, (nn, c) in enumerate(steps):
                w = w.subkey("%d" % nn if (c == 0 and (i + len(nm)) % 2) else "%d/%d" % (nn, c))
            n += 1
            private = nm in ("seed", "private")
            if tuple(w.public_pair()) != K or w.secret_exponent() != (k if private else None):
                fails.append(("C09|electrum|%s wallet|%s" % ("private" if private else "public", cls),
                              "Electrum %s wallet child %s differs from ElectrumKD.tla" % (nm, steps), det))
    return fails, n


def replay_electrum(ctx, cfg, seedtexts):
    r = ctx.tlc("MC_Electrum", cfg, workers=4, timeout=600)
    recs = [x for x in r.records if isinstance(x, dict) and x.get("k") in ("el", "elroot")]
    tot = 0
    for fails, n in pmap(_electrum_worker, [(recs, s) for s in seedtexts], chunk=1):
        tot += n
        for key, what, det in fails:
            ctx.fail(key, what, det)
    ctx.case(None, tot)
    for x in recs:
        if x["k"] == "el":
            ctx.case("electrum|%s" % (x["steps"],), 0)
    ctx.replayed += len(recs) * len(seedtexts)
    ctx.action("replay.electrum." + cfg, len(recs) * len(seedtexts))
    ctx.log("electrum: %d (n, c) chains x %d seeds, %d wallet comparisons" % (len(recs) - 1, len(seedtexts), tot))


# ------------------------------------------------------------------ 4. traces (code -> spec)
class _HmacTap:
    """Records every HMAC computed through the stdlib while armed: hmac.HMAC (hence hmac.new) and the one-shot
    hmac.digest are replaced in the hmac module itself for the duration of a recording, so it does not matter
    which pycoin module imports hmac or how it calls it.  A caller that bound the names before (`from hmac import
    new`) or computes HMAC by hand is simply not observed: the trace is then judged on the remaining obligations."""

    def __init__(self):
        import hmac
        self.mod = hmac
        self.calls = []
        self.armed = False
        self.saved = None

    def install(self):
        tap, mod = self, self.mod
        real_HMAC, real_new, real_digest = mod.HMAC, mod.new, getattr(mod, "digest", None)
        self.saved = (real_HMAC, real_new, real_digest)

        class TapHMAC(real_HMAC):
            def __init__(self, key, msg=None, digestmod=""):
                self._tap_key = bytes(key)
                self._tap_msg = b""
                real_HMAC.__init__(self, key, None, digestmod)
                if msg is not None:
                    self.update(msg)

            def update(self, msg):
                self._tap_msg += bytes(msg)
                real_HMAC.update(self, msg)

            def copy(self):
                other = real_HMAC.copy(self)
                other._tap_key, other._tap_msg = self._tap_key, self._tap_msg
                return other

            def digest(self):
                d = real_HMAC.digest(self)
                if tap.armed:
                    tap.calls.append((self._tap_key, self._tap_msg, d, self.name))
                return d

            def hexdigest(self):
                return self.digest().hex()

        def new(key, msg=None, digestmod=""):
            return TapHMAC(key, msg, digestmod)

        def digest(key, msg, digest):
            d = real_digest(key, msg, digest)
            if tap.armed:
                name = digest if isinstance(digest, str) else getattr(digest, "__name__", "").replace("openssl_", "")
                tap.calls.append((bytes(key), bytes(msg), d, "hmac-" + name))
            return d
        mod.HMAC, mod.new = TapHMAC, new
        if real_digest is not None:
            mod.digest = digest

    def uninstall(self):
        if self.saved:
            self.mod.HMAC, self.mod.new = self.saved[0], self.saved[1]
            if self.saved[2] is not None:
                self.mod.digest = self.saved[2]
            self.saved = None

    def run(self, f):
        """f() with the tap armed -> (refused?, result, the sha512 calls made)"""
        del self.calls[:]
        self.armed = True
        try:
            rf, r = _refused(f)
        finally:
            self.armed = False
        return rf, r, [(k, m, d) for k, m, d, name in self.calls if name == "hmac-sha512"]


def _b58decode_check(t):
    v = 0
    for c in t:
        v = v * 58 + D._B58.index(c)
    pad = len(t) - len(t.lstrip("1"))
    raw = b"\0" * pad + v.to_bytes((v.bit_length() + 7) // 8, "big")
    body, chk = raw[:-4], raw[-4:]
    if hashlib.sha256(hashlib.sha256(body).digest()).digest()[:4] != chk:
        raise MachineryError("pycoin produced a text with a bad checksum: %r" % t)
    return body


def _hmac_sha512(key, msg):
    """RFC 2104 on hashlib only (the recorder replaces names inside the hmac module while it runs)"""
    if len(key) > 128:
        key = hashlib.sha512(key).digest()
    key = key.ljust(128, b"\0")
    inner = hashlib.sha512(bytes(x ^ 0x36 for x in key) + msg).digest()
    return hashlib.sha512(bytes(x ^ 0x5C for x in key) + inner).digest()


def _conc(key_obj):
    """concrete key as logged: fields straight from the public accessors"""
    p = D.project(key_obj)
    return {"depth": p["depth"], "pfp": list(p["pfp"]), "cn": [1 if p["cn"][0] else 0, p["cn"][1]],
            "chain": list(p["chain"]), "k": list(p["k"]) if p["k"] is not None else [], "K": list(p["K"])}


_DUMMY = {"depth": 0, "pfp": [], "cn": [0, 0], "chain": [], "k": [], "K": []}


def _facts(parents, calls, extra_scalars=()):
    """oracle tables for one event.  hmac: the calls pycoin made (digest re-computed here);
    pub / add / h160: computed by the reference evaluator for the keys involved."""
    F = {"hmac": [], "pub": [], "add": [], "h160": []}
    seen = set()
    pubs = {}

    def pub(kb):
        k = int.from_bytes(kb, "big")
        if 0 < k < D.N and kb not in pubs:
            pubs[kb] = D.ser_p(D.Evaluator().mulG(k))
            F["pub"].append([list(kb), list(pubs[kb])])
        return pubs.get(kb)

    def h160(K):
        if ("h", K) not in seen:
            seen.add(("h", K))
            F["h160"].append([list(K), list(hashlib.new("ripemd160", hashlib.sha256(K).digest()).digest())])
    for key, msg, out in calls:
        if _hmac_sha512(key, msg) != out:
            raise MachineryError("intercepted HMAC digest is not HMAC-SHA512(key, msg)")
        F["hmac"].append([list(key), list(msg), list(out)])
    for c in parents:
        kb = bytes(c["k"])
        if kb:
            K = pub(kb)
            if K:
                h160(K)
        else:
            h160(bytes(c["K"]))
        for key, msg, out in calls:
            if key != bytes(c["chain"]):
                continue
            il = int.from_bytes(out[:32], "big")
            if il >= D.N:
                continue
            if kb:
                pub(((il + int.from_bytes(kb, "big")) % D.N).to_bytes(32, "big"))
            else:
                try:
                    R = D.ec_add(D.Evaluator().mulG(il), D.parse_p(bytes(c["K"])))
                    if R is not None:
                        F["add"].append([list(out[:32]), list(c["K"]), list(D.ser_p(R))])
                except ValueError:
                    pass
    for kb in extra_scalars:
        pub(kb)
    return F


def record_traces(seed, count, max_events, nets_ok, fam_nets=None, stats=None):
    """seeded random sessions on pycoin, far beyond the enumerated grid.
    fam_nets: family -> networks defining it (from the SPEC's table); stats: dict receiving counters."""
    from pycoin.networks.registry import network_for_netcode
    tap = _HmacTap()
    rnd = random.Random(seed)
    if fam_nets is None:
        fam_nets = {"bip32": list(nets_ok), "bip49": [], "bip84": []}
    fam_nets = {f: [c for c in v if c in nets_ok] for f, v in fam_nets.items()}
    fams = [f for f in ("bip32", "bip32", "bip49", "bip84") if fam_nets.get(f)]
    stats = stats if stats is not None else {}
    stats.setdefault("hmac_obligations", 0)
    stats.setdefault("hmac_obligations_unobserved", 0)

    def rindex():
        r = rnd.random()
        if r < 0.3:
            v = rnd.choice([0, 1, 2, 255, 256, 65535, 65536, 2 ** 24 - 1, 2 ** 24, 2 ** 24 + 1, 2 ** 31 - 2, 2 ** 31 - 1, 1000000000])
        elif r < 0.6:
            v = rnd.randrange(2 ** 31)
        else:
            v = rnd.randrange(2 ** rnd.randrange(1, 32))
        return (rnd.random() < 0.45, v)

    def kbytes(*concs):
        return [bytes(c["k"]) for c in concs if c["k"]]
    traces = []
    tap.install()
    try:
        for t in range(count):
            netsym = rnd.choice(nets_ok)
            net = network_for_netcode(netsym)
            sd = bytes(rnd.randrange(256) for _ in range(rnd.choice([16, 16, 32, 64, 5, 100])))
            objs = []           # python objects by number - 1
            info = []           # (netsym, family)
            ev = []
            asked = set()       # derivations already requested in this session (a repeat needs no HMAC call)

            def number(o, ni):
                for i, x in enumerate(objs):
                    if x is o:
                        return i + 1
                objs.append(o)
                info.append(ni)
                return len(objs)

            def obligation(parent, h, v, want, calls):
                """one derivation that has to be explained: was its HMAC call seen?"""
                req = (json.dumps(parent, sort_keys=True), h, v, want if want != "dflt" else ("prv" if parent["k"] else "pub"))
                if req in asked:
                    return
                asked.add(req)
                stats["hmac_obligations"] += 1
                if not any(k == bytes(parent["chain"]) for k, m, d in calls):
                    stats["hmac_obligations_unobserved"] += 1
            rf, M, calls = tap.run(lambda: net.keys.bip32_seed(sd))
            if rf:
                raise MachineryError("bip32_seed raised on a %d-byte seed" % len(sd))
            stats["hmac_obligations"] += 1
            if not any(k == b"Bitcoin seed" for k, m, d in calls):
                stats["hmac_obligations_unobserved"] += 1
            ev.append({"op": "master", "seed": list(sd), "res": number(M, (netsym, "bip32")), "node": _conc(M),
                       "facts": _facts([], calls, kbytes(_conc(M)))})
            cur = 1
            for _ in range(rnd.randrange(6, max_events)):
                o = cur if rnd.random() < 0.7 else rnd.randrange(1, len(objs) + 1)
                obj = objs[o - 1]
                parent = _conc(obj)
                private = bool(parent["k"])
                r = rnd.random()
                if r < 0.45:
                    h, v = rindex()
                    want = rnd.choice(["prv", "pub", "dflt"]) if private else rnd.choice(["pub", "dflt"])
                    rf, res, calls = tap.run(lambda: obj.subkey(i=v, is_hardened=h, as_private=WANT_ARG[want]))
                    e = {"op": "derive", "o": o, "ix": [1 if h else 0, v], "want": want}
                    if rf:
                        e.update(res=0, node=_DUMMY, facts=_facts([parent], calls))
                    else:
                        c = _conc(res)
                        obligation(parent, h, v, want, calls)
                        e.update(res=number(res, info[o - 1]), node=c, facts=_facts([parent], calls, kbytes(c)))
                        if parent["depth"] < 40:
                            cur = e["res"]
                    ev.append(e)
                elif r < 0.55:
                    res = obj.public_copy()
                    ev.append({"op": "copy", "o": o, "res": number(res, info[o - 1]), "node": _conc(res), "facts": _facts([parent], [])})
                    if rnd.random() < 0.4:
                        cur = ev[-1]["res"]
                elif r < 0.8:
                    path = [rindex() for _ in range(rnd.randrange(0, 7))]
                    if not private and rnd.random() < 0.8:
                        path = [(False, v) for h, v in path]
                    s = "/".join("%d%s" % (v, rnd.choice("Hp'") if h else "") for h, v in path) + (".pub" if rnd.random() < 0.3 else "")
                    rf, res, calls = tap.run(lambda: obj.subkey_for_path(s))
                    # the intermediate keys (public API again; memoised by pycoin today, recomputed otherwise)
                    steps, node, prev = [], obj, parent
                    for h, v in path:
                        rf2, node, more = tap.run(lambda: node.subkey(i=v, is_hardened=h))
                        if rf2:
                            break
                        calls = calls + more
                        c = _conc(node)
                        obligation(prev, h, v, "dflt", calls)
                        steps.append(c)
                        prev = c
                    e = {"op": "path", "o": o, "s": list(s), "steps": steps, "facts": _facts([parent] + steps, calls, kbytes(*steps))}
                    if rf:
                        e.update(res=0, node=_DUMMY)
                    else:
                        e.update(res=number(res, info[o - 1]), node=_conc(res))
                        if _conc(res)["depth"] < 40:
                            cur = e["res"]
                    ev.append(e)
                else:
                    fam = rnd.choice(fams)
                    nsym = rnd.choice(fam_nets[fam])
                    n2 = network_for_netcode(nsym)
                    prv = private and rnd.random() < 0.6
                    blob74 = obj.serialize(as_private=prv)
                    node2 = getattr(n2.keys, fam + "_deserialize")(b"\0\0\0\0" + blob74)
                    # through either text accessor the class offers
                    at = getattr(node2, "as_text", None)
                    text = (at if callable(at) and rnd.random() < 0.5 else node2.hwif)(as_private=prv)
                    blob = _b58decode_check(text)
                    ev.append({"op": "text", "o": o, "net": nsym, "fam": fam, "prv": prv, "blob": list(blob), "facts": _facts([parent], [])})
                    # parse it back with a random reader
                    rnet = nsym if rnd.random() < 0.6 else rnd.choice(nets_ok)
                    rfam = fam if rnd.random() < 0.7 else rnd.choice(["bip32", "bip49", "bip84"])
                    rf, res = _refused(lambda: getattr(network_for_netcode(rnet).parse, rfam)(text))
                    if rf:
                        ev.append({"op": "parse", "net": rnet, "fam": rfam, "blob": list(blob), "res": -1, "node": _DUMMY, "facts": _facts([], [])})
                    elif res is None:
                        ev.append({"op": "parse", "net": rnet, "fam": rfam, "blob": list(blob), "res": 0, "node": _DUMMY, "facts": _facts([], [])})
                    else:
                        ev.append({"op": "parse", "net": rnet, "fam": rfam, "blob": list(blob), "res": number(res, (rnet, rfam)), "node": _conc(res),
                                   "facts": _facts([], [], [blob[46:78]] if blob[45] == 0 else [])})
                        if rnd.random() < 0.5:
                            cur = ev[-1]["res"]
            traces.append({"net": netsym, "ev": ev})
    finally:
        tap.uninstall()
    return traces


def validate_traces(ctx, traces):
    """-> sorted list of rejected trace indices (0-based)"""
    fd, path = tempfile.mkstemp(prefix="vf-c09-traces-", suffix=".json")
    with os.fdopen(fd, "w") as f:
        json.dump(traces, f)
    try:
        r = ctx.tlc("Trace_BIP32", "Trace_BIP32", workers=1, env={"TRACE_FILE": path}, count=False, timeout=2400)
    finally:
        os.unlink(path)
    for rec in r.records:
        if isinstance(rec, dict) and rec.get("k") == "rejected":
            if rec["n"] != len(traces):
                raise MachineryError("trace run saw %s traces, %d were sent" % (rec["n"], len(traces)))
            return sorted(int(x) - 1 for x in rec["ids"])
    raise MachineryError("trace run printed no verdict: %s" % r.raw_tail[-8:])


def first_unexplained(ctx, trace):
    """length of the longest prefix of the trace TLC accepts (bisect by re-running prefixes)"""
    lo, hi = 0, len(trace["ev"])
    pre = [dict(trace, ev=trace["ev"][:i]) for i in range(1, hi + 1)]
    rej = set(validate_traces(ctx, pre))
    for i in range(hi):
        if i in rej:
            return i
    return hi


def run_traces(ctx, count, max_events):
    ok, bad = available_networks()
    spec_text_cases(ctx)
    fam_nets = {f: sorted({n for (n, ff, p) in _G["spec_versions"] if ff == f}) for f in ("bip32", "bip49", "bip84")}
    stats = {}
    traces = record_traces(ctx.seed * 6151 + 909, count, max_events, ok, fam_nets, stats)
    ctx.extra["trace_hmac_obligations"] = stats["hmac_obligations"]
    ctx.extra["trace_hmac_obligations_unobserved"] = stats["hmac_obligations_unobserved"]
    if stats["hmac_obligations_unobserved"]:
        ctx.log("traces: %d of %d HMAC obligations were not observed through the stdlib hmac entry points; those derivations are "
                "judged on metadata only in the traces (the replays still check every field)" % (
                    stats["hmac_obligations_unobserved"], stats["hmac_obligations"]))
    nev = sum(len(t["ev"]) for t in traces)
    ops = {}
    for t in traces:
        for e in t["ev"]:
            ops[e["op"]] = ops.get(e["op"], 0) + 1
            ctx.case("trace|%s|%s" % (e["op"], "refused" if e.get("res") == 0 else "ok"), 0)
    for ch in split(traces, max(1, len(traces) // 400)):
        rej = validate_traces(ctx, ch)
        ctx.traces += len(ch) - len(rej)
        for j, i in enumerate(rej):
            t = ch[i]
            if j >= 3:          # locating the event costs a TLC run per trace: do it for the first few only
                ctx.fail("C09|trace|rejected", "recorded pycoin session is not a session of BIP32.tla (%d more rejected traces)" % (len(rej) - 3),
                         {"ops": [x["op"] for x in t["ev"]]})
                break
            k = first_unexplained(ctx, t)
            e = t["ev"][k]
            ctx.fail("C09|trace|op=%s|res=%s" % (e["op"], "refused" if e.get("res") == 0 else ("raises" if e.get("res") == -1 else "key")),
                     "recorded pycoin session is not a session of BIP32.tla: event %d (%s) is not explained" % (k + 1, e["op"]),
                     {"event": {x: e[x] for x in e if x != "facts"}, "prefix_ops": [x["op"] for x in t["ev"][:k]]})
    ctx.case(None, nev)
    for o, c in ops.items():
        ctx.action("trace." + o, c)
    ctx.sample({"trace_event": {x: traces[0]["ev"][1][x] for x in traces[0]["ev"][1] if x != "facts"}})
    ctx.log("traces: %d sessions, %d events %s" % (len(traces), nev, ops))
    return traces


def make_seeds(ctx, k):
    rnd = random.Random(ctx.seed * 7919 + 90)
    lens = [16, 32, 64, 1, 17, 128]
    return VEC_SEEDS + [bytes(rnd.randrange(256) for _ in range(lens[i % len(lens)])) for i in range(k)]


# ------------------------------------------------------------------ binding self-tests
def selftests(ctx, first_session, traces):
    from pycoin.symbols.btc import network as BTC
    # (1) spec -> code: corrupt one expected value of one replay case
    if first_session is not None:
        rec = first_session
        good, bad = [], []
        _run_session(rec, VEC_SEEDS[0], BTC, good)

        def corrupt(fields):
            o = max(fields)
            ch = bytearray(fields[o]["chain"])
            ch[7] ^= 1
            fields[o] = dict(fields[o], chain=bytes(ch))
        _run_session(rec, VEC_SEEDS[0], BTC, bad, corrupt=corrupt)
        ctx.selftest("replay_rejects_corrupted_expectation", not good and len(bad) > 0)
    # (2) code -> spec: corrupt one field of one recorded trace, each in a different way
    if traces:
        base = next(t for t in traces if sum(1 for e in t["ev"] if e["op"] == "derive" and e["res"] > 0) >= 2
                    and any(e["op"] == "text" for e in t["ev"]))
        muts = []

        def mutant(op, pred, change):
            t = copy.deepcopy(base)
            e = next((e for e in t["ev"] if e["op"] == op and pred(e)), None)
            if e is not None:
                change(e)
                muts.append(t)
        ok_derive = lambda e: e["res"] > 0
        # a wrong chain code (decidable in the trace only where the library's HMAC call was observed)
        mutant("derive", lambda e: e["res"] > 0 and e["facts"]["hmac"], lambda e: e["node"]["chain"].__setitem__(0, e["node"]["chain"][0] ^ 1))
        mutant("derive", ok_derive, lambda e: e["node"].__setitem__("depth", e["node"]["depth"] + 1))          # depth off by one

        def swap_index_bytes(e):                                  # the HMAC'd index bytes in the other order
            row = e["facts"]["hmac"][0]
            row[1][-4:] = row[1][-4:][::-1]
            row[2] = list(_hmac_sha512(bytes(row[0]), bytes(row[1])))
        # (only when the library's HMAC calls were observed at all, and the index is not a palindrome)
        mutant("derive", lambda e: e["res"] > 0 and e["facts"]["hmac"] and e["facts"]["hmac"][0][1][-4:] != e["facts"]["hmac"][0][1][-4:][::-1],
               swap_index_bytes)
        mutant("text", lambda e: True, lambda e: e["blob"].__setitem__(4, e["blob"][4] ^ 1))                   # depth byte of the serialisation
        mutant("derive", ok_derive, lambda e: e["node"]["pfp"].__setitem__(3, e["node"]["pfp"][3] ^ 1))        # parent fingerprint
        rej = validate_traces(ctx, [base] + muts)
        ctx.selftest("trace_rejects_corrupted_field", len(muts) >= 3 and rej == list(range(1, len(muts) + 1)))


def replay(ctx, obj):
    print(json.dumps(obj, indent=1)[:6000])
    print("(re-run ./check C09; the detail above holds the seed, the network and the calls of the failing case)")


def run(ctx):
    q = ctx.quick
    ctx.rule = ("model: BIP32.tla lemmas on every index path of depth <= 3 over boundary child values x {normal, hardened}; "
                "BIP32Session on every order of <= MaxOps calls; Subpaths on every token string; ExtKeyText on every network x family. "
                "replay: every TLC-printed path / session / range string / (network, family, form, key) / Electrum chain, evaluated for "
                "several seeds and executed on pycoin. distinct_nontrivial = distinct (depth, index class) path classes + session "
                "call classes (op, wanted form, hardened, first/repeated/other-flags) + range-string feature classes + "
                "(network, family, form) text cases + Electrum (n, c) chains + trace event classes")
    ctx.assumptions += [
        "HMAC-SHA512, SHA256, RIPEMD160 from hashlib/hmac are the trusted base; equal terms stand for equal digests (no collisions)",
        "secp256k1 arithmetic by a 30-line affine reference (cross-checked against pycoin's generator both ways); the curve law itself is C02's subject",
        "BIP32's 'IL >= n or child key 0: use the next index' branch (probability < 2^-127) is not modelled; the evaluator asserts it is not hit",
        "Base58Check is C11's subject: here an independent 10-line encoder/decoder",
        "subkey(as_private=True) on a public-only parent with a normal index is left unspecified (the property only demands refusal of hardened)",
        "strings outside the path-range grammar (and leading zeros for Electrum, which hashes the decimal text) carry no demand",
        "TLC/SANY, CPython"]
    spec_text_cases(ctx)
    _G["versions"] = {s: (_G["spec_versions"][(s, "bip32", True)], _G["spec_versions"][(s, "bip32", False)])
                      for s in ("BTC", "XTN", "LTC", "DOGE")}
    # 0/2. trusted base and ground truth first
    if _only(ctx, "curve"):
        check_reference_curve(ctx)
    if _only(ctx, "truth"):
        ground_truth(ctx)
    # 1. lemmas that have no replay attached (the other lemma sets are checked in the replay runs below)
    if _only(ctx, "model"):
        ctx.tlc("MC_BIP32Session", "MC_BIP32Session_q" if q else "MC_BIP32Session_t", workers=8, timeout=2400)
        for mode in ("noHard", "noWant", "noChain"):
            r = ctx.tlc("MC_BIP32Session", "MC_BIP32Session_" + mode, workers=4, expect_ok=False, count=False, timeout=600)
            ctx.selftest("model_rejects_memo_keyed_" + mode, (not r.ok) and r.violated == "ResultIsPure")
    seeds = make_seeds(ctx, 4 if q else 14)
    first_session = None
    traces = None
    # 3. spec -> code
    if _only(ctx, "paths") or _only(ctx, "text") or _only(ctx, "ranges"):
        replay_paths(ctx, "MC_BIP32_rpq" if q else "MC_BIP32_rpt", seeds, ["BTC", "XTN", "LTC", "DOGE"])
    if _only(ctx, "seedtext"):
        replay_seed_texts(ctx, ["BTC", "XTN", "LTC", "DOGE"])
    if _only(ctx, "sessions"):
        for cfg in (["MC_BIP32Session_rpq", "MC_BIP32Session_rp2"] if q else ["MC_BIP32Session_rpq", "MC_BIP32Session_rpt1", "MC_BIP32Session_rpt2", "MC_BIP32Session_rp2"]):
            first_session = replay_sessions(ctx, cfg, seeds[1:2] if q else seeds[1:3]) or first_session
    if _only(ctx, "ranges"):
        _G["tree_for_ranges"] = eval_paths([x for x in _G["path_recs"] if x["k"] == "root" or len(x["path"]) <= 2], seeds[0])
        replay_ranges(ctx, "MC_Subpaths_rpq" if q else "MC_Subpaths_t", seeds[0], not q)
    if _only(ctx, "text"):
        replay_text(ctx, seeds[:2] if q else seeds[:4])
    if _only(ctx, "electrum"):
        rnd = random.Random(ctx.seed * 104729 + 9)
        est = ["%032x" % rnd.getrandbits(128) for _ in range(2 if q else 4)]
        replay_electrum(ctx, "MC_Electrum_q" if q else "MC_Electrum_t", est)
    # 4. code -> spec
    if _only(ctx, "traces"):
        traces = run_traces(ctx, 150 if q else 1500, 16 if q else 26)
    if _only(ctx, "selftest") and (first_session is not None or traces):
        selftests(ctx, first_session, traces)
    ctx.exhaustive = True
