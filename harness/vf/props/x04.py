"""X04 - the `tx` command assembles exactly the transaction its arguments describe, and says the truth about it
(extension specification).

spec/X04_TxTool.tla        the command as a state machine over an abstract work item (options, collect, merge, edit,
                           fee, sign, report); composes Bytes/TxWire, Spendable, TxRules, UnspentRules, ParseDispatch
                           (Address, NetTable, Classify), CoinDecimal; lemmas Order / Conservation / Report
spec/X04_MC_TxTool.tla     pool, case grid (sessions of one or two invocations), canonical hint, lemmas as invariants, export
spec/X04_Trace_TxTool.tla  recorded invocations (seeded random ones and the repository's own tx_*.txt files) are runs of
                           the same actions

Stages (./check X04 --only a,b): model, replay, traces, truth, selftest.
"""
from __future__ import annotations

import json
import os
import random

from vf.ctx import MachineryError, ROOT, REPO
from vf.drv import nets
from vf.drv import txwire as W
from vf.drv import x04_tx as X
from vf.par import NPROC, split, pmap

PID = "X04"
FINDINGS = os.path.join(ROOT, "ext", "X04_findings.json")


# ---------------------------------------------------------------- findings of an extension live in ext/
def _wrap_fail(ctx):
    known = {}
    if os.path.exists(FINDINGS):
        for e in json.load(open(FINDINGS))["findings"]:
            if e.get("property") == PID and e.get("status") == "known":
                known[e["key"]] = e
    real = ctx.fail

    def fail(key, what, detail=None):
        if key in known:
            if key not in ctx.known_seen:
                ctx.known_seen[key] = what
                print("KNOWN-FINDING: property=%s %s [%s]" % (PID, known[key].get("what", what), key), flush=True)
            return False
        return real(key, what, detail)
    ctx.fail = fail
    return known


# ---------------------------------------------------------------- class-level description of an item
def item_class(item):
    """what kinds of arguments and options an invocation has (no values): part of every failure key"""
    ks = []
    for tk in X.seq(item["args"]):
        k = tk["k"]
        if k == "tx":
            k = "tx" if len(tk["bytes"]) else "tx"
        ks.append({"tx": "T", "prev": "T", "txid": "I", "sp": "S", "parts": "P", "text": "X"}[k])
    # runs of equal letters are collapsed: "SSPX" -> "SPX"
    s = ""
    for c in ks:
        if not s or s[-1] != c:
            s += c
    o = []
    for name in ("ver", "lock", "seqn", "fee"):
        if item[name]["set"]:
            o.append(name)
    for name in ("rmin", "rmout", "repl", "db", "keyfile"):
        if X.seq(item[name]):
            o.append(name)
    for name in ("aug", "showu"):
        if item[name]:
            o.append(name)
    if item["ofile"]:
        o.append("ofile")
    return "args=%s|opts=%s" % (s or "-", "+".join(o) or "-")


def _short(s, n=300):
    s = str(s)
    return s if len(s) <= n else s[:n] + "..."


# ---------------------------------------------------------------- judging one invocation
def judge(fam, stage, item, x, ran, rnd, holes, out):
    """compare what `tx` did (ran) with the demanded outcome x.  out: list of (key, what, detail).
    -> dict(bytes=emitted bytes or None) for the next invocation"""
    argv = rnd.argv
    det = {"argv": argv, "stdout": ran.out[:4000], "stderr": ran.err[:2000], "exc": ran.tb, "expected": x.get("r"),
           "family": fam, "invocation": stage, "shape": item_class(item)}
    # the situation, as the rule book sees it (class level): what is known about the spent outputs, what became of the pool
    if x.get("r") == "ok":
        kn = [u["known"] for u in X.seq(x["uns"])]
        sit = "unspents=%s|pool=%s" % ("none" if not kn else "all" if all(kn) else "unknown" if not any(kn) else "some", x["fs"])
    else:
        sit = ""

    def fail(aspect, what, situational=True):
        if situational and sit.startswith("unspents=some"):
            # what some inputs spend is known and what others spend is not: every disagreement there is one class per aspect
            key = "X04|replay|partly-unknown-sources|%s" % aspect.split("|")[0]
        else:
            key = "X04|replay|%s" % aspect + ("|%s" % sit if situational and sit else "")
        out.append((key, "tx %s : %s" % (_short(" ".join(argv), 400), what), det))

    r = x["r"]
    res = {"bytes": None}
    if ran.exc is not None:
        if r == "malformed":
            fail("expected=malformed:%s|got=not-refused" % x["why"], "a value that is none of its field: uncaught exception %s" % ran.tb, False)
        else:
            fail("expected=%s%s|uncaught=%s" % (r, ":" + x["why"] if x.get("why") else "", ran.where), "uncaught exception %s" % ran.tb, False)
        return res
    errs = X.read_stderr(ran.err)
    kinds = [k for k, g, l in errs]
    if r == "open":
        return res
    if r == "refused":
        if ran.exit is None:
            fail("expected=refused:%s|got=completed" % x["why"], "arguments that denote nothing were accepted; stdout: %s" % _short(ran.out))
        elif ran.exit == 0 or not ran.err.strip():
            fail("expected=refused:%s|got=exit-without-message" % x["why"], "exit %r without a message" % ran.exit)
        return res
    if r == "malformed":
        # refusal with a message, or completion with a remark of its own, is what the rule book accepts; anything else
        # (accepted without a word, or a traceback from wherever the value ends up) is one class per kind of value
        bad = None
        if ran.exit is not None:
            if not ran.err.strip():
                bad = "exit %r without a message" % ran.exit
        elif "other" not in kinds:
            bad = "accepted without any remark; stdout: %s" % _short(ran.out)
        if bad:
            fail("expected=malformed:%s|got=not-refused" % x["why"], "a value that is none of its field: %s" % bad, False)
        return res
    # r == "ok"
    if ran.exit is not None:
        fail("expected=ok|got=exit", "exit %r: %s" % (ran.exit, _short(ran.err)))
        return res
    sym = item["net"]
    mode = x["mode"]
    said = set(kinds)
    stdout_lines = ran.out.splitlines()
    emitted = None
    if mode == "dump":
        d = X.read_dump(ran.out)
        if d["bad"]:
            fail("dump|unreadable-line", "unexpected stdout line %r" % d["bad"][0])
        if d["hex"] is None:
            fail("dump|no-hex", "no transaction hex printed: %s" % _short(ran.out))
            return res
        emitted = bytes.fromhex(d["hex"])
        said |= set(d["extra"])
    elif mode == "file":
        try:
            with open(rnd.ofile, "rb") as f:
                content = f.read()
        except OSError:
            fail("file|not-written", "the -o file was not written")
            return res
        try:
            emitted = bytes.fromhex(content.decode()) if item["ofile"] == "hex" else content
        except ValueError:
            fail("file|not-hex", "the .hex file does not hold hex text")
            return res
        for ln in stdout_lines:
            if ln == "all incoming transaction values validated":
                said.add("validated")
            elif ln.strip():
                fail("file|stdout", "unexpected stdout line with -o: %r" % ln)
    else:
        want = [X.line_text(l) for l in X.seq(x["lines"])]
        got = [ln for ln in stdout_lines if ln.strip()]
        if mode == "unspents":
            # the source of these spendables is the emitted transaction itself: its id is finished here when the bytes are exact
            got2, want2 = [g.split("/", 1)[1] if "/" in g else g for g in got], [w.split("/", 1)[1] for w in want]
            ids = {g.split("/", 1)[0] for g in got if "/" in g}
            if got2 != want2:
                fail("listing|unspents|lines", "-u printed %r, demanded (after the id) %r" % (got2[:4], want2[:4]))
            elif len(ids) > 1 or any(len(i) != 64 for i in ids):
                fail("listing|unspents|id", "-u printed ids %r" % sorted(ids)[:3])
            elif x["exact"] and ids:
                b = holes.fill(x["bytes"])
                n = len(b) - sum(8 + 1 + len(W.expand(u["script"])) for u in X.seq(x["uns"])) if x["ext"] else len(b)
                if X.sha256d(b[:n])[::-1].hex() not in ids:
                    fail("listing|unspents|id", "-u names transaction %s, the transaction assembled has id %s" % (sorted(ids)[0], X.sha256d(b[:n])[::-1].hex()))
        elif got != want:
            fail("listing|inputs|lines", "printed %r, demanded %r" % (got[:4], want[:4]))
    # ---- the bytes
    if emitted is not None:
        ok, found, off = X.match_with_holes(x["bytes"], emitted)
        if not ok:
            exp_fields = None
            try:
                filled = _fill_for_diff(x["bytes"], emitted, holes, sym, stage)
                exp_fields = X.project_emitted(sym, filled)
            except Exception:   # noqa
                pass
            fld = X.first_field_diff(exp_fields, X.project_emitted(sym, emitted))
            fail("bytes|differ|field=%s" % fld, "emitted %s, demanded %s (first difference at byte %s)" % (
                emitted.hex(), "".join(X.seq(x["bytes"])), off))
        else:
            for fill, s in found.items():
                holes.by_fill[fill] = s
            res["bytes"] = emitted
        # which inputs changed hands / are solved: the library's validation on an independent re-parse
        n_ext = sum(8 + len(_varlen(len(W.expand(u["script"])))) + len(W.expand(u["script"])) for u in X.seq(x["uns"])) if x["ext"] else 0
        body = emitted[:len(emitted) - n_ext] if ok else None
        if body is not None:
            v = X.lib_validate(sym, body, x["uns"])
            if v is None:
                fail("validate|unparsable", "the library cannot parse what was emitted")
            elif v != list(X.seq(x["ok"])):
                k = [i for i in range(len(v)) if v[i] != X.seq(x["ok"])[i]][0]
                fail("solved|expected=%s|got=%s|%s" % (X.seq(x["ok"])[k], v[k], "signed-now" if (k + 1) in X.seq(x["sign"]) else "not-signed-now"),
                     "input %d of the emitted transaction: the library's validation says %s, demanded %s" % (k, v[k], X.seq(x["ok"])[k]))
            if mode == "dump" and ok:
                hdr_id = X.sha256d(body)[::-1].hex()
                if d["hdr"].get("id") != hdr_id or d["hdr"].get("size") != len(body):
                    fail("dump|hdr.id-or-size", "header says %s / %s bytes, the emitted transaction is %s / %d bytes" % (
                        d["hdr"].get("id"), d["hdr"].get("size"), hdr_id, len(body)))
    # ---- the dump
    if mode == "dump":
        wh, wl = X.expected_dump(x["dump"], X.UNIT[sym])
        df = X.diff_dump(wh, wl, d)
        if df is not None:
            fail("dump|%s" % df[0], "dump shows %r where %r is demanded (%s)" % (df[1][1], df[1][0], df[0]))
    # ---- what is said
    verdict_kinds = {"validated", "sources_missing", "not_validated"}
    must = [set(X.seq(a)) for a in X.seq(x["says"])]
    may = set(X.seq(x["may"])) | {"env"}
    v = x["verdict"]
    got_verdict = said & verdict_kinds
    want_verdict = set() if v == "none" else {v}
    if got_verdict != want_verdict:
        fail("verdict|expected=%s|got=%s" % (v, "+".join(sorted(got_verdict)) or "none"),
             "about the source transactions the tool says %r, demanded %r" % (sorted(got_verdict), v))
    rest = {("remark" if k == "other" else k) for k in said - verdict_kinds}
    for alt in must:
        if not (alt & rest):
            fail("says|missing=%s" % "/".join(sorted(alt)), "no %s remark; stderr: %s" % (" or ".join(sorted(alt)), _short(ran.err)))
    allowed = may.union(*must) if must else may
    for k in sorted(rest - allowed):
        line = [l for kk, g, l in errs if kk == ("other" if k == "remark" else k)]
        fail("says|unexpected=%s" % k, "unexpected remark %r" % (line[0] if line else k))
    for kk, g, l in errs:
        if kk == "still_unsigned" and int(g[0]) != x["bad"]:
            fail("says|still_unsigned|count", "%r, but %d inputs are unsolved" % (l, x["bad"]))
    return res


def _varlen(n):
    return bytes([n]) if n < 253 else b"\xfd" + n.to_bytes(2, "little")


def _fill_for_diff(tokens, actual, holes, sym="BTC", stage=1):
    """expected bytes with every hole filled: by the script recorded for it, else by the script the emitted transaction has
    at that input, else by an empty one (difference reports only: the scripts of holes are not what is being compared)"""
    act = X.project_emitted(sym, actual)
    out = b""
    for t in X.seq(tokens):
        if t[0] == "*" and t.endswith("x100") and int(t[1:3], 16) >= 220:
            fill = int(t[1:3], 16)
            i = (fill - 200) % 20
            sc = holes.by_fill.get(fill)
            if sc is None and act is not None and (fill - 200) // 20 == stage and 1 <= i <= len(act["ins"]):
                sc = bytes.fromhex(act["ins"][i - 1][2])
            sc = sc if sc is not None and len(sc) < 253 else b""
            out = out[:-1] + bytes([len(sc)]) + sc
        else:
            out += W.expand([t])
    return out


def run_session(rec):
    """one exported session on the real command -> (failures, counters)"""
    fails = []
    n_inv = 0
    holes = X.Holes()
    try:
        with X.Workdir() as wd:
            rnd1 = X.render(rec["it1"], wd, holes, tag="a")
            ran1 = X.run_tx(rnd1.argv)
            n_inv += 1
            res1 = judge(rec["fam"], 1, rec["it1"], rec["x1"], ran1, rnd1, holes, fails)
            if rec["two"] and not fails:
                prev = res1["bytes"]
                if prev is None and rec["x1"]["r"] == "ok":
                    fails.append(("X04|replay|%s|second-invocation-impossible" % rec["fam"], "the first invocation emitted nothing to read back", {"argv": rnd1.argv}))
                else:
                    rnd2 = X.render(rec["it2"], wd, holes, prev_bytes=prev, prev_ofile=rnd1.ofile, tag="b")
                    ran2 = X.run_tx(rnd2.argv)
                    n_inv += 1
                    judge(rec["fam"], 2, rec["it2"], rec["x2"], ran2, rnd2, holes, fails)
    except Exception as e:   # noqa  (a harness problem must not pass silently)
        import traceback
        fails.append(("X04|harness|%s" % type(e).__name__, traceback.format_exc()[-1500:], {"case": rec.get("id")}))
    sig = (rec["fam"], rec["x1"]["r"], rec["x1"].get("mode"), rec["x1"].get("fs"), rec["x1"].get("verdict"), bool(X.seq(rec["x1"].get("sign", []))),
           item_class(rec["it1"]), (rec["x2"]["r"], rec["x2"].get("mode"), rec["x2"].get("verdict")) if rec["two"] else None)
    return fails, n_inv, sig


def _run_chunk(recs):
    return [run_session(r) for r in recs]


# ---------------------------------------------------------------- stages
def prepare(ctx):
    """network table, pool keys (from the seed), ids of the pool's source transactions (TLC serialises, hashlib hashes)"""
    tbl = X.net_table()
    keys = X.make_keys(ctx.seed)
    tpath = nets.write_json(tbl, "vf-x04-nets-")
    f0 = nets.write_json({"keys": keys, "srcid": [[0] * 32] * 3}, "vf-x04-facts0-")
    env0 = {"NET_TABLE": tpath, "X04_FACTS": f0}
    r = ctx.tlc("X04_MC_TxTool", "X04_MC_TxTool_pool", workers=1, env=env0, timeout=600, count=False)
    os.unlink(f0)
    src = {x["s"]: x for x in r.by_kind("src")}
    if sorted(src) != [1, 2, 3]:
        raise MachineryError("pool run did not print the three source transactions")
    srcid = []
    for s in (1, 2, 3):
        wire, stripped = W.expand(src[s]["wire"]), W.expand(src[s]["stripped"])
        if wire != stripped:
            raise MachineryError("a pool source transaction has witness data")
        srcid.append(list(X.sha256d(stripped)))
    fpath = nets.write_json({"keys": keys, "srcid": srcid}, "vf-x04-facts-")
    return {"NET_TABLE": tpath, "X04_FACTS": fpath}, keys, [W.expand(src[s]["wire"]) for s in (1, 2, 3)], srcid


def check_facts(keys, srcwires, srcid):
    """R2: the facts TLC was given are true (reference EC / hashlib), independently of how they were computed"""
    for k in keys:
        e = int.from_bytes(bytes(k["secret"]), "big")
        pt = nets.ec_mul(e)
        if bytes(k["secc"]) != nets.sec_of(pt, True) or bytes(k["secu"]) != nets.sec_of(pt, False) \
                or bytes(k["hc"]) != nets.h160(bytes(k["secc"])) or bytes(k["hu"]) != nets.h160(bytes(k["secu"])):
            raise MachineryError("key facts are wrong")
    for w, i in zip(srcwires, srcid):
        if list(X.sha256d(w)) != i:
            raise MachineryError("source ids are wrong")


def stage_model(ctx, env, q):
    recs = []
    cfg = os.environ.get("X04_CFG") or ("X04_MC_TxTool_q" if q else "X04_MC_TxTool_t")
    r = ctx.tlc("X04_MC_TxTool", cfg, workers=int(os.environ.get("X04_WORKERS", "8" if q else "16")), env=env,
                timeout=3000, on_record=lambda x: recs.append(x) if x.get("k") == "case" else None, keep_records=False)
    if not recs:
        raise MachineryError("the model exported no case")
    ctx.log("model: %d sessions exported" % len(recs))
    return recs


def stage_replay(ctx, recs):
    rnd = random.Random(ctx.seed)
    recs = list(recs)
    rnd.shuffle(recs)
    results = pmap(_run_chunk, split(recs, NPROC * 4), chunk=1)
    n_inv = 0
    for chunk in results:
        for fails, n, sig in chunk:
            n_inv += n
            ctx.case(sig, n)
            for key, what, det in fails:
                if key.startswith("X04|harness|"):
                    raise MachineryError("harness failure while replaying: %s" % what)
                ctx.fail(key, what, det)
    ctx.replayed += n_inv
    ctx.log("replay: %d sessions, %d invocations of tx" % (len(recs), n_inv))
    for r in recs[:3]:
        ctx.sample({"fam": r["fam"], "argv": X.render(r["it1"], "/tmp", X.Holes()).argv[:8], "expected": r["x1"]["r"]})


# ---------------------------------------------------------------- traces (code -> spec)
_TRACE_FIELDS = ("id", "item", "kf", "argbytes", "dbbytes", "obs")
_PC_ORDER = ["check", "options", "collect", "merge", "edit", "fee", "sign", "report", "done", "accepted"]


def validate_traces(ctx, env, traces, workers=4, count=True, diagnose=True):
    """-> (accepted ids, {rejected id: last state TLC reached (diag run)})"""
    path = nets.write_json([{k: t[k] for k in _TRACE_FIELDS} for t in traces], "vf-x04-traces-")
    e = dict(env, TRACE_FILE=path)
    try:
        r = ctx.tlc("X04_Trace_TxTool", "X04_Trace_TxTool", workers=workers, env=e, timeout=1800, count=count)
        hdr = r.by_kind("hdr")
        if not hdr or hdr[0]["n"] != len(traces):
            raise MachineryError("trace run did not load the %d traces" % len(traces))
        acc = {x["id"]: x for x in r.by_kind("acc")}
        rej = [t for t in traces if t["id"] not in acc]
        last = {}
        if rej and diagnose:
            rpath = nets.write_json([{k: t[k] for k in _TRACE_FIELDS} for t in rej], "vf-x04-rej-")
            try:
                rd = ctx.tlc("X04_Trace_TxTool", "X04_Trace_TxTool_diag", workers=workers, env=dict(env, TRACE_FILE=rpath), timeout=1800, count=False)
            finally:
                os.unlink(rpath)
            for x in rd.by_kind("at"):
                cur = last.get(x["id"])
                if cur is None or _PC_ORDER.index(x["pc"]) >= _PC_ORDER.index(cur["pc"]):
                    last[x["id"]] = x
        return acc, last
    finally:
        os.unlink(path)


def rejection_key(t, at):
    """class-level key of a rejected trace, from what TLC demanded (diag state) and what was observed"""
    key, what = _rejection_key(t, at)
    o = (at or {}).get("o") or {}
    kn = [r_["known"] for r_ in X.seq(o.get("dump", [])) if r_.get("k") == "in"] or [u["known"] for u in X.seq(o.get("uns", []))]
    if kn and any(kn) and not all(kn) and t["obs"]["r"] == "completed" and "|expected=" not in key:
        key = "X04|trace|partly-unknown-sources|%s" % key.split("|")[2]
    return key, what


def _rejection_key(t, at):
    ob = t["obs"]
    if at is None:
        return "X04|trace|not-started", "TLC could not start on this trace"
    if at["pc"] == "check":
        return "X04|trace|decomposition-unfaithful", "the recorder's decomposition of an argument does not serialise to the bytes given"
    o = at.get("o") or {}
    if at["pc"] == "done" and at["st"] != "ok":
        got = ob["r"] if ob["r"] != "completed" else ("completed-with-remark" if "remark" in ob["said"] else "silently-accepted")
        if at["st"] == "malformed":
            return ("X04|trace|expected=malformed:%s|got=not-refused" % at["why"],
                    "the rule book demands a refusal or a remark (%s); the tool: %s %s" % (at["why"], got, t.get("exc", "")))
        if ob["r"] == "traceback":
            return ("X04|trace|expected=%s:%s|uncaught=%s" % (at["st"], at["why"], t.get("where") or "?"),
                    "the rule book demands %s (%s); the tool: traceback %s" % (at["st"], at["why"], t.get("exc", "")))
        return ("X04|trace|expected=%s:%s|got=%s" % (at["st"], at["why"], got),
                "the rule book demands %s (%s); the tool: %s" % (at["st"], at["why"], got))
    if ob["r"] != "completed":
        return ("X04|trace|expected=ok|%s" % ("got=" + ob["r"] if ob["r"] != "traceback" else "uncaught=" + (t.get("where") or "?")),
                "the rule book demands a transaction; the tool: %s %s" % (ob["r"], t.get("exc", "")))
    if at["pc"] == "sign":
        h = o.get("hint") or {}
        if not o.get("hintshaped"):
            return "X04|trace|emitted-inputs-differ-in-number", "the emitted transaction has another number of inputs than the arguments name"
        kn = [u["known"] for u in X.seq(o.get("uns", []))]
        okv, wasv = X.seq(h.get("ok", [])), X.seq(h.get("was", []))
        return ("X04|trace|signing|solved=%s|was=%s|known=%s" % ("".join("1" if b else "0" for b in okv)[:6], "".join("1" if b else "0" for b in wasv)[:6],
                                                                  "all" if all(kn) else "some" if any(kn) else "none"),
                "what signing did is not what the rule book allows (solved %s, before %s)" % (okv, wasv))
    if at["pc"] != "done":
        return "X04|trace|stopped-at-%s" % at["pc"], "the run stops at stage %s" % at["pc"]
    kn = [r_["known"] for r_ in X.seq(o.get("dump", [])) if r_.get("k") == "in"]
    sit = "pool=%s" % o.get("fs")
    if o.get("mode") != ob["mode"]:
        return "X04|trace|mode|expected=%s|got=%s" % (o.get("mode"), ob["mode"]), "output mode"
    if o.get("mode") in ("dump", "file") and W.expand(o["bytes"]) != W.unrle(ob["bytes"]):
        sym = t["item"]["net"]
        fld = X.first_field_diff(X.project_emitted(sym, W.expand(o["bytes"])), X.project_emitted(sym, W.unrle(ob["bytes"])))
        return "X04|trace|bytes|differ|field=%s|%s" % (fld, sit), "emitted %s, demanded %s" % (W.unrle(ob["bytes"]).hex()[:600], W.expand(o["bytes"]).hex()[:600])
    if o.get("mode") == "dump":
        sd, od = X.seq(o["dump"]), X.seq(ob["dump"])
        if len(sd) != len(od):
            return "X04|trace|dump|lines|%s" % sit, "dump has %d lines, demanded %d" % (len(od), len(sd))
        for a, b in zip(sd, od):
            a2 = dict(a)
            if a2.get("k") == "in":
                a2["hash"] = W.rle(W.expand(a2["hash"])) if a2.get("hash") and isinstance(a2["hash"][0], str) else a2.get("hash")
            if a2.get("addr", {}).get("e") == "none":
                b = dict(b, addr=a2["addr"])
            if "amt" in a2 and float(X.milli_text(a2["amt"])) > 21000000000.0:
                b = dict(b, amt=a2["amt"])
            if a2 != b:
                f = [k for k in a2 if a2.get(k) != b.get(k)]
                return "X04|trace|dump|%s.%s|%s" % (a2.get("k"), f[0] if f else "?", sit), "dump line %r, demanded %r" % (b, a2)
    if o.get("mode") in ("unspents", "inputs") and X.seq(o["lines"]) != X.seq(ob["lines"]):
        return "X04|trace|listing|%s|lines" % o.get("mode"), "listing differs"
    if o.get("verdict") != ob["verdict"]:
        return "X04|trace|verdict|expected=%s|got=%s" % (o.get("verdict"), ob["verdict"]), "verdict about the source transactions"
    said = set(ob["said"])
    for alt in X.seq(o.get("says", [])):
        if not (set(alt) & said):
            return "X04|trace|says|missing=%s|%s" % ("/".join(sorted(alt)), sit), "no %s remark" % "/".join(sorted(alt))
    allowed = set(X.seq(o.get("may", []))) | {"env"} | {k for alt in X.seq(o.get("says", [])) for k in alt}
    extra = sorted(said - allowed)
    if extra:
        return "X04|trace|says|unexpected=%s|%s" % (extra[0], sit), "unexpected remark %s" % extra[0]
    if ob["nstill"] >= 0 and ob["nstill"] != o.get("bad"):
        return "X04|trace|says|still_unsigned|count", "%d reported unsigned, %s are" % (ob["nstill"], o.get("bad"))
    return "X04|trace|rejected|unexplained", "TLC rejects the trace (no single differing aspect found)"


def _gen_chunk(args):
    seed, count, table = args
    with X.Workdir() as wd:
        trs, world = X.gen_traces(seed, count, table, wd)
    return trs


def stage_traces(ctx, env, table, q):
    n_chunks, per = (8, 40) if q else (32, 100)
    chunks = pmap(_gen_chunk, [(ctx.seed * 1000 + k, per, table) for k in range(n_chunks)], chunk=1)
    traces = []
    for k, c in enumerate(chunks):
        for t in c:
            t["id"] = "s%d.%s" % (k, t["id"])
            traces.append(t)
    ctx.log("traces: %d invocations recorded" % len(traces))
    acc, last = validate_traces(ctx, env, traces, workers=8)
    for t in traces:
        o = t["obs"]
        ctx.case(("trace", o["r"], o["mode"], o["verdict"], tuple(sorted(o["said"]))), 1)
        if t["id"] in acc:
            ctx.traces += 1
            # the id / size the header showed are those of the bytes emitted (TLC cannot hash)
            a = acc[t["id"]]
            if o["r"] == "completed" and o["mode"] == "dump" and a["r"] == "ok":
                b = W.unrle(o["bytes"])
                body = W.expand(a["stripped"]) if a["stripped"] else b[:a["size"]]
                if X.sha256d(body)[::-1].hex() != o.get("hdr_id"):
                    ctx.fail("X04|trace|dump|hdr.id", "tx %s : header shows id %s, the emitted transaction hashes to %s" % (
                        _short(" ".join(t["argv"]), 300), o.get("hdr_id"), X.sha256d(body)[::-1].hex()), {"argv": t["argv"]})
            if o["r"] == "completed" and o["mode"] == "unspents" and len(o.get("ids", [])) > 1:
                ctx.fail("X04|trace|listing|unspents|id", "tx %s : -u names several transactions" % _short(" ".join(t["argv"]), 300), {"argv": t["argv"]})
        else:
            key, what = rejection_key(t, last.get(t["id"]))
            ctx.fail(key, "tx %s : %s" % (_short(" ".join(t["argv"]), 400), what),
                     {"argv": t["argv"], "stdout": t["stdout"], "stderr": t["stderr"], "exc": t["exc"]})
    ctx.log("traces: %d of %d accepted by TLC" % (len(acc), len(traces)))
    return traces, acc


def stage_truth(ctx, env, table):
    """R2: the repository's own tx_*.txt files (recorded output of the maintainers' runs) must be runs of the specification"""
    with X.Workdir() as wd:
        traces, skipped = X.golden_traces(REPO, table, wd)
        ctx.log("truth: %d test files in the rule book's domain, outside: %s" % (len(traces), ", ".join(skipped)))
        if len(traces) < 12:
            raise MachineryError("only %d of the repository's tx test files could be read" % len(traces))
        acc, last = validate_traces(ctx, env, traces, workers=4, count=False)
    bad = [t["id"] for t in traces if t["id"] not in acc]
    if bad:
        info = {i: rejection_key([t for t in traces if t["id"] == i][0], last.get(i)) for i in bad}
        raise MachineryError("the specification disagrees with the recorded output of the repository's own test files: %s" % info)
    ctx.extra["golden_files_explained"] = sorted(t["id"][7:] for t in traces)
    ctx.extra["golden_files_outside_domain"] = skipped
    return traces


# ---------------------------------------------------------------- binding self-tests
def _corruptions(t):
    """deliberately wrong variants of a canned observation: (name, trace)"""
    import copy
    out = []
    ob = t["obs"]

    def variant(name, f):
        c = copy.deepcopy(t)
        c["id"] = t["id"] + "#" + name
        if f(c["obs"]) is not False:
            out.append((name, c))
    outs = [k for k, r in enumerate(ob["dump"]) if r["k"] == "out"]
    ins = [k for k, r in enumerate(ob["dump"]) if r["k"] == "in" and r["known"]]

    def amt(o):
        d = o["dump"][outs[0]]["amt"]["frac"]
        d[-1] = (d[-1] + 1) % 10
    if outs:
        variant("out-amount", amt)

    def addr(o):
        a = o["dump"][outs[-1]]["addr"]
        if a["e"] == "none":
            return False
        a["d"][-1] ^= 1
    if outs:
        variant("out-address", addr)

    def sig(o):
        o["dump"][ins[0]]["ok"] = not o["dump"][ins[0]]["ok"]
    if ins:
        variant("sig-claim", sig)

    def byte(o):
        b = bytearray(W.unrle(o["bytes"]))
        b[4 + 1 + 32] ^= 1          # inside the first outpoint
        o["bytes"] = W.rle(bytes(b))
    variant("emitted-byte", byte)

    def verdict(o):
        if o["verdict"] != "validated":
            return False
        o["verdict"] = "none"
    variant("verdict-dropped", verdict)

    def version(o):
        o["dump"][0]["version"][0] += 1
    variant("header-version", version)

    def fee(o):
        k = [k for k, r in enumerate(o["dump"]) if r["k"] == "fee"]
        if not k:
            return False
        o["dump"][k[0]]["amt"]["frac"][0] = (o["dump"][k[0]]["amt"]["frac"][0] + 1) % 10
    variant("fee-line", fee)

    def ext(o):
        if "including_unspents" not in o["said"]:
            return False
        o["said"] = [x for x in o["said"] if x != "including_unspents"]
    variant("including-unspents-unsaid", ext)
    return out


def selftests(ctx, env, golden, recs):
    # (1) traces: canned observations = the repository's own recorded outputs, one field corrupted
    byname = {t["id"]: t for t in golden}
    picks = [byname[n] for n in ("golden:sign_tx", "golden:split_pool_3", "golden:prep_unsigned", "golden:remove_tx_in") if n in byname]
    cor = []
    for t in picks:
        cor += _corruptions(t)
    if len(cor) < 12:
        raise MachineryError("too few corrupted observations could be built (%d)" % len(cor))
    acc, _ = validate_traces(ctx, env, [c for n, c in cor] + picks, workers=4, count=False, diagnose=False)
    for t in picks:
        if t["id"] not in acc:
            raise MachineryError("self-test: the untouched observation %s is rejected" % t["id"])
    names = sorted({n for n, c in cor})
    for n in names:
        ctx.selftest("trace_rejects_corrupted_" + n.replace("-", "_"), all(c["id"] not in acc for nn, c in cor if nn == n))
    # (2) the model objects to deliberately wrong rules
    from concurrent.futures import ThreadPoolExecutor
    muts = (("bad_split", "Conservation"), ("bad_align", "Aligned"), ("bad_verdict", "ReportTrue"), ("bad_sign", "SignHintOK"))
    with ThreadPoolExecutor(4) as ex:
        rs = list(ex.map(lambda m: ctx.tlc("X04_MC_TxTool", "X04_MC_TxTool_" + m[0], workers=2, env=env, timeout=900, expect_ok=False,
                                           count=False, keep_records=False), muts))
    for (cfg, inv), r in zip(muts, rs):
        ctx.selftest("model_rejects_" + cfg, (not r.ok) and r.violated == inv)
    # (3) replay: an exported case the tool satisfies stops passing when one demanded value is corrupted
    import copy
    done = 0
    for rec in recs:
        x = rec["x1"]
        if rec["two"] or x["r"] != "ok" or x["mode"] != "dump" or not x["exact"] or not X.seq(x["uns"]) or x["verdict"] == "none":
            continue
        holes = X.Holes()
        with X.Workdir() as wd:
            rnd = X.render(rec["it1"], wd, holes)
            ran = X.run_tx(rnd.argv)
            clean = []
            judge(rec["fam"], 1, rec["it1"], x, ran, rnd, holes, clean)
            if clean:
                continue            # the case itself fails on this tree (reported by the replay stage): take another one
            variants = []
            c = copy.deepcopy(x)
            k = [k for k, r in enumerate(X.seq(c["dump"])) if r["k"] == "out"][0]
            c["dump"][k]["amt"]["frac"][-1] = (c["dump"][k]["amt"]["frac"][-1] + 1) % 10
            variants.append(("dump_amount", c))
            c = copy.deepcopy(x)
            c["tx"]["outs"][0]["amount"][0] ^= 1
            tk = list(c["bytes"])
            # flip the last hex digit of the lock time (the last token before a possible extension is not needed: flip the version)
            tk[0] = ("02" if tk[0][:2] != "02" else "03") + tk[0][2:]
            c["bytes"] = tk
            variants.append(("emitted_bytes", c))
            c = copy.deepcopy(x)
            c["verdict"] = "validated" if x["verdict"] != "validated" else "not_validated"
            variants.append(("verdict", c))
            c = copy.deepcopy(x)
            c["says"] = list(X.seq(c["says"])) + [["no_inputs"]]
            variants.append(("missing_remark", c))
            c = copy.deepcopy(x)
            c["ok"] = [not b for b in X.seq(c["ok"])]
            variants.append(("solved", c))
            for name, cx in variants:
                got = []
                judge(rec["fam"], 1, rec["it1"], cx, ran, rnd, X.Holes(), got)
                ctx.selftest("replay_rejects_corrupted_" + name, bool(got))
        done += 1
        break
    if not done:
        ctx.log("self-test (replay): no exported case passes on this tree - skipped (the failures are reported above)")


def run(ctx):
    _wrap_fail(ctx)
    q = ctx.quick
    only = getattr(ctx, "only", None)

    def stage(name):
        return only is None or name in only
    ctx.rule = ("sessions of one or two invocations of tx = argument shape (transactions / spendables / payables with and without amount / "
                "keys) x amount and fee boundary classes x options x key availability x database; distinct_nontrivial = distinct "
                "(family, demanded outcome, output mode, pool outcome, verdict, signed or not, argument/option shape) combinations executed")
    ctx.assumptions += ["no hash collisions; ECDSA signatures cannot be made without the key (an input whose key was not given stays unsolved)",
                        "Base58Check / Bech32 are injective on valid texts (C11)",
                        "pycoin's transaction parser is used only to describe differences (C07 binds it to TxParse)",
                        "network prefixes are configuration read from pycoin itself (NET_TABLE)"]
    env, keys, srcwires, srcid = prepare(ctx)
    try:
        check_facts(keys, srcwires, srcid)
        recs = stage_model(ctx, env, q) if (stage("model") or stage("replay")) else []
        if stage("replay"):
            stage_replay(ctx, recs)
        table = json.load(open(env["NET_TABLE"]))
        if stage("traces"):
            stage_traces(ctx, env, table, q)
        if stage("truth") or stage("selftest"):
            golden = stage_truth(ctx, env, table)
            if stage("selftest"):
                selftests(ctx, env, golden, recs)
    finally:
        for p in env.values():
            try:
                os.unlink(p)
            except OSError:
                pass


def replay(ctx, obj):
    """./check X04 --replay FILE: run the recorded command line again on the current tree and show what it prints"""
    d = obj.get("detail") or {}
    print("key :", obj.get("key"))
    print("what:", obj.get("what"))
    argv = d.get("argv")
    if argv and all(not (a.startswith("/tmp/vf-x04-")) for a in argv):
        ran = X.run_tx(argv)
        print("$ tx " + " ".join(argv))
        print(ran.out, end="")
        if ran.err:
            print("stderr:", ran.err.strip())
        if ran.exc:
            print("raises:", ran.tb)
        if ran.out[:4000] == d.get("stdout") and ran.tb == d.get("exc"):
            ctx.fail(obj["key"], obj.get("what", ""), d)      # behaves as recorded
    else:
        print(json.dumps(d, indent=1)[:4000])
        print("(the case reads files of its session; re-run the stage to reproduce)")
