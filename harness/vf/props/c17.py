"""C17 - signed text messages (pycoin.contrib.msg_signing.MessageSigner, network.msg).

1. TLC model-checks spec/MsgSign.tla (ECDSA with recovery on toy prime-order curves, compact
   signatures, base64 text) and spec/MsgText.tla (digest preimage, armoured text as a line state
   machine): every key x digest x nonce recovers exactly the signer and verifies for nothing
   else; recovery is sound and complete w.r.t. classic ECDSA verification and yields "no key"
   for every malformed class; the digest preimage is injective in (magic, message);
   ParseSigned(Format(m, a, s)) = (m, a, s).
2. spec -> code: TLC prints (a) on toy curves every signing case with the signature text the
   standard demands and verification probes, every compact signature in and out of range with
   the recovered key or the reason there is none, and malformed signature texts; (b) for
   secp256k1 the abstract cases keys x forms x networks x messages with the digest term and
   the verdict of every cross probe; (c) armoured texts with their parse.  Each is executed
   on pycoin and compared.
3. code -> spec: seeded random keys/messages signed and verified by pycoin on secp256k1; the
   logged fields are validated by TLC against Trace_MsgSign (structure: header byte, lengths,
   base64, armour lines, digest preimage) and the EC obligations it prints are evaluated by an
   independent secp256k1 evaluator.
"""
from __future__ import annotations

import base64
import copy
import json
import re
import os
import random
import tempfile

from ..ctx import MachineryError, REPO
from ..drv import msgsign as drv
from ..par import NPROC

CURVES = {"p43": (43, 0, 7, 2, 12, 31), "p83": (83, 1, 7, 0, 16, 79), "p103": (103, 0, 5, 2, 42, 97)}


# ---------------------------------------------------------------- generic streaming pool

class Stream:
    """feeds TLC records to worker processes in chunks; collects (key, what, detail) failures and counters"""

    def __init__(self, func, extra, chunk=300):
        import multiprocessing as mp
        self.func, self.extra, self.chunk = func, extra, chunk
        self.pool = mp.get_context("fork").Pool(NPROC)
        self.buf, self.pending = [], []
        self.fails, self.counts, self.n = [], {}, 0

    def feed(self, rec):
        self.buf.append(rec)
        self.n += 1
        if len(self.buf) >= self.chunk:
            self._flush()

    def _flush(self):
        if self.buf:
            self.pending.append(self.pool.apply_async(self.func, ((self.extra, self.buf),)))
            self.buf = []
        while len(self.pending) > 6 * NPROC:
            self._collect(self.pending.pop(0))

    def _collect(self, ar):
        fails, counts = ar.get()
        self.fails += fails
        for k, v in counts.items():
            self.counts[k] = self.counts.get(k, 0) + v

    def finish(self):
        self._flush()
        for ar in self.pending:
            self._collect(ar)
        self.pending = []
        self.pool.close()
        self.pool.join()
        return self.fails, self.counts


def _report(ctx, fails, limit_per_key=1):
    seen = {}
    for key, what, detail in fails:
        if seen.get(key, 0) >= limit_per_key:
            continue
        seen[key] = seen.get(key, 0) + 1
        ctx.fail(key, what, detail)


def _count(ctx, counts):
    for k, v in sorted(counts.items()):
        if k.startswith("class:"):
            ctx.case(k, 0)
        elif k.startswith("eval"):
            ctx.case(None, v)
        else:
            ctx.action(k, v)


# ---------------------------------------------------------------- toy curves: spec -> code

def _rel(p, rec, sigcomp):
    if p["e"] != rec["e"]:
        return "otherdigest"
    if p["d"] != rec["d"]:
        return "otherkey"
    if p["kd"] == "addr" and p["comp"] != sigcomp:
        return "otherform"
    return "signer"


def _vkey(cls, hi, kd, rel, exp, got):
    """class-level signature of a verify disagreement: an escaping exception is keyed by the class of the
    signature and the exception type; a wrong boolean also by what was asked"""
    if isinstance(got, str):
        return "C17|verify|sig=%s|recid_hi=%d|expected=bool|got=%s" % (cls, hi, got)
    return "C17|verify|sig=%s|recid_hi=%d|who=%s|rel=%s|expected=%s|got=%s" % (cls, hi, kd, rel, exp, got)


def _toy_chunk(args):
    (cname, params), recs = args
    t = drv.toy(params)
    fails, counts = [], {}

    def cnt(k, n=1):
        counts[k] = counts.get(k, 0) + n

    for rec in recs:
        kind = rec["k"]
        if kind == "sign":
            hi = int(rec["recid"] >= 2)
            cnt("toy.sign")
            cnt("class:sign|%s|recid=%d|retry=%s" % (cname, rec["recid"], rec["k0"] != rec["kf"]), 0)
            for comp, tag, ptag in ((True, "tc", "pc"), (False, "tu", "pu")):
                got = drv.toy_sign(t, rec["d"], rec["e"], rec["k0"], comp)
                cnt("eval")
                if got != ("ok", rec[tag]):
                    g = "exc:" + got[1] if got[0] == "exc" else "text-differs"
                    fails.append(("C17|sign|recid=%d|comp=%s|got=%s" % (rec["recid"], comp, g),
                                  "signature_for_message_hash(d=%d, e=%d, compressed=%s) with nonce %d on curve %s: spec demands %s, pycoin gives %r"
                                  % (rec["d"], rec["e"], comp, rec["k0"], cname, rec[tag], got),
                                  {"curve": params, "rec": rec, "got": got}))
                # the spec's signature text (not pycoin's) is what gets verified
                text = rec[tag]
                got = drv.toy_recover(t, text, rec["e"])
                cnt("eval")
                want = ("ok", (tuple(rec["Q"]), comp))
                if got != want:
                    g = "exc:" + got[1] if got[0] == "exc" else ("wrong-form" if got[1][0] == want[1][0] else "wrong-key")
                    fails.append(("C17|recover|sig=ok|recid_hi=%d|got=%s" % (hi, g),
                                  "pair_for_message_hash(%s, %d) on curve %s: the signer is %s (compressed=%s), pycoin gives %r"
                                  % (text, rec["e"], cname, rec["Q"], comp, got), {"curve": params, "rec": rec, "got": got}))
                for p in rec[ptag]:
                    who = drv.toy_who(t, p["kd"], d=p["d"], comp=p["comp"])
                    got = drv.toy_verify(t, who, text, p["e"])
                    cnt("eval")
                    cnt("toy.verify")
                    if got != p["exp"]:
                        fails.append((_vkey("ok" if p["e"] == rec["e"] else "ok_otherdigest", hi, p["kd"], _rel(p, rec, comp), p["exp"], got),
                                      "verify_message(%s of d=%d compressed=%s, %s, msg_hash=%d) on curve %s (signed by d=%d over e=%d, recid %d): spec %s, pycoin %s"
                                      % (p["kd"], p["d"], p["comp"], text, p["e"], cname, rec["d"], rec["e"], rec["recid"], p["exp"], got),
                                      {"curve": params, "rec": rec, "probe": p, "got": got}))
            # the same case at message level, through network.msg.sign / verify / parse_signed: a message whose digest is
            # in the class of e modulo N must give exactly the signature TLC printed (all arithmetic is modulo N)
            m = drv.toy_message(t, rec["e"])
            got = drv.toy_sign_message(t, rec["d"], rec["k0"], True, m)
            cnt("eval")
            cnt("toy.sign_message")
            if got != ("ok", rec["tc"]):
                g = "exc:" + got[1] if got[0] == "exc" else "text-differs"
                fails.append(("C17|sign|message|recid=%d|got=%s" % (rec["recid"], g),
                              "network.msg.sign(key d=%d, %r) with nonce %d on the network built over curve %s: spec demands %s, pycoin gives %r"
                              % (rec["d"], m, rec["k0"], cname, rec["tc"], got), {"curve": params, "rec": rec, "got": got, "message": m}))
            for kd, d2, exp, rel in (("key", rec["d"], True, "signer"), ("addr", rec["d"], True, "signer"),
                                     ("key", rec["d"] % (params[5] - 1) + 1, False, "otherkey")):
                who = drv.toy_who(t, kd, d=d2, comp=True)
                got = drv.toy_verify_message(t, who, rec["tc"], m)
                cnt("eval")
                cnt("toy.verify")
                if got != exp:
                    fails.append((_vkey("ok_message", hi, kd, rel, exp, got),
                                  "network.msg.verify(%s of d=%d, %s, %r) on the network built over curve %s (signed by d=%d): spec %s, pycoin %s"
                                  % (kd, d2, rec["tc"], m, cname, rec["d"], exp, got), {"curve": params, "rec": rec, "got": got, "message": m}))
            if rec["k0"] == rec["kf"] and rec["d"] <= 2:
                arm = drv.toy_sign_message(t, rec["d"], rec["k0"], True, m, verbose=True)
                pr = drv.call(t.msg.parse_signed, arm[1]) if arm[0] == "ok" else arm
                cnt("eval", 2)
                want = ("ok", (m, drv.toy_who(t, "addr", d=rec["d"], comp=True), rec["tc"]))
                if pr != want:
                    fails.append(("C17|armour|toy-network|got=%s" % ("exc:" + pr[1] if pr[0] == "exc" else "differs"),
                                  "network.msg.parse_signed(network.msg.sign(key d=%d, %r, verbose=True)) on curve %s: expected %r, pycoin %r"
                                  % (rec["d"], m, cname, want, pr), {"curve": params, "rec": rec}))
        elif kind == "rec":
            h = rec["h"]
            recid = (h - 27) % 4 if 27 <= h <= 34 else -1
            hi = int(recid >= 2)
            cnt("toy.rec")
            cnt("class:rec|%s|%s|recid=%d" % (cname, rec["cls"], recid), 0)
            text = rec["text"]
            if rec["ok"]:
                got = drv.toy_recover(t, text, rec["e"])
                cnt("eval")
                want = ("ok", (tuple(rec["Q"]), rec["comp"]))
                if got != want:
                    g = "exc:" + got[1] if got[0] == "exc" else ("wrong-form" if got[1][0] == want[1][0] else "wrong-key")
                    fails.append(("C17|recover|sig=ok|recid_hi=%d|got=%s" % (hi, g),
                                  "pair_for_message_hash(%s, %d) on curve %s (h=%d r=%d s=%d): spec %r, pycoin %r"
                                  % (text, rec["e"], cname, h, rec["r"], rec["s"], want, got), {"curve": params, "rec": rec, "got": got}))
                probes = [("key", rec["Q"], rec["comp"], True, "signer"), ("key", rec["other"], rec["comp"], False, "otherkey"),
                          ("addr", rec["Q"], rec["comp"], True, "signer"), ("addr", rec["Q"], not rec["comp"], False, "otherform"),
                          ("addr", rec["other"], rec["comp"], False, "otherkey")]
            else:
                probes = [("key", rec["other"], True, False, "any"), ("addr", rec["other"], True, False, "any")]
            for kd, pair, comp, exp, rel in probes:
                who = drv.toy_who(t, kd, pair=pair, comp=comp)
                got = drv.toy_verify(t, who, text, rec["e"])
                cnt("eval")
                cnt("toy.verify")
                if got != exp:
                    fails.append((_vkey(rec["cls"], hi, kd, rel, exp, got),
                                  "verify_message(%s of %s compressed=%s, %s, msg_hash=%d) on curve %s (h=%d r=%d s=%d, class %s): spec %s, pycoin %s"
                                  % (kd, pair, comp, text, rec["e"], cname, h, rec["r"], rec["s"], rec["cls"], exp, got),
                                  {"curve": params, "rec": rec, "who": [kd, pair, comp], "got": got}))
        elif kind == "text":
            cnt("toy.text")
            cnt("class:text|%s" % rec["name"], 0)
            rec = dict(rec, text=re.sub(r"<U\+([0-9A-F]{4})>", lambda m: chr(int(m.group(1), 16)), rec["text"]))
            for kd, exp in (("key", rec["exp"]), ("addr", rec["expaddr"])):
                who = drv.toy_who(t, kd, d=rec["d"], comp=True)
                got = drv.toy_verify(t, who, rec["text"], rec["e"])
                cnt("eval")
                okv = (got is True or got is False) if rec["free"] else (got == exp)
                if not okv:
                    want = "bool" if rec["free"] else exp
                    if rec["cls"] == "65":
                        key = _vkey(rec["sigcls"], 0, kd, "signer", want, got)
                    elif isinstance(got, str):
                        key = "C17|verify|text=%s|expected=bool|got=%s" % (rec["cls"], got)
                    else:
                        key = "C17|verify|text=%s|%s|who=%s|expected=%s|got=%s" % (rec["cls"], rec["name"], kd, want, got)
                    fails.append((key,
                                  "verify_message(%s, %r, msg_hash=%d) on curve %s: signature text class %s/%s: spec %s, pycoin %s"
                                  % (kd, rec["text"], rec["e"], cname, rec["cls"], rec["name"], "any boolean" if rec["free"] else exp, got),
                                  {"curve": params, "rec": rec, "got": got}))
    return fails, counts


def stage_toy(ctx):
    q = ctx.quick
    plan = [("p43", "q"), ("p103", "q")] if q else [("p43", "t"), ("p83", "t"), ("p103", "t")]
    first = {}
    for cname, tier in plan:
        drv.toy_message(drv.toy(CURVES[cname]), 0)        # build the toy network before forking: the workers inherit it
        st = Stream(_toy_chunk, (cname, CURVES[cname]))

        def on(rec, st=st):
            st.feed(rec)
            if rec["k"] not in first:
                first[rec["k"]] = rec
                ctx.sample({"toy_case": cname, "rec": rec})
            # for the binding self-test: a signing case off the paths of the known defects (recovery id 0 or 1)
            if rec["k"] == "sign" and "plain" not in first and rec["recid"] < 2 and cname == "p43":
                first["plain"] = rec
        # (no -coverage here: with the cost model on, this export module runs on one core for > 10 min)
        ctx.tlc("MC_MsgReplay", "MC_MsgReplay_%s_%s" % (cname, tier), on_record=on, keep_records=False, timeout=3000)
        fails, counts = st.finish()
        ctx.log("toy %s: %d cases replayed on pycoin (%s), %d disagreements" % (
            cname, st.n, ", ".join("%s=%d" % kv for kv in sorted(counts.items()) if kv[0].startswith("toy.")), len(fails)))
        ctx.replayed += st.n
        _count(ctx, counts)
        _report(ctx, fails)
        if st.n == 0:
            raise MachineryError("no toy cases exported for " + cname)
        # vacuity guards: every kind of case, the retry action and recovery ids 2/3 were exercised
        for need in ("toy.sign", "toy.rec") + (("toy.text",) if cname == "p43" else ()):
            if not counts.get(need):
                raise MachineryError("vacuity: no %s case on %s" % (need, cname))
        if not any(k.startswith("class:sign|%s|" % cname) and k.endswith("retry=True") for k in counts):
            raise MachineryError("vacuity: RetryIncrementNonce never taken on " + cname)
        # (the p83 curve has no point with x in 79..82: recovery ids 2 and 3 do not exist there)
        if cname != "p83" and not any(k.startswith("class:sign|%s|recid=3" % cname) for k in counts):
            raise MachineryError("vacuity: no signature with recovery id 3 on " + cname)
    # binding self-test: a corrupted expectation must be noticed
    if "plain" in first:
        bad = copy.deepcopy(first["plain"])
        bad["tc"] = bad["tc"][:-3] + ("B" if bad["tc"][-3] != "B" else "C") + bad["tc"][-2:]
        f, _ = _toy_chunk((("p43", CURVES["p43"]), [bad]))
        ctx.selftest("toy_replay_rejects_corrupted_signature_text", any(k.startswith("C17|sign|") for k, _, _ in f))
        bad = copy.deepcopy(first["plain"])
        bad["pc"][1]["exp"] = True
        f, _ = _toy_chunk((("p43", CURVES["p43"]), [bad]))
        ctx.selftest("toy_replay_rejects_corrupted_verdict", any("rel=otherkey" in k for k, _, _ in f))


# ---------------------------------------------------------------- real networks: spec -> code

def _secret(ki):
    """abstract key index -> secret exponent on secp256k1 (fixed, seed-free)"""
    import hashlib
    n = 0xFFFFFFFFFFFFFFFFFFFFFFFFFFFFFFFEBAAEDCE6AF48A03BBFD25E8CD0364141
    return [None, 0x1234567890ABCDEF1234567890ABCDEF1234567890ABCDEF, n - 2,
            int.from_bytes(hashlib.sha256(b"verif C17 key 3").digest(), "big") % n,
            int.from_bytes(hashlib.sha256(b"verif C17 key 4").digest(), "big") % n][ki]


_KEYS = {}


def _key(net, sym, ki, comp):
    k = (sym, ki, comp)
    if k not in _KEYS:
        _KEYS[k] = net.keys.private(_secret(ki), is_compressed=comp)
    return _KEYS[k]


def _net_rel(case, p, nets):
    if p["net"] != case["net"]:
        return "aliasnet" if nets[p["net"] - 1][1] == nets[case["net"] - 1][1] else "othernet"
    if p["msg"] != case["msg"]:
        return "othermsg"
    if p["key"] != case["key"]:
        return "otherkey"
    if p["comp"] != case["comp"]:
        return "otherform" if p["kd"] == "addr" else "signer_otherflag"
    return "signer"


def _net_chunk(args):
    (nets, msgs), recs = args
    fails, counts = [], {}

    def cnt(k, n=1):
        counts[k] = counts.get(k, 0) + n

    for rec in recs:
        kind = rec["k"]
        if kind == "dig":
            sym = nets[rec["net"] - 1][0]
            net = drv.network(sym)
            m = msgs[rec["msg"]]
            want = int.from_bytes(drv.ev(rec["term"]), "big")
            got = drv.call(net.msg.hash_for_signing, m)
            cnt("eval")
            cnt("net.digest")
            cnt("class:dig|%s|%d" % (nets[rec["net"] - 1][1], rec["msg"]), 0)
            if got != ("ok", want):
                fails.append(("C17|digest|msg=%d|got=%s" % (rec["msg"], "exc:" + got[1] if got[0] == "exc" else "differs"),
                              "%s.msg.hash_for_signing(message %d, %d chars): the rule H256d(VarBytes(magic) ++ VarBytes(utf8(msg))) gives %064x, pycoin %r"
                              % (sym, rec["msg"], len(m), want, got), {"rec": rec, "sym": sym}))
        elif kind == "case":
            sym = nets[rec["net"] - 1][0]
            net = drv.network(sym)
            m = msgs[rec["msg"]]
            key = _key(net, sym, rec["key"], rec["comp"])
            sg = drv.call(net.msg.sign, key, m)
            cnt("eval")
            cnt("net.sign")
            if sg[0] != "ok" or not isinstance(sg[1], str):
                fails.append(("C17|net|sign|got=%s" % ("exc:" + sg[1] if sg[0] == "exc" else "nonstr"),
                              "%s.msg.sign(key %d, message %d) -> %r" % (sym, rec["key"], rec["msg"], sg), {"rec": rec, "sym": sym}))
                continue
            for p in rec["probes"]:
                sym2 = nets[p["net"] - 1][0]
                net2 = drv.network(sym2)
                k2 = _key(net2, sym2, p["key"], p["comp"])
                who = k2
                if p["kd"] == "addr":
                    try:
                        who = k2.address()
                        usable = net2.parse.address(who) is not None
                    except ImportError:                        # L3: groestlcoin_hash is not installed in this sandbox
                        usable = False
                    if not usable:                             # (GRS family: address text cannot be made / parsed here)
                        cnt("net.skipped_address_L3")
                        continue
                got = drv.proj_bool(drv.call(net2.msg.verify, who, sg[1], msgs[p["msg"]]))
                cnt("eval")
                cnt("net.verify")
                rel = _net_rel(rec, p, nets)
                cnt("class:case|%s|%s" % (rel, p["kd"]), 0)
                if got != p["exp"]:
                    fails.append(("C17|net|verify|rel=%s|who=%s|expected=%s|got=%s" % (rel, p["kd"], p["exp"], got),
                                  "signed on %s by key %d (compressed=%s) message %d; %s.msg.verify(%s of key %d compressed=%s, sig, message %d): spec %s, pycoin %s"
                                  % (sym, rec["key"], rec["comp"], rec["msg"], sym2, p["kd"], p["key"], p["comp"], p["msg"], p["exp"], got),
                                  {"rec": rec, "probe": p, "sym": sym, "sym2": sym2, "sig": sg[1]}))
        elif kind == "cls":
            net = drv.network("BTC")
            m = msgs[rec["msg"]]
            e = net.msg.hash_for_signing(m)
            cls, h = rec["cls"], rec["h"]
            hi = int(rec["recid"] >= 2)
            if cls == "not_base64":
                cands = [("abc", None), ("A", None), (net.msg.sign(_key(net, "BTC", 1, True), m)[:-2], None)]
            elif cls == "wrong_length":
                raw = base64.b64decode(net.msg.sign(_key(net, "BTC", 1, True), m))
                cands = [(base64.b64encode(raw[:64]).decode(), None), (base64.b64encode(raw + b"\0").decode(), None), ("", None)]
            else:
                mem = drv.member(cls, h, e)
                if mem is None:
                    cnt("net.class_without_member")
                    continue
                _, r, s_, pair = mem
                got_cls = "hdr_range" if not (27 <= h <= 34) else drv.ec_class(e, r, s_, rec["recid"])
                if got_cls != cls or pair is None:
                    raise MachineryError("concretized member of class %s (h=%d) is in class %s" % (cls, h, got_cls))
                cands = [(drv.compact_text(h, r, s_), pair)]
            cnt("class:cls|%s|h=%d" % (cls, h), 0)
            for text, pair in cands:
                for kd in ("key", "addr"):
                    if pair is None:
                        k2 = _key(net, "BTC", 1, True)
                    else:
                        k2 = net.keys.public(tuple(pair), is_compressed=rec["comp"])
                    who = k2 if kd == "key" else k2.address()
                    got = drv.proj_bool(drv.call(net.msg.verify, who, text, m))
                    cnt("eval")
                    cnt("net.class_verify")
                    if got != rec["exp"]:
                        fails.append(("C17|secp256k1|" + _vkey(cls, hi, kd, "signer" if rec["exp"] else "any", rec["exp"], got)[4:],
                                      "BTC.msg.verify(%s, %r, message %d) with a signature of class %s (header %d): spec %s, pycoin %s"
                                      % (kd, text, rec["msg"], cls, h, rec["exp"], got), {"rec": rec, "text": text, "pair": pair}))
        elif kind == "arm":
            sym = nets[rec["net"] - 1][0]
            net = drv.network(sym)
            m = drv.text_of(rec["msg"])
            key = _key(net, sym, 1, True)
            dos = "crlf" if "\r\n" in m else "lf"
            shape = "empty" if m == "" else ("trailing_break" if m.endswith("\n") else "plain")
            cnt("net.armour")
            cnt("class:arm|%s|%s|%d" % (dos, shape, m.count("\n")), 0)
            sg = drv.call(net.msg.sign, key, m)
            ar = drv.call(net.msg.sign, key, m, verbose=True)
            cnt("eval", 2)
            if sg[0] != "ok" or ar[0] != "ok":
                fails.append(("C17|armour|sign|got=exc", "%s.msg.sign(verbose) %r %r" % (sym, sg, ar), {"rec": rec}))
                continue
            addr = key.address()

            def subst(cps):
                return "".join(addr if c == -1 else sg[1] if c == -2 else chr(c) for c in cps)
            want = subst(rec["text"])
            if ar[1] != want:
                fails.append(("C17|armour|format|style=%s|shape=%s" % (dos, shape),
                              "%s.msg.sign(key, %r, verbose=True): spec Format gives %r, pycoin %r" % (sym, m, want, ar[1]), {"rec": rec}))
            if rec["indomain"] and rec["parsed"]["ok"]:
                got = drv.call(net.msg.parse_signed, want)
                cnt("eval")
                exp = (subst(rec["parsed"]["msg"]), subst(rec["parsed"]["addr"]), subst(rec["parsed"]["sig"]))
                if got != ("ok", exp):
                    if got[0] == "exc":
                        what = "exc:" + got[1]
                    else:
                        what = "+".join(n for n, x, y in zip(("msg", "addr", "sig"), got[1], exp) if x != y)
                    fails.append(("C17|armour|parse|style=%s|shape=%s|differs=%s" % (dos, shape, what),
                                  "%s.msg.parse_signed(%r): spec ParseSigned gives %r, pycoin %r" % (sym, want, exp, got), {"rec": rec}))
    return fails, counts


def _write_nets():
    allnets = drv.all_networks()
    nets = [x for x in allnets if drv.usable(x[0])]
    _write_nets.excluded = [x[0] for x in allnets if x not in nets]
    fd, path = tempfile.mkstemp(prefix="vf-c17-nets-", suffix=".json")
    with os.fdopen(fd, "w") as f:
        json.dump({"nets": [{"sym": s, "name": list(n.encode("utf8"))} for s, n in nets]}, f)
    return nets, path


def stage_net(ctx):
    nets, path = _write_nets()
    ctx.extra["networks"] = len(nets)
    ctx.extra["networks_excluded_L3"] = _write_nets.excluded
    ctx.extra["distinct_magics"] = len({n for _, n in nets})
    if len(nets) < 40 or ("BTC", "Bitcoin") not in nets:
        raise MachineryError("network registry looks wrong: %r" % (nets[:5],))
    try:
        r = ctx.tlc("MC_MsgNetReplay", "MC_MsgNetReplay_q" if ctx.quick else "MC_MsgNetReplay_t", env={"C17_NETS": path}, timeout=3000)
    finally:
        os.unlink(path)
    msgs = {rec["msg"]: drv.expand_runs(rec["runs"]) for rec in r.by_kind("msg")}
    for rec in r.by_kind("msg"):
        m = msgs[rec["msg"]]
        if len(m) != rec["chars"] or len(m.encode("utf8")) != rec["bytes"]:       # R2: the spec's UTF-8 length rule vs CPython
            raise MachineryError("spec message %d: %d chars / %d bytes, CPython says %d / %d" % (rec["msg"], rec["chars"], rec["bytes"], len(m), len(m.encode("utf8"))))
    st = Stream(_net_chunk, (nets, msgs), chunk=40)
    n = {"dig": 0, "case": 0, "arm": 0, "cls": 0}
    for rec in r.records:
        if rec.get("k") in n:
            n[rec["k"]] += 1
            st.feed(rec)
            if n[rec["k"]] == 7:
                ctx.sample({"net_case": rec if rec["k"] != "arm" else {k: rec[k] for k in ("k", "net", "msg", "parsed")}})
    fails, counts = st.finish()
    ctx.log("networks: %d digest terms, %d signing cases, %d armoured texts, %d signature-class members on secp256k1 replayed (%s): %d disagreements" % (
        n["dig"], n["case"], n["arm"], n["cls"], ", ".join("%s=%d" % kv for kv in sorted(counts.items()) if kv[0].startswith("net.")), len(fails)))
    ctx.replayed += st.n
    _count(ctx, counts)
    _report(ctx, fails)
    if min(n.values()) == 0:
        raise MachineryError("network replay exported nothing for some kind: %r" % n)
    # binding self-test: flip one expected verdict, one digest byte, one armour character
    case = copy.deepcopy(next(x for x in r.records if x.get("k") == "case"))
    case["probes"][4]["exp"] = True
    f, _ = _net_chunk(((nets, msgs), [case]))
    ctx.selftest("net_replay_rejects_corrupted_verdict", any("rel=otherkey" in k for k, _, _ in f))
    dig = copy.deepcopy(next(x for x in r.records if x.get("k") == "dig"))
    dig["term"]["arg"][0]["v"][3] ^= 1
    f, _ = _net_chunk(((nets, msgs), [dig]))
    ctx.selftest("net_replay_rejects_corrupted_digest_term", any(k.startswith("C17|digest|") for k, _, _ in f))
    arm = copy.deepcopy(next(x for x in r.records if x.get("k") == "arm" and x["msg"]))
    arm["parsed"]["msg"] = arm["parsed"]["msg"] + [10]
    f, _ = _net_chunk(((nets, msgs), [arm]))
    ctx.selftest("net_replay_rejects_corrupted_parse", any(k.startswith("C17|armour|parse|") for k, _, _ in f))


# ---------------------------------------------------------------- traces: code -> spec

_N = 0xFFFFFFFFFFFFFFFFFFFFFFFFFFFFFFFEBAAEDCE6AF48A03BBFD25E8CD0364141
_ALPHA = [ord(c) for c in "abcXYZ019 .,:-=/+"] + [9, 0xE9, 0x20AC, 0x1F600, 0x2028, 0x85, 0x3042]


def _rand_msg(rnd, maxlen):
    """random message in the armour domain: lines without CR/LF joined by ONE newline style"""
    nl = rnd.choice(["\n", "\r\n"])
    nlines = rnd.choice([1, 1, 2, 3, 5])
    lines = []
    for _ in range(nlines):
        ln = rnd.choice([0, 1, 3, rnd.randint(0, maxlen // nlines)])
        lines.append("".join(chr(rnd.choice(_ALPHA)) for _ in range(ln)))
    return nl.join(lines)


def _b32(v):
    return list(v.to_bytes(32, "big"))


def _one_trace(args):
    seed, nets, maxlen = args
    rnd = random.Random(seed)
    sym, name = rnd.choice(nets)
    net = drv.network(sym)
    d = rnd.choice([1, 2, _N - 1, rnd.randrange(1, 1 << 64), rnd.randrange(1, _N), rnd.randrange(1, _N)])
    comp = rnd.random() < 0.5
    key = net.keys.private(d, is_compressed=comp)
    msg = _rand_msg(rnd, maxlen)
    pub = key.public_pair()
    tr = {"name": list(name.encode()), "msg": drv.cps_of(msg), "comp": comp, "d": _b32(d), "pub": [_b32(pub[0]), _b32(pub[1])],
          "sym": sym, "ev": []}
    sig = net.msg.sign(key, msg)
    tr["ev"].append({"op": "sign", "sig": drv.cps_of(sig), "digest": _b32(net.msg.hash_for_signing(msg))})
    rc = drv.call(net.msg.pair_for_message_hash, sig, net.msg.hash_for_signing(msg))
    if rc[0] == "ok":
        tr["ev"].append({"op": "recover", "pub": [_b32(rc[1][0][0]), _b32(rc[1][0][1])], "comp": bool(rc[1][1])})
    else:
        tr["ev"].append({"op": "recover", "pub": [], "comp": False, "exc": rc[1]})
    # verification calls: the signer (key, address in both forms), another key, another message, another network
    d2 = rnd.randrange(1, _N)
    sym2, name2 = rnd.choice([x for x in nets if x[1] != name])
    msg2 = msg + rnd.choice(["x", " ", "\n"]) if rnd.random() < 0.7 else msg[:-1] if msg else "a"
    calls = [(sym, msg, d, comp, "key"), (sym, msg, d, comp, "addr"), (sym, msg, d, not comp, "addr"), (sym, msg, d, not comp, "key"),
             (sym, msg, d2, comp, rnd.choice(["key", "addr"])), (sym, msg2, d, comp, rnd.choice(["key", "addr"])),
             (sym2, msg, d, comp, rnd.choice(["key", "addr"]))]
    rnd.shuffle(calls)
    for vsym, vmsg, vd, vcomp, who in calls:
        vnet = drv.network(vsym)
        vkey = vnet.keys.private(vd, is_compressed=vcomp)
        arg = vkey if who == "key" else vkey.address()
        res = drv.proj_bool(drv.call(vnet.msg.verify, arg, sig, vmsg))
        vp = vkey.public_pair()
        tr["ev"].append({"op": "verify", "name": list(vnet.network_name.encode()), "msg": drv.cps_of(vmsg), "who": who, "comp": vcomp,
                         "pub": [_b32(vp[0]), _b32(vp[1])], "res": res})
    arm = net.msg.sign(key, msg, verbose=True)
    tr["ev"].append({"op": "armour", "text": drv.cps_of(arm), "addr": drv.cps_of(key.address()), "sig": drv.cps_of(sig)})
    pr = drv.call(net.msg.parse_signed, arm)
    if pr[0] == "ok":
        tr["ev"].append({"op": "parse", "text": drv.cps_of(arm), "ok": True, "msg": drv.cps_of(pr[1][0]), "addr": drv.cps_of(pr[1][1]),
                         "sig": drv.cps_of(pr[1][2])})
    else:
        tr["ev"].append({"op": "parse", "text": drv.cps_of(arm), "ok": False, "msg": [], "addr": [], "sig": [], "exc": pr[1]})
    return tr


def record_traces(seed, count, nets, maxlen):
    from ..par import pmap
    return pmap(_one_trace, [(seed * 1000003 + i, nets, maxlen) for i in range(count)])


def _check_obligation(ob):
    """evaluate the terms TLC printed for a sign event; returns None or a reason"""
    dig = drv.ev(ob["digest"])
    if list(dig) != ob["logged_digest"]:
        return "digest"
    e = int.from_bytes(dig, "big")
    r, s = int.from_bytes(bytes(ob["r"]), "big"), int.from_bytes(bytes(ob["s"]), "big")
    pub = (int.from_bytes(bytes(ob["pub"][0]), "big"), int.from_bytes(bytes(ob["pub"][1]), "big"))
    if drv.ec_pub(int.from_bytes(bytes(ob["d"]), "big")) != pub:
        return "pubkey"
    if drv.ec_recover(e, r, s, ob["recid"]) != pub:
        return "recover"
    for j in range(4):
        if j != ob["recid"] and drv.ec_recover(e, r, s, j) == pub:
            return "recid-ambiguous"
    return None


def validate_traces(ctx, traces):
    """-> (rejected trace indices (0-based) with reason, TLCResult)"""
    fd, path = tempfile.mkstemp(prefix="vf-c17-traces-", suffix=".json")
    with os.fdopen(fd, "w") as f:
        json.dump([{k: v for k, v in t.items() if k != "sym"} for t in traces], f)
    try:
        r = ctx.tlc("Trace_MsgSign", "Trace_MsgSign", workers=1, env={"TRACE_FILE": path}, count=False, timeout=2400)
    finally:
        os.unlink(path)
    rej = None
    for rec in r.records:
        if isinstance(rec, dict) and rec.get("k") == "rejected":
            if rec["n"] != len(traces):
                raise MachineryError("trace run saw %s traces, %d were sent" % (rec["n"], len(traces)))
            rej = {int(x) - 1: "structure" for x in rec["ids"]}
    if rej is None:
        raise MachineryError("trace run printed no verdict: %s" % r.raw_tail[-5:])
    seen = set()
    from ..par import pmap
    obs = r.by_kind("ob")
    for ob, why in zip(obs, pmap(_check_obligation, obs)):
        i = ob["tid"] - 1
        seen.add(i)
        if why and i not in rej:
            rej[i] = "obligation:" + why
    for i, t in enumerate(traces):
        if i not in rej and i not in seen and any(e["op"] == "sign" for e in t["ev"]):
            raise MachineryError("accepted trace %d printed no obligation" % i)
    return rej, r


def stage_traces(ctx):
    nets, path = _write_nets()
    os.unlink(path)
    q = ctx.quick
    traces = record_traces(ctx.seed * 7919 + 17, 160 if q else 2000, nets, 300 if q else 1200)
    from ..par import split
    accepted = []
    for ci, chunk in enumerate(split(traces, max(1, len(traces) // 750))):
        rej, r = validate_traces(ctx, chunk)
        accepted += [t for i, t in enumerate(chunk) if i not in rej][:2]
        ctx.traces += len(chunk) - len(rej)
        ctx.case(None, sum(len(t["ev"]) for t in chunk))
        if ci == 0:
            t0 = chunk[0]
            ctx.sample({"trace": {"sym": t0["sym"], "msg": drv.text_of(t0["msg"])[:80], "comp": t0["comp"],
                                  "events": [{k: (v if not isinstance(v, list) else drv.text_of(v)[:90] if k in ("sig", "addr") else "...")
                                              for k, v in e.items()} for e in t0["ev"]]}})
        for i, why in sorted(rej.items()):
            t = chunk[i]
            bad = [e for e in t["ev"] if e["op"] == "verify" and not isinstance(e["res"], bool)]
            ctx.fail("C17|trace|rejected|%s%s" % (why, "|verify=" + bad[0]["res"] if bad else ""),
                     "recorded %s.msg session is not a behaviour of MsgText/Trace_MsgSign (%s): message %r" % (t["sym"], why, drv.text_of(t["msg"])[:60]),
                     {"trace": t})
    # binding self-test: corrupt single logged fields of accepted traces
    good = accepted[:1]        # (when the implementation is broken there may be none: nothing to self-test then)
    if good:
        g = good[0]
        b1 = copy.deepcopy(g)      # header byte of the signature text
        b1["ev"][0]["sig"][0] = ord("A") if b1["ev"][0]["sig"][0] != ord("A") else ord("B")
        b2 = copy.deepcopy(g)      # a verdict
        v = next(e for e in b2["ev"] if e["op"] == "verify")
        v["res"] = not v["res"]
        b3 = copy.deepcopy(g)      # one character of the armoured text
        a = next(e for e in b3["ev"] if e["op"] == "armour")
        a["text"][7] = a["text"][7] + 1
        b4 = copy.deepcopy(g)      # the logged digest
        b4["ev"][0]["digest"][5] ^= 1
        b5 = copy.deepcopy(g)      # the parsed message
        pe = next(e for e in b5["ev"] if e["op"] == "parse")
        pe["msg"] = pe["msg"] + [10]
        b6 = copy.deepcopy(g)      # s of the signature (text stays canonical base64): the EC obligation must fail
        raw = bytearray(base64.b64decode(drv.text_of(b6["ev"][0]["sig"])))
        raw[64] ^= 1
        for e in b6["ev"]:
            if "sig" in e:
                e["sig"] = drv.cps_of(base64.b64encode(bytes(raw)).decode())
        b6["ev"] = [e for e in b6["ev"] if e["op"] in ("sign",)]
        rej, _ = validate_traces(ctx, [g, b1, b2, b3, b4, b5, b6])
        ctx.selftest("trace_rejects_corrupted_field", sorted(rej) == [1, 2, 3, 4, 5, 6] and rej[4] == "obligation:digest"
                     and rej[6] == "obligation:recover")


# ---------------------------------------------------------------- ground truth (R2)

_B58 = "123456789ABCDEFGHJKLMNPQRSTUVWXYZabcdefghijkmnopqrstuvwxyz"


def _b58_payload(a):
    import hashlib
    v = 0
    for c in a:
        v = v * 58 + _B58.index(c)
    raw = v.to_bytes(25, "big")
    if hashlib.sha256(hashlib.sha256(raw[:21]).digest()).digest()[:4] != raw[21:]:
        raise MachineryError("bad checksum in ground-truth address " + a)
    return raw[1:21]


# Signed messages found in the wild (copied from REPO/tests/msg_signing_test.py, which documents the expected
# message / address / signature of each): brainwallet "multibit" format, bitrated.com (mainnet and testnet3).
def _vectors():
    mb = ("\n\n-----BEGIN BITCOIN SIGNED MESSAGE-----\nThis is an example of a signed message.\n-----BEGIN BITCOIN SIGNATURE-----\n"
          "Version: Bitcoin-qt (1.0)\nAddress: 1HZwkjkeaoZfTSaJxDw6aKkxp45agDiEzN\n\n"
          "HCT1esk/TWlF/o9UNzLDANqsPXntkMErf7erIrjH5IBOZP98cNcmWmnW0GpSAi3wbr6CwpUAN4ctNn1T71UBwSc=\n-----END BITCOIN SIGNATURE-----\n\n")
    b2m = ("We will try to contact both parties to gather information and evidence, and do my best to make rightful judgement. "
           "Evidence may be submitted to us on https://www.bit2c.co.il/home/contact or in a private message to info@bit2c.co.il"
           " or in any agreed way.\n\nhttps://www.bit2c.co.il")
    b2 = ("\nUsername: Bit2c\nPublic key: 0396267072e597ad5d043db7c73e13af84a77a7212871f1aade607fb0f2f96e1a8\n"
          "Public key address: 15etuU8kwLFCBbCNRsgQTvWgrGWY9829ej\nURL: https://www.bitrated.com/u/Bit2c\n\n"
          "-----BEGIN BITCOIN SIGNED MESSAGE-----\n" + b2m + "\n-----BEGIN SIGNATURE-----\n15etuU8kwLFCBbCNRsgQTvWgrGWY9829ej\n"
          "H2utKkquLbyEJamGwUfS9J0kKT4uuMTEr2WX2dPU9YImg4LeRpyjBelrqEqfM4QC8pJ+hVlQgZI5IPpLyRNxvK8=\n-----END BITCOIN SIGNED MESSAGE-----\n")
    return [
        {"text": mb, "msg": "This is an example of a signed message.", "addr": "1HZwkjkeaoZfTSaJxDw6aKkxp45agDiEzN",
         "sig": "HCT1esk/TWlF/o9UNzLDANqsPXntkMErf7erIrjH5IBOZP98cNcmWmnW0GpSAi3wbr6CwpUAN4ctNn1T71UBwSc=", "pub": None},
        {"text": b2, "msg": b2m, "addr": "15etuU8kwLFCBbCNRsgQTvWgrGWY9829ej",
         "sig": "H2utKkquLbyEJamGwUfS9J0kKT4uuMTEr2WX2dPU9YImg4LeRpyjBelrqEqfM4QC8pJ+hVlQgZI5IPpLyRNxvK8=",
         "pub": "0396267072e597ad5d043db7c73e13af84a77a7212871f1aade607fb0f2f96e1a8"},
    ]


def stage_vectors(ctx):
    """R2: the spec (ParseSigned, digest rule, compact layout, Recover) reproduces real-world signed messages"""
    import hashlib
    src = open(os.path.join(REPO, "tests", "msg_signing_test.py")).read()
    vecs = _vectors()
    traces = []
    for v in vecs:
        if v["sig"][:40] not in src or v["addr"] not in src:
            raise MachineryError("ground-truth vector not found in tests/msg_signing_test.py")
        traces.append({"name": list(b"Bitcoin"), "msg": [], "comp": False, "d": [], "pub": [], "ev": [
            {"op": "parse", "text": drv.cps_of(v["text"]), "ok": True, "msg": drv.cps_of(v["msg"]), "addr": drv.cps_of(v["addr"]), "sig": drv.cps_of(v["sig"])},
            {"op": "vsig", "sig": drv.cps_of(v["sig"]), "msg": drv.cps_of(v["msg"])}]})
    rej, r = validate_traces(ctx, traces)
    if rej:
        raise MachineryError("the spec does not reproduce the documented parse of ground-truth vectors %r" % (rej,))
    obs = {ob["tid"] - 1: ob for ob in r.by_kind("ob2")}
    for i, v in enumerate(vecs):
        ob = obs.get(i)
        if ob is None:
            raise MachineryError("no obligation printed for vector %d" % i)
        e = int.from_bytes(drv.ev(ob["digest"]), "big")
        q = drv.ec_recover(e, int.from_bytes(bytes(ob["r"]), "big"), int.from_bytes(bytes(ob["s"]), "big"), ob["recid"])
        if q is None:
            raise MachineryError("spec/evaluator recover nothing from ground-truth vector %d" % i)
        sec = (bytes([2 + (q[1] & 1)]) + q[0].to_bytes(32, "big")) if ob["comp"] else (b"\x04" + q[0].to_bytes(32, "big") + q[1].to_bytes(32, "big"))
        h160 = hashlib.new("ripemd160", hashlib.sha256(sec).digest()).digest()
        if h160 != _b58_payload(v["addr"]) or (v["pub"] and ob["comp"] and sec.hex() != v["pub"]):
            raise MachineryError("spec + evaluator recover %s from ground-truth vector %d, documented address %s" % (sec.hex(), i, v["addr"]))
    ctx.extra["ground_truth_vectors"] = len(vecs)
    ctx.log("ground truth: %d real-world signed messages parse, hash and recover to the documented address under the spec" % len(vecs))


# ---------------------------------------------------------------- model

def stage_model(ctx):
    q = ctx.quick
    t = "q" if q else "t"
    # text side: armour round trip, digest preimage injective (+ the pinned constants / vectors in the ASSUMEs)
    ctx.tlc("MC_MsgText", "MC_MsgText_armour_" + t, timeout=3000)
    ctx.tlc("MC_MsgText", "MC_MsgText_digest_q" if q else "MC_MsgText_digest", timeout=3000)
    # controls: the lemmas are not vacuous
    r = ctx.tlc("MC_MsgText", "MC_MsgText_armour_marker", expect_ok=False, count=False)
    ctx.selftest("model_rejects_message_with_marker_line", (not r.ok) and r.violated == "Holds")
    r = ctx.tlc("MC_MsgText", "MC_MsgText_digest_plain", expect_ok=False, count=False)
    ctx.selftest("model_rejects_unprefixed_preimage", (not r.ok) and r.violated == "Holds")
    # EC side, per toy curve: every key x digest x nonce; every (digest, r, s) x recovery id
    runs = [("p43", "sign"), ("p43", "recover"), ("p103", "sign")] if q else \
           [(c, m) for c in ("p43", "p83", "p103") for m in ("sign", "recover")]
    for cname, mode in runs:
        ctx.tlc("MC_MsgSign", "MC_MsgSign_%s_%s_%s" % (cname, mode, t), timeout=3000)


STAGES = [("vectors", stage_vectors), ("model", stage_model), ("toy", stage_toy), ("net", stage_net), ("traces", stage_traces)]


def replay(ctx, obj):
    """./check C17 --replay FILE: re-run exactly the recorded case"""
    d = obj.get("detail") or {}
    print("key :", obj.get("key"))
    print("what:", obj.get("what"))
    if "curve" in d and "rec" in d:
        cname = {v: k for k, v in CURVES.items()}.get(tuple(d["curve"]), "toy")
        fails, _ = _toy_chunk(((cname, tuple(d["curve"])), [d["rec"]]))
        for key, what, det in fails:
            print("now :", key)
            if key == obj.get("key"):
                ctx.fail(key, what, det)
        if not fails:
            print("now : pycoin agrees with the spec on this case")
    elif "text" in d and "pair" in d:
        net = drv.network("BTC")
        rec = d["rec"]
        print("BTC.msg.verify(<key of pair %s>, %r, <message %d of MC_MsgNetReplay>) is demanded to be %s" % (d["pair"], d["text"], rec["msg"], rec["exp"]))
        print("(re-run `./check C17 --only net` to execute it: the message text comes from TLC)")
    else:
        print(json.dumps(d, indent=1)[:4000])
        print("(re-run `./check C17 --only net,traces` to execute it: networks and messages come from TLC / the seed)")


def run(ctx):
    ctx.rule = ("model: every key x digest x nonce (x recovery id x form) and every (header, r, s, digest) of the toy curves within each cfg; "
                "replay: every case TLC prints executed on pycoin; distinct_nontrivial = distinct (case kind, curve, signature class, "
                "recovery id, retry) classes among them plus distinct (network magic, message) digest terms")
    ctx.assumptions += [
        "double SHA-256 and HASH160 o SEC are collision-free (structural equality of terms is equality)",
        "the digest is never 0 (probability 2^-256; pycoin refuses to sign it)",
        "EC arithmetic is exercised inside TLC on toy curves (43,0,7,31), (83,1,7,79), (103,0,5,97) through pycoin's generic Generator; "
        "secp256k1 is covered by abstract cases, traces and an independent evaluator (limitation L1)",
        "TLC/SANY, CPython, hashlib",
    ]
    only = getattr(ctx, "only", None)
    for name, f in STAGES:
        if only and name not in only:
            continue
        f(ctx)
    ctx.exhaustive = True
