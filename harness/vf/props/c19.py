"""C19 - hash primitives, MurmurHash3 and the BIP37 Bloom filter.

Everything that is expected of pycoin is computed by TLC from the TLA+ modules
  Word32 / Ripemd160 / Sha256 / HashMachine   (RIPEMD-160 and SHA-256 on 16-bit limbs,
                                               padding in Init, one TLC step per round)
  Murmur3 / Bloom                             (MurmurHash3_x86_32, BIP37 bit positions)

1. model: padding lemma for every length 0..200 (both byte orders), type lemmas in every
   state of every run, word-arithmetic lemmas, Bloom lemmas (no false negative, exactly
   the prescribed bits, byte layout, the peer's test on the wire bytes).
2. the specs are validated against ground truth first (R2): TLC's digests = hashlib =
   published vectors (RIPEMD-160 home page, FIPS 180-4), murmur3 vectors, Bitcoin
   Core's / pycoin's Bloom filter vectors.  A disagreement is a machinery failure.
3. spec -> code: every case TLC printed is executed on pycoin - hashes in three fresh
   interpreters (native, PYCOIN_USE_PYTHON_RIPEMD160=1, hashlib without ripemd160),
   murmur3 and BloomFilter histories in process - and compared.
4. code -> spec: seeded random messages / murmur inputs / filter histories are run on
   pycoin, logged, and TLC validates the logs against Trace_Hash / Trace_Bloom.
SHA-256 of the *implementation* is hashlib (trusted base of pycoin); the spec has its own.
"""
from __future__ import annotations

import ast
import copy
import hashlib
import json
import os
import random
import tempfile

from ..ctx import REPO, MachineryError
from ..drv import bloom as bdrv
from ..drv import hashes as hdrv
from ..par import pmap, split

# ----------------------------------------------------------------------------- ground truth
# https://homes.esat.kuleuven.be/~bosselae/ripemd160.html
RMD_VECTORS = {
    b"": "9c1185a5c5e9fc54612808977ee8f548b2258d31",
    b"a": "0bdc9d2d256b3ee9daae347be6f4dc835a467ffe",
    b"abc": "8eb208f7e05d987a9b044a8e98c6b087f15a0bfc",
    b"message digest": "5d0689ef49d2fae572b881b123a85ffa21595f36",
    b"abcdefghijklmnopqrstuvwxyz": "f71c27109c692c1b56bbdceb5b9d2865b3708dbc",
    b"abcdbcdecdefdefgefghfghighijhijkijkljklmklmnlmnomnopnopq": "12a053384a9c0c88e405a06c27dcf49ada62eb2b",
    b"ABCDEFGHIJKLMNOPQRSTUVWXYZabcdefghijklmnopqrstuvwxyz0123456789": "b0e20b6e3116640286ed3a87a5713079b21f5189",
    b"1234567890" * 8: "9b752e45573d4b39f4dbd3323cab82bf63326bfb",
}
# FIPS 180-4 examples / NIST CAVS
SHA_VECTORS = {
    b"": "e3b0c44298fc1c149afbf4c8996fb92427ae41e4649b934ca495991b7852b855",
    b"abc": "ba7816bf8f01cfea414140de5dae2223b00361a396177a9cb410ff61f20015ad",
    b"abcdbcdecdefdefgefghfghighijhijkijkljklmklmnlmnomnopnopq":
        "248d6a61d20638b8e5c026930c3e6039a33ce45964ff2167f6ecedd419db06c1",
}
_H = bytes.fromhex
MM3_VECTORS = [
    (b"", 0, 0), (b"", 1, 0x514E28B7), (b"", 0xFFFFFFFF, 0x81F16F39), (_H("FFFFFFFF"), 0, 0x76293B50),
    (_H("21436587"), 0, 0xF55B516B), (_H("21436587"), 0x5082EDEE, 0x2362F9DE), (_H("214365"), 0, 0x7E4A8634),
    (_H("2143"), 0, 0xA0F7B07A), (_H("21"), 0, 0x72661CF4), (_H("00000000"), 0, 0x2362F9DE),
    (_H("000000"), 0, 0x85F0B427), (_H("0000"), 0, 0x30F4C306), (_H("00"), 0, 0x514E28B7),
    (b"Hello, world!", 1234, 0xFAF6CDB3), (b"Hello, world!", 0x9747B28C, 0x24884CBA),
    (b"The quick brown fox jumps over the lazy dog", 0x9747B28C, 0x2FA826CD),
    (b"The quick brown fox jumps over the lazy dog", 0, 0x2E4FF723),
    (b"abcdbcdecdefdefgefghfghighijhijkijkljklmklmnlmnomnopnopq", 0, 0xEE925B90),
    (b"test", 0x9747B28C, 0x704B81DC), (b"", 0x9747B28C, 0xEBB6C228), (b"aaa", 0x9747B28C, 0x283E0130),
    (b"ab", 0x9747B28C, 0x74875592), (b"abc", 0, 0xB3DD93FA),
]
# (size, nfuncs, tweak, [(op, bytes hex, index)], filter hex): Bitcoin Core src/test/bloom_tests.cpp
# (bloom_create_insert_serialize, ..._with_tweaks, bloom_create_insert_key) and pycoin tests/bloomfilter_test.py
_HA, _HB, _HC = ("99108ad8ed9bb6274d3980bab5a85c048f0950c8", "b5a2c786d9ef4658287ced5914b37a1b4aa32eee",
                 "b9300670b4c5366e95b2699e8b18bc75e5f729c5")
_PUB = ("045b81f0017e2091e2edcd5eecf10d5bdd120a5514cb3ee65b8447ec18bfc4575c6d5bf415e54e03b1067934a0f0ba76b01c6b9a"
        "b227142ee1d543764b69d901e0")
BLOOM_VECTORS = [
    (3, 5, 0, [("add_hash160", _HA, None), ("add_hash160", _HB, None), ("add_hash160", _HC, None)], "614e9b"),
    (3, 5, 2147483649, [("add_hash160", _HA, None), ("add_hash160", _HB, None), ("add_hash160", _HC, None)], "ce4299"),
    (3, 8, 0, [("add_item", _PUB, None), ("add_hash160", "477abbacd4113f2e6b100526222eedd953c26a64", None)], "8fc16b"),
    (20, 5, 127, [("add_hash160", "751e76e8199196d454941c45d1b3a323f1433bd6", None),
                  ("add_spendable", "79be667ef9dcbbac55a06295ce870b07029bfcdb2dce28d959f2815b16f81798", 1)],
     "0000400000000008011130000000101100000000"),
]


def _repo_rmd_vectors():
    """the (msg, hex) list embedded in REPO/pycoin/contrib/ripemd160.py (third source)"""
    try:
        tree = ast.parse(open(os.path.join(REPO, "pycoin/contrib/ripemd160.py")).read())
        for node in ast.walk(tree):
            if isinstance(node, ast.For) and isinstance(node.iter, ast.List) and len(node.iter.elts) >= 5:
                out = {}
                for e in node.iter.elts:
                    m, h = eval(compile(ast.Expression(e), "<vec>", "eval"), {"__builtins__": {}})
                    if len(m) <= 1000:
                        out[bytes(m)] = h
                return out
    except Exception:
        pass
    return {}


def _hl_rmd(m):
    try:
        return hashlib.new("ripemd160", m).digest()
    except Exception:
        return None


def _truth(pipe, m):
    """hashlib's answer (None if hashlib has no RIPEMD-160)"""
    if pipe == "sha256":
        return hashlib.sha256(m).digest()
    if pipe == "double_sha256":
        return hashlib.sha256(hashlib.sha256(m).digest()).digest()
    if pipe == "hash160":
        return _hl_rmd(hashlib.sha256(m).digest())
    return _hl_rmd(m)


# ----------------------------------------------------------------------------- failure keys
def _hash_key(fn, cfg, n, got):
    return "C19|hash|%s|cfg=%s|len%%64%s|blocks=%s|%s" % (
        fn, cfg, "<56" if n % 64 < 56 else ">=56", min(n // 64, 3), got)


def _seed_cls(seed):
    return "lt2^31" if seed < 2 ** 31 else "lt2^32" if seed < 2 ** 32 else "wide"


def _mm_key(n, seed, got):
    return "C19|murmur3|tail=%d|blocks=%s|seed=%s|%s" % (n % 4, min(n // 4, 2), _seed_cls(seed), got)


def _bloom_key(op, nfuncs, tweak, what):
    return "C19|bloom|%s|nfuncs=%s|tweak=%s|%s" % (op, "0" if nfuncs == 0 else "1" if nfuncs == 1 else "many",
                                                   _seed_cls(tweak), what)


# ----------------------------------------------------------------------------- hashes: spec -> code
def _compare_hash(expected_hex, res):
    """None if pycoin's result is the expected digest, else a short description"""
    if "exc" in res:
        return "exception:" + res["exc"].split(":")[0]
    return None if res["d"] == expected_hex else "wrong-digest"


def check_hash_cases(ctx, cases, label):
    """cases: list of (pipe, msg bytes, expected digest bytes (from TLC)); executes them on pycoin in all
    configurations; returns number of executions"""
    jobs, owner = [], []
    for ci, (pipe, m, d) in enumerate(cases):
        for fn in hdrv.FUNCS.get(pipe, ()):
            jobs.append((fn, m))
            owner.append(ci)
    res = hdrv.run_all(jobs)
    n = 0
    impls = ctx.extra.setdefault("ripemd160_implementation_by_configuration", {})
    for cfg in hdrv.CONFIGS:
        impl, rs = res[cfg]
        impls[cfg] = impl
        if len(rs) != len(jobs):
            raise MachineryError("driver returned %d results for %d jobs (%s)" % (len(rs), len(jobs), cfg))
        for (fn, m), ci, r in zip(jobs, owner, rs):
            pipe, _, d = cases[ci]
            if fn == "hash._PurePythonRIPEMD160" and r.get("exc", "").startswith("AttributeError"):
                continue                       # private helper absent in this tree: not part of the property
            n += 1
            bad = _compare_hash(d.hex(), r)
            ctx.case(("hash", fn, cfg, len(m) % 64, min(len(m) // 64, 4)))
            if bad:
                ctx.fail(_hash_key(fn, cfg, len(m), bad),
                         "%s(%d-byte message %s..) in configuration %s: expected %s, got %s" % (
                             fn, len(m), m[:8].hex(), cfg, d.hex(), r.get("d", r.get("exc"))),
                         {"kind": "hash", "fn": fn, "cfg": cfg, "msg": m.hex(), "expected": d.hex(), "got": r})
    ctx.action("replay.hash." + label, n)
    return n


def stage_words(ctx):
    """word-arithmetic lemmas (the limbs behave as uint32) - everything else stands on them"""
    ctx.tlc("MC_Word32", "MC_Word32", workers=8, coverage=not ctx.quick, timeout=900)


def stage_hash(ctx):
    q = ctx.quick
    # lemma: padding for EVERY length 0..200, both algorithms (initial states only)
    ctx.tlc("MC_Hash", "MC_Hash_pad", workers=4, timeout=600)
    # teeth of the lemma: a padding rule whose boundary slipped by one must violate it
    r = ctx.tlc("MC_Hash", "MC_Hash_badpad", workers=2, expect_ok=False, count=False, timeout=600)
    ctx.selftest("model_rejects_slipped_padding_boundary", (not r.ok) and r.violated == "PadOK")
    recs = []
    acts = ("RmdRound", "ShaRound", "NextBlock", "NextStage", "EFinish")
    ctx.tlc("MC_Hash", "MC_Hash_q" if q else "MC_Hash_t", on_record=recs.append, keep_records=False,
            coverage=not q, require_actions=() if q else acts, timeout=1500)
    cases = [(r["pipe"], bytes(r["msg"]), bytes(r["d"])) for r in recs if r.get("k") == "hash"]
    if len(cases) < 100:
        raise MachineryError("MC_Hash printed only %d cases" % len(cases))
    # ---- R2: the spec against hashlib and the published vectors
    have_native = _hl_rmd(b"") is not None
    ctx.extra["hashlib_has_ripemd160"] = have_native
    seen_r, seen_s = {}, {}
    for pipe, m, d in cases:
        t = _truth(pipe, m)
        if t is not None and t != d:
            raise MachineryError("spec disagrees with hashlib: %s of %d-byte message: TLC %s hashlib %s" % (
                pipe, len(m), d.hex(), t.hex()))
        if pipe == "ripemd160":
            seen_r[m] = d.hex()
        if pipe == "sha256":
            seen_s[m] = d.hex()
    for vec, seen, name in ((RMD_VECTORS, seen_r, "RIPEMD-160"), (SHA_VECTORS, seen_s, "SHA-256")):
        for m, hx in vec.items():
            if seen.get(m) != hx:
                raise MachineryError("spec disagrees with the published %s vector for %r: %s" % (name, m, seen.get(m)))
    repo_vecs = _repo_rmd_vectors()
    agree = sum(1 for m, hx in repo_vecs.items() if seen_r.get(m) == hx)
    ctx.extra["repo_embedded_ripemd160_vectors"] = {"found": len(repo_vecs), "equal_to_spec": agree}
    ctx.log("ground truth: %d TLC digests = hashlib; %d RIPEMD-160 + %d SHA-256 published vectors; %d/%d vectors embedded in the repository" % (
        len(cases), len(RMD_VECTORS), len(SHA_VECTORS), agree, len(repo_vecs)))
    # ---- replay
    n = check_hash_cases(ctx, cases, "grid")
    ctx.replayed += len(cases)
    ctx.sample({"hash_case": {"pipe": cases[7][0], "msg": cases[7][1].hex(), "digest_from_TLC": cases[7][2].hex()}})
    ctx.log("replayed %d hash cases on pycoin: %d executions in configurations %s" % (
        len(cases), n, ctx.extra["ripemd160_implementation_by_configuration"]))
    # binding self-test: a corrupted expectation must be noticed
    pipe, m, d = next(c for c in cases if c[0] == "hash160" and len(c[1]) == 56)
    bad = bytes([d[0] ^ 1]) + d[1:]
    impl, rs = hdrv.run_jobs("pure", [("hash.hash160", m)])
    # (independent of whether pycoin is right: its real answer cannot equal both d and d with a flipped bit)
    ctx.selftest("hash_replay_rejects_corrupted_expectation",
                 (_compare_hash(d.hex(), rs[0]) is None) != (_compare_hash(bad.hex(), rs[0]) is None) or
                 (_compare_hash(d.hex(), rs[0]) is not None and _compare_hash(bad.hex(), rs[0]) is not None))
    return cases


# ----------------------------------------------------------------------------- murmur3: spec -> code
def _mm_compare(r, want):
    if "exc" in r:
        return "exception:" + r["exc"].split(":")[0]
    return None if r["h"] == want else "wrong-value"


def _mm_check(ctx, data, seed, want):
    r = bdrv.murmur(data, seed)
    bad = _mm_compare(r, want)
    if bad:
        ctx.fail(_mm_key(len(data), seed, bad),
                 "murmur3(%s, seed=%d): expected 0x%08x (MurmurHash3_x86_32 with the seed reduced mod 2^32), got %s" % (
                     data.hex(), seed, want, r),
                 {"kind": "murmur3", "data": data.hex(), "seed": str(seed), "expected": want, "got": r})
    return bad


def stage_murmur(ctx):
    q = ctx.quick
    recs = []
    ctx.tlc("MC_Murmur3", "MC_Murmur3_q" if q else "MC_Murmur3_t", on_record=recs.append, keep_records=False,
            coverage=not q, require_actions=() if q else ("Pick",), timeout=1500)
    cases = [(bytes(r["data"]), bdrv.limbs_to_int(r["seed"]), (r["h"][0] << 16) | r["h"][1]) for r in recs if r.get("k") == "mm3"]
    if len(cases) < 300:
        raise MachineryError("MC_Murmur3 printed only %d cases" % len(cases))
    table = {(d, s): h for d, s, h in cases}
    for d, s, h in MM3_VECTORS:
        if table.get((d, s)) != h:
            raise MachineryError("spec disagrees with the murmur3 vector (%r, 0x%x): %r != 0x%x" % (d, s, table.get((d, s)), h))
    # the vectors of the repository's own test file, as far as the spec evaluated the same inputs
    for d, s, h in cases:
        ctx.case(("mm3", len(d) % 4, min(len(d) // 4, 3), _seed_cls(s)))
        _mm_check(ctx, d, s, h)
    ctx.replayed += len(cases)
    ctx.action("replay.murmur3", len(cases))
    ctx.sample({"murmur3_case": {"data": cases[11][0].hex(), "seed": cases[11][1], "value_from_TLC": cases[11][2]}})
    ctx.log("ground truth: %d murmur3 vectors; replayed %d murmur3 cases (seeds up to %d bits)" % (
        len(MM3_VECTORS), len(cases), max(s for _, s, _ in cases).bit_length()))
    # self-test
    d, s, h = next(c for c in cases if len(c[0]) == 7 and c[1] >= 2 ** 32)
    r = bdrv.murmur(d, s)
    ctx.selftest("murmur_replay_rejects_corrupted_expectation",
                 _mm_compare(r, h ^ 0x10000) is not None or _mm_compare(r, h) is not None)


# ----------------------------------------------------------------------------- bloom: spec -> code
def _expand(size, pairs):
    fb = bytearray(size)
    for k, v in pairs:
        fb[k] = v
    return bytes(fb)


def _probes(size, bits):
    nb = 8 * size
    s = set(bits) | {0, nb - 1}
    for p in bits:
        s.add((p + 1) % nb)
        s.add((p - 1) % nb)
        s.add(p ^ 7)                              # the mirrored bit of the same byte (MSB-first confusion)
    return sorted(s)


def _bloom_replay_one(rec):
    """execute one TLC history on pycoin; returns list of (step, what, detail) disagreements and #calls"""
    size, nfuncs, tweak = rec["size"], rec["nfuncs"], bdrv.limbs_to_int(rec["tweak"])
    ops, outs = rec["ops"], rec["outs"]
    probes = [_probes(size, o["bits"]) for o in outs]
    projs = bdrv.run_history(size, nfuncs, tweak, ops, probes)
    bad = []
    for k, (op, want) in enumerate(zip(ops, outs)):
        if k >= len(projs):
            break
        p = projs[k]
        if "exc" in p:
            bad.append((k, "exception:" + p["exc"].split(":")[1].strip(), p["exc"]))
            break
        exp = _expand(size, want["fb"])
        if p["fb"] != exp:
            diff = [i for i in range(size) if p["fb"][i] != exp[i]][:6] if len(p["fb"]) == size else "length %d" % len(p["fb"])
            bad.append((k, "filter_bytes", "bytes differ at %s: got %s expected %s" % (
                diff, p["fb"].hex()[:80] if size <= 40 else bdrv.sparse(p["fb"])[:12], exp.hex()[:80] if size <= 40 else want["fb"][:12])))
            break
        wb = set(want["bits"])
        wrong = [q for q, v in p["cb"].items() if v != (q in wb)]
        if wrong:
            bad.append((k, "check_bit", "check_bit wrong at positions %s" % wrong[:6]))
            break
        if not p["params_ok"]:
            bad.append((k, "filter_load_params", "filter_load_params() does not return (filter_bytes, nfuncs, tweak)"))
            break
    return bad, len(projs)


def _bloom_chunk(recs):
    return [(_bloom_replay_one(r)) for r in recs]


def stage_bloom(ctx):
    q = ctx.quick
    ctx.tlc("MC_Bloom", "MC_Bloom_q" if q else "MC_Bloom_t", workers=8 if q else 16, coverage=not q,
            require_actions=() if q else ("Next",), timeout=1500)
    r = ctx.tlc("MC_Bloom", "MC_Bloom_msb", workers=2, expect_ok=False, count=False, timeout=600)
    ctx.selftest("model_rejects_msb_first_layout", (not r.ok) and r.violated == "Layout")
    recs = []
    ctx.tlc("MC_BloomReplay", "MC_BloomReplay_q" if q else "MC_BloomReplay_t", on_record=recs.append, keep_records=False,
            timeout=1500)
    recs = [r for r in recs if r.get("k") == "bloom"]
    if len(recs) < 500:
        raise MachineryError("MC_BloomReplay printed only %d histories" % len(recs))
    # ---- R2: published filter vectors must be among the scripted histories, with TLC's bytes equal to them
    for size, nf, tw, ops, hx in BLOOM_VECTORS:
        found = False
        for r in recs:
            if (r["script"] and r["size"] == size and r["nfuncs"] == nf and bdrv.limbs_to_int(r["tweak"]) == tw and
                    [(o["op"], bytes(o["b"]).hex(), int.from_bytes(bytes(o["i"]), "little") if o["i"] else None) for o in r["ops"]] == ops):
                found = True
                got = _expand(size, r["outs"][-1]["fb"]).hex()
                if got != hx:
                    raise MachineryError("spec disagrees with the published Bloom filter vector %s: TLC %s" % (hx, got))
        if not found:
            raise MachineryError("scripted vector history %s not produced by MC_BloomReplay" % hx)
    # ---- replay
    res = [x for ch in pmap(_bloom_chunk, split(recs, 64), chunk=1) for x in ch]
    ncalls = 0
    for r, (bad, n) in zip(recs, res):
        ncalls += n
        tw = bdrv.limbs_to_int(r["tweak"])
        ctx.case(("bloom", r["size"], r["nfuncs"], tuple(o["op"] for o in r["ops"])) if len(r["ops"]) >= 2 else None)
        for k, what, detail in bad:
            ctx.fail(_bloom_key(r["ops"][k]["op"], r["nfuncs"], tw, what),
                     "BloomFilter(%d, %d, %d) after call %d (%s %s): %s" % (
                         r["size"], r["nfuncs"], tw, k + 1, r["ops"][k]["op"], bytes(r["ops"][k]["b"]).hex()[:40], detail),
                     {"kind": "bloom", "size": r["size"], "nfuncs": r["nfuncs"], "tweak": str(tw), "ops": r["ops"][:k + 1],
                      "expected_bits": r["outs"][k]["bits"], "expected_nonzero_bytes": r["outs"][k]["fb"], "what": what})
    ctx.replayed += len(recs)
    ctx.action("replay.bloom_histories", len(recs))
    ctx.action("replay.bloom_calls", ncalls)
    s = next(r for r in recs if r["script"] and r["size"] == 3)
    ctx.sample({"bloom_history": {"size": s["size"], "nfuncs": s["nfuncs"], "tweak": bdrv.limbs_to_int(s["tweak"]),
                                  "ops": [(o["op"], bytes(o["b"]).hex()) for o in s["ops"]],
                                  "bits_from_TLC": s["outs"][-1]["bits"], "filter_bytes_from_TLC": _expand(3, s["outs"][-1]["fb"]).hex()}})
    ctx.log("ground truth: %d published Bloom filter vectors; replayed %d histories (%d calls) on BloomFilter" % (
        len(BLOOM_VECTORS), len(recs), ncalls))
    # self-test: corrupt one expected byte / one expected bit
    good = copy.deepcopy(next(r for r in recs if r["size"] == 20 and r["outs"][-1]["fb"]))
    ok0 = _bloom_replay_one(good)[0] == []      # (False only if pycoin itself is wrong here)
    b1 = copy.deepcopy(good)
    b1["outs"][-1]["fb"][0][1] ^= 0x10
    b2 = copy.deepcopy(good)
    b2["outs"][0]["bits"] = b2["outs"][0]["bits"] + [next(x for x in range(160) if x not in b2["outs"][0]["bits"])]
    ctx.selftest("bloom_replay_rejects_corrupted_expectation",
                 (not ok0) or ([x[1] for x in _bloom_replay_one(b1)[0]] == ["filter_bytes"] and
                               [x[1] for x in _bloom_replay_one(b2)[0]] == ["check_bit"]))


# ----------------------------------------------------------------------------- traces: code -> spec
def _run_trace_tlc(ctx, module, data, ntraces, workers=16):
    fd, path = tempfile.mkstemp(prefix="vf-c19-trace-", suffix=".json")
    with os.fdopen(fd, "w") as f:
        json.dump(data, f)
    acc = set()
    hdr = []

    def on(r):
        if r.get("k") == "acc":
            acc.add(r["tid"])
        elif r.get("k") == "hdr":
            hdr.append(r["n"])
    try:
        ctx.tlc(module, module, workers=workers, env={"TRACE_FILE": path}, count=False, timeout=2400,
                on_record=on, keep_records=False)
    finally:
        os.unlink(path)
    # verdicts are one JSON record per ACCEPTED trace (no multi-line pretty printing involved); the
    # header proves that TLC read exactly the traces that were sent
    if not hdr or any(n != ntraces for n in hdr):
        raise MachineryError("%s read %s traces, %d were sent" % (module, hdr, ntraces))
    if not acc <= set(range(1, ntraces + 1)):
        raise MachineryError("%s accepted unknown trace ids" % module)
    return sorted(set(range(1, ntraces + 1)) - acc)     # rejected, 1-based


def stage_hash_traces(ctx):
    q = ctx.quick
    rnd = random.Random(ctx.seed * 7919 + 19)
    if q:
        lens = sorted({0, 1, 54, 55, 56, 57, 63, 64, 65, 118, 119, 120, 121, 127, 128, 183, 184, 247, 248} |
                      {rnd.randint(0, 300) for _ in range(24)}) + [8247]
    else:
        # 8192 bytes = 65536 bits: the third byte of the length field becomes non-zero
        lens = list(range(0, 261)) + [rnd.randint(261, 1100) for _ in range(12)] + [503, 504, 1015, 1016, 8191, 8192, 8247, 8248]
    if not q:
        lens = lens + list(range(0, 261))          # a second random message for every length 0..260
    msgs = [bytes(rnd.getrandbits(8) for _ in range(n)) for n in lens]
    jobs = []
    for m in msgs:
        for pipe, fns in hdrv.FUNCS.items():
            if q and len(m) > 8000 and pipe != "ripemd160":
                continue               # quick tier: the long message only where the length field is pycoin's own code
            for fn in fns:
                jobs.append((fn, m))
    pipe_of = {fn: p for p, fns in hdrv.FUNCS.items() for fn in fns}
    res = hdrv.run_all(jobs)
    events = {}        # (pipe, msg, digest) -> [(cfg, fn)]
    nexec = 0
    for cfg in hdrv.CONFIGS:
        for (fn, m), r in zip(jobs, res[cfg][1]):
            if fn == "hash._PurePythonRIPEMD160" and r.get("exc", "").startswith("AttributeError"):
                continue
            nexec += 1
            if "exc" in r:
                ctx.fail(_hash_key(fn, cfg, len(m), "exception:" + r["exc"].split(":")[0]),
                         "%s raised on a %d-byte message in configuration %s: %s" % (fn, len(m), cfg, r["exc"]),
                         {"kind": "hash", "fn": fn, "cfg": cfg, "msg": m.hex(), "expected": None, "got": r})
                continue
            events.setdefault((pipe_of[fn], m, r["d"]), []).append((cfg, fn))
    evs = sorted(events, key=lambda e: (e[0], len(e[1]), e[1], e[2]))
    # binding self-test rides in the same batch: a flipped digest bit and a changed message must be rejected
    base = next(e for e in evs if e[0] == "hash160" and len(e[1]) >= 56)
    d = bytes.fromhex(base[2])
    corrupt = [(base[0], base[1], (d[:7] + bytes([d[7] ^ 0x20]) + d[8:]).hex()),
               (base[0], base[1][:-1] + bytes([base[1][-1] ^ 1]), base[2])]
    data = [{"p": p, "m": list(m), "d": list(bytes.fromhex(dx))} for p, m, dx in evs + corrupt]
    rej = _run_trace_tlc(ctx, "Trace_Hash", data, len(data))
    st = [i for i in rej if i > len(evs)]
    ctx.selftest("hash_trace_rejects_corrupted_field", st == [len(evs) + 1, len(evs) + 2])
    for i in rej:
        if i > len(evs):
            continue
        p, m, dx = evs[i - 1]
        for cfg, fn in events[evs[i - 1]]:
            ctx.fail(_hash_key(fn, cfg, len(m), "wrong-digest"),
                     "recorded call %s(%d-byte message) = %s in configuration %s is not what HashMachine.tla computes" % (fn, len(m), dx, cfg),
                     {"kind": "hash", "fn": fn, "cfg": cfg, "msg": m.hex(), "expected": None, "got": {"d": dx}})
    ctx.traces += len(evs) - len([i for i in rej if i <= len(evs)])
    ctx.case(None, nexec)
    ctx.action("trace.hash_events", len(evs))
    ctx.extra["hash_trace_executions_logged"] = nexec
    ctx.sample({"hash_trace_event": {"p": evs[3][0], "m": evs[3][1].hex(), "d": evs[3][2], "logged_from": events[evs[3]][:4]}})
    ctx.log("hash traces: %d executions logged (%d messages x call sites x %d configurations) = %d distinct events, %d rejected" % (
        nexec, len(lens), len(hdrv.CONFIGS), len(evs), len([i for i in rej if i <= len(evs)])))


def _rand_bytes(rnd, n):
    return [rnd.getrandbits(8) for _ in range(n)]


def _rand_seed(rnd):
    k = rnd.randrange(8)
    if k == 0:
        return rnd.choice([0, 1, 2 ** 31 - 1, 2 ** 31, 2 ** 32 - 1, 2 ** 32, 2 ** 32 + 5, 2 ** 64 - 1])
    if k <= 3:
        return rnd.getrandbits(32)
    if k <= 5:
        return rnd.getrandbits(31)
    if k == 6:
        return rnd.randrange(0, 51) * 0xFBA4C795 + rnd.getrandbits(32)     # the BIP37 form, unreduced
    return rnd.getrandbits(rnd.choice([33, 40, 48, 64]))


def record_bloom_traces(seed, count, maxsteps, long_histories=0, long_steps=0):
    """run seeded random filter histories on pycoin and log them"""
    from pycoin.bloomfilter import filter_size_required, hash_function_count_required
    rnd = random.Random(seed)
    traces, meta = [], []
    for t in range(count + long_histories):
        long = t >= count
        if rnd.random() < 0.55:
            ne = rnd.choice([1, 2, 3, 5, 10, 40, 200, 2000, 20000])
            fpp = rnd.choice([0.5, 0.1, 0.01, 0.001, 1e-4, 1e-6, 1e-9])
            size = filter_size_required(ne, fpp)
            nf = hash_function_count_required(size, ne) if size else 1
            how = "sized(%d,%g)" % (ne, fpp)
            meta.append((ne, fpp, size, nf))
            size = max(size, 1)
            nf = min(nf, 60)               # cost bound of the trace check only
        else:
            size = rnd.choice([1, 2, 3, 7, 8, 9, 64, 1000, 36000])
            nf = rnd.choice([0, 1, 1, 2, 3, 5, 8, 13, 50])
            how = "free"
        tweak = _rand_seed(rnd)
        steps = long_steps if long else rnd.randint(1, maxsteps)
        if long:
            nf = min(nf, 12)
        ops = []
        for _ in range(steps):
            k = rnd.randrange(10)
            if k < 3:
                op = {"op": "add_item", "b": _rand_bytes(rnd, rnd.choice([0, 1, 2, 3, 4, 5, 7, 8, 20, 32, 33, 36, 65, rnd.randint(0, 90)])), "i": []}
            elif k < 5:
                op = {"op": "add_hash160", "b": _rand_bytes(rnd, 20), "i": []}
            elif k < 7:
                op = {"op": "add_address", "b": _rand_bytes(rnd, 20), "i": [], "ver": rnd.choice([0, 5, 111, 196, rnd.getrandbits(8)])}
            elif k < 9:
                idx = rnd.choice([0, 1, 2, 255, 256, 65535, 65536, 2 ** 31, 2 ** 32 - 1, rnd.getrandbits(32)])
                op = {"op": "add_spendable", "b": _rand_bytes(rnd, 32), "i": list(idx.to_bytes(4, "little"))}
            else:
                op = {"op": "murmur3", "b": _rand_bytes(rnd, rnd.choice([0, 1, 2, 3, 4, 5, 6, 7, 8, 9, 15, 16, 17, rnd.randint(0, 120)])), "i": []}
            ops.append(op)
        if t == 1:
            # one input longer than 2^16 bytes: the length that is xored in needs its upper half
            ops.append({"op": "murmur3", "b": _rand_bytes(rnd, 65539), "i": []})
        traces.append(_run_and_log(rnd, size, nf, tweak, ops, how))
    return traces, meta


def _run_and_log(rnd, size, nf, tweak, ops, how):
    from pycoin.bloomfilter import BloomFilter
    ev = []
    exc = None
    nb = 8 * size
    try:
        bf = BloomFilter(size, hash_function_count=nf, tweak=tweak)
    except Exception as e:
        return {"size": size, "nfuncs": nf, "tweak": bdrv.int_to_limbs(tweak), "ev": [], "how": how,
                "exc": "BloomFilter(): %s: %s" % (type(e).__name__, e)}
    prev = bytes(size)
    nadd = 0
    for op in ops:
        e = {"op": op["op"], "b": op["b"], "i": op["i"], "fb": [], "fbd": [], "full": 0, "cb": [], "seed": [0], "h": [0, 0]}
        try:
            if op["op"] == "murmur3":
                s = _rand_seed(rnd)
                r = bdrv.murmur(op["b"], s)
                if "exc" in r:
                    raise RuntimeError(r["exc"])
                if not 0 <= r["h"] < 2 ** 32:
                    raise RuntimeError("murmur3 returned %d, not a uint32" % r["h"])
                e["seed"] = bdrv.int_to_limbs(s)
                e["h"] = [r["h"] >> 16, r["h"] & 0xFFFF]
            else:
                bdrv.call(bf, op)
                fb = bytes(bf.filter_bytes)
                if len(fb) != size:
                    raise RuntimeError("filter_bytes has length %d" % len(fb))
                e["fbd"] = [[k, fb[k]] for k in range(size) if fb[k] != prev[k]]
                if nadd % 50 == 0:
                    e["full"], e["fb"] = 1, bdrv.sparse(fb)
                nadd += 1
                prev = fb
                nz = bdrv.sparse(fb)
                setbits = [8 * k + b for k, v in rnd.sample(nz, min(len(nz), 40)) for b in range(8) if v >> b & 1]
                pos = set(rnd.sample(setbits, min(len(setbits), 10))) | {rnd.randrange(nb) for _ in range(10)} | {0, nb - 1}
                e["cb"] = [[p, 1 if bf.check_bit(p) else 0] for p in sorted(pos)]
        except Exception as x:
            exc = "%s: %s: %s" % (op["op"], type(x).__name__, str(x)[:100])
            break
        ev.append(e)
    last = [e for e in ev if e["op"] != "murmur3"]
    if last and not exc:
        last[-1]["full"], last[-1]["fb"] = 1, bdrv.sparse(prev)
    tr = {"size": size, "nfuncs": nf, "tweak": bdrv.int_to_limbs(tweak), "ev": ev, "how": how}
    if exc:
        tr["exc"] = exc
    return tr


def stage_bloom_traces(ctx):
    q = ctx.quick
    traces, meta = record_bloom_traces(ctx.seed * 7919 + 1937, 150 if q else 2500, 6 if q else 10,
                                       long_histories=0 if q else 5, long_steps=500)
    over50 = [m for m in meta if m[3] > 50]
    zero = [m for m in meta if m[2] == 0]
    ctx.extra["sizing_functions_observed"] = {
        "calls": len(meta), "hash_function_count_required_above_50": len(over50), "filter_size_required_zero": len(zero),
        "note": "BIP37 caps nHashFuncs at 50; pycoin's helper does not (outside the statement of C19, reported in notes/C19.md)"}
    nev = 0
    for t in traces:
        nev += len(t["ev"])
        if "exc" in t:
            tw = bdrv.limbs_to_int(t["tweak"])
            ctx.fail(_bloom_key(t["exc"].split(":")[0], t["nfuncs"], tw, "exception:" + t["exc"].split(":")[1].strip()),
                     "BloomFilter(%d, %d, %d) history raised: %s" % (t["size"], t["nfuncs"], tw, t["exc"]),
                     {"kind": "bloom-trace", "trace": t})
    good = [t for t in traces if "exc" not in t]
    # self-test traces: one wrong byte, one wrong check_bit answer, one wrong murmur value
    st = []
    src = next(t for t in good if sum(1 for e in t["ev"] if e["fbd"]) >= 3)
    c1 = copy.deepcopy(src)
    e1 = [e for e in c1["ev"] if e["fbd"]][1]          # a middle call: only the changed bytes are logged
    e1["fbd"][0][1] ^= 0x81
    if e1["fbd"][0][1] == 0:
        e1["fbd"][0][1] = 0x81
    c0 = copy.deepcopy(src)
    e0 = [e for e in c0["ev"] if e["full"]][-1]          # the last call: all non-zero bytes
    e0["fb"] = e0["fb"][1:]
    c2 = copy.deepcopy(src)
    e2 = next(e for e in c2["ev"] if e["cb"])
    e2["cb"][0][1] ^= 1
    srcm = next(t for t in good if any(e["op"] == "murmur3" for e in t["ev"]))
    c3 = copy.deepcopy(srcm)
    e3 = next(e for e in c3["ev"] if e["op"] == "murmur3")
    e3["h"][1] ^= 1
    st = [c1, c2, c3, c0]
    data = [{"size": t["size"], "nfuncs": t["nfuncs"], "tweak": t["tweak"], "ev": t["ev"]} for t in good + st]
    rej = _run_trace_tlc(ctx, "Trace_Bloom", data, len(data))
    ctx.selftest("bloom_trace_rejects_corrupted_field", [i for i in rej if i > len(good)] == [len(good) + 1, len(good) + 2, len(good) + 3, len(good) + 4])
    nrej = 0
    for i in rej:
        if i > len(good):
            continue
        nrej += 1
        t = good[i - 1]
        tw = bdrv.limbs_to_int(t["tweak"])
        kinds = sorted({e["op"] for e in t["ev"]})
        ctx.fail("C19|bloom-trace|rejected|ops=%s|nfuncs=%s|tweak=%s" % ("+".join(kinds), "0" if t["nfuncs"] == 0 else "1" if t["nfuncs"] == 1 else "many", _seed_cls(tw)),
                 "recorded BloomFilter(%d, %d, %d) history of %d calls is not a behaviour of Bloom.tla/Murmur3.tla" % (t["size"], t["nfuncs"], tw, len(t["ev"])),
                 {"kind": "bloom-trace", "trace": t})
    ctx.traces += len(good) - nrej
    ctx.case(None, nev)
    ctx.action("trace.bloom_histories", len(good))
    ctx.action("trace.bloom_events", nev)
    t0 = good[0]
    ctx.sample({"bloom_trace": {k: t0[k] for k in ("size", "nfuncs", "tweak", "how")} | {"first_events": t0["ev"][:2]}})
    ctx.log("bloom/murmur traces: %d histories, %d events, %d rejected; sizing helpers: %d calls, %d with nfuncs > 50, %d with size 0" % (
        len(good), nev, nrej, len(meta), len(over50), len(zero)))


# ----------------------------------------------------------------------------- entry points
def run(ctx):
    ctx.rule = ("hash: TLC computes RIPEMD-160 / hash160 / double-SHA256 for every length x fill of the grid (quick: the 15 padding-boundary "
                "lengths, thorough: every length 0..260) and pycoin must return the same digest at every call site in every configuration; "
                "murmur3: every tail length x block count x fill x seed class; bloom: every history of 3 calls from the pool on every listed "
                "filter, compared after every call; distinct_nontrivial = distinct (call site, configuration, length mod 64, block count) / "
                "(tail, blocks, seed class) / (filter, call sequence of length >= 2) classes")
    ctx.assumptions += [
        "SHA-256 inside pycoin is hashlib.sha256 and the native RIPEMD-160 is hashlib/OpenSSL: trusted base; the spec computes both itself and is "
        "compared with hashlib and the published vectors before it judges pycoin",
        "messages shorter than 2^28 bytes (bit length fits four bytes); Crypto.Hash.RIPEMD path absent from the sandbox",
        "Bloom filter sizes >= 1; seeds/tweaks are non-negative integers of any width",
        "TLC/SANY, CommunityModules (Bitwise, Json, SequencesExt), CPython",
    ]
    only = getattr(ctx, "only", None)
    stages = [("words", stage_words), ("hash", stage_hash), ("murmur", stage_murmur), ("bloom", stage_bloom),
              ("hashtrace", stage_hash_traces), ("bloomtrace", stage_bloom_traces)]
    for name, f in stages:
        if only and name not in only:
            continue
        f(ctx)
    ctx.exhaustive = False


def replay(ctx, obj):
    """re-execute one saved failing case"""
    d = obj.get("detail") or {}
    print(json.dumps({k: obj[k] for k in ("property", "key", "what")}, indent=1))
    kind = d.get("kind")
    if kind == "hash" and d.get("expected"):
        m = bytes.fromhex(d["msg"])
        impl, rs = hdrv.run_jobs(d["cfg"], [(d["fn"], m)])
        print("now:", rs[0], "expected:", d["expected"])
        bad = _compare_hash(d["expected"], rs[0])
        if bad:
            ctx.fail(obj["key"], obj["what"], d)
    elif kind == "murmur3":
        _mm_check(ctx, bytes.fromhex(d["data"]), int(d["seed"]), d["expected"])
    elif kind == "bloom":
        rec = {"size": d["size"], "nfuncs": d["nfuncs"], "tweak": bdrv.int_to_limbs(int(d["tweak"])), "ops": d["ops"],
               "outs": [{"bits": d["expected_bits"], "fb": d["expected_nonzero_bytes"]}] * len(d["ops"])}
        # only the last call carries an expectation
        size, nfuncs, tweak = d["size"], d["nfuncs"], int(d["tweak"])
        projs = bdrv.run_history(size, nfuncs, tweak, d["ops"], [_probes(size, d["expected_bits"])] * len(d["ops"]))
        p = projs[-1]
        print("now:", {"exc": p["exc"]} if "exc" in p else bdrv.sparse(p["fb"])[:20], "expected:", d["expected_nonzero_bytes"][:20])
        if "exc" in p or p["fb"] != _expand(size, d["expected_nonzero_bytes"]) or any(v != (q in set(d["expected_bits"])) for q, v in p["cb"].items()):
            ctx.fail(obj["key"], obj["what"], d)
    else:
        print("(trace-level finding: rerun ./check C19 to validate the recorded trace with TLC)")
        print(json.dumps(d)[:2000])
        ctx.fail(obj["key"], obj["what"], d)
