"""C06 - validation is tamper-evident: signatures bind exactly what their hash type commits; an
unknown spent output is never valid; repeated validation on the same object = a fresh object.

1. TLC model-checks spec/TxValidate.tla: the commitment table (which single-field changes an input
   of each hash type / signature version is sensitive to) against the view-based verdict, "unknown
   spent output never valid", "what Validate reports is the verdict of the current fields"; and a
   deviant validator with a sighash cache keyed by hash type must VIOLATE the last lemma.
2. spec -> code: TLC prints histories of mutations with the verdict of every input after each step;
   each history is applied to a real signed transaction (puzzle kinds per signature version, BTC and
   fork-id BCH); after every step three things must agree: the specification, is_solution_ok /
   bad_solution_count on the long-lived mutated object, and the same calls on a fresh
   Tx.from_bin(tx.as_bin()) given the same spent outputs.
3. code -> spec: seeded random long histories on larger transactions (and on the signed
   transactions the repository's own signing tests produce) are logged and validated by TLC against
   Trace_TxValidate.
"""
from __future__ import annotations

import json
import os
import random
import tempfile

from ..ctx import MachineryError
from ..drv import signing as drv
from ..par import NPROC


def coin_for(S):
    return "BCH" if "forkid" in S else "BTC"


def _case_key(r):
    return json.dumps([r["nin"], r["nout"], r["H"], r["S"], r["K"]])


def _mkey(x):
    return "%s/%s/%s" % (x["m"], x["a"], x["b"])


def _want(rec, j, resolved=None):
    """the specification's verdicts after step j as booleans: "T" / "F" from TxValidate; "vs" = the commitments
    hold but the unlocking data was re-encoded / extended: taken from VerifyScript (resolved: pos -> bool)"""
    w = rec["vds"][j]
    v = []
    for p, x in enumerate(w["v"]):
        if x == "vs":
            v.append(resolved[p])
        else:
            v.append(x == "T" or x is True)
    return {"v": v, "bad": sum(1 for b in v if not b)}


def _judge(rec, j, got, resolved=None):
    """compare the API's verdicts after step j with the specification's"""
    want = _want(rec, j, resolved)
    x = rec["acts"][j]
    fails = []
    base = "mut=%s" % x["m"]
    detail = {"case": {k: rec[k] for k in ("nin", "nout", "H", "S", "K")}, "acts": rec["acts"][:j + 1],
              "spec": want, "got": {k: v for k, v in got.items() if k != "tb"}}
    if "exc" in got:
        fails.append(("C06|validate|exception=%s|%s" % (got["exc"].split(":")[0], base),
                      "validation raised %s after %s" % (got["exc"], [_mkey(a) for a in rec["acts"][:j + 1]]), detail))
        return fails
    for name in ("long", "fresh", "again"):
        if got[name] != want["v"]:
            i = [p for p in range(len(want["v"])) if p >= len(got[name]) or got[name][p] != want["v"][p]][0]
            fails.append(("C06|%s|%s|expected=%s|got=%s" % (
                {"long": "long-lived-object", "fresh": "fresh-object", "again": "second-validation"}[name], base,
                want["v"][i], got[name][i] if i < len(got[name]) else None),
                "after %s input %d: specification %s, %s object reports %s (case %s)" % (
                    [_mkey(a) for a in rec["acts"][:j + 1]], i, want["v"][i], name, got[name], detail["case"]), detail))
            break
    if "checker" in got:
        for i, v in enumerate(got["checker"]):
            if v is not None and v != want["v"][i]:
                fails.append(("C06|checker-contexts-prepared-first|%s|expected=%s|got=%s" % (base, want["v"][i], v),
                              "after %s input %d: specification %s; one SolutionChecker, all contexts prepared first, then checked: %s" % (
                                  [_mkey(a) for a in rec["acts"][:j + 1]], i, want["v"][i], got["checker"]), detail))
                break
    for name in ("long_bad", "fresh_bad"):
        if got[name] != want["bad"]:
            fails.append(("C06|bad_solution_count|%s|%s" % (name, base),
                          "bad_solution_count() = %s, specification %s after %s" % (got[name], want["bad"], [_mkey(a) for a in rec["acts"][:j + 1]]), detail))
    return fails


def _replay_chunk(recs):
    """recs: histories of one case in depth-first order"""
    fails = []
    pend = []
    stats = {"steps": 0, "judged": 0, "classes": set()}
    stack = []
    cur = None
    base = None
    for rec in recs:
        ck = _case_key(rec)
        if ck != cur:
            cur = ck
            stack = []
            base = drv.TxUnderTest(coin_for(rec["S"]), rec["K"], rec["H"], rec["nout"])
            v0 = base.verdicts()
            if v0.get("long") != [True] * rec["nin"] or v0.get("fresh") != [True] * rec["nin"]:
                fails.append(("C06|setup|signed-transaction-invalid", "the freshly signed transaction does not validate: %s" % v0,
                              {"case": ck, "got": v0}))
                continue
        keys = [_mkey(a) for a in rec["acts"]]
        L = 0
        while L < len(stack) and L < len(keys) and stack[L][0] == keys[L]:
            L += 1
        del stack[L:]
        for j in range(L, len(keys)):
            t = (stack[-1][1] if stack else base).clone()
            exc = None
            try:
                t.apply(rec["acts"][j])
                got = t.verdicts()
            except drv.NotInjective as e:
                raise MachineryError("concretization of %s is not faithful: %s" % (_case_key(rec), e))
            except Exception as e:  # noqa
                got = {"exc": "%s: %s" % (type(e).__name__, e)}
            stack.append((keys[j], t, got))
            stats["steps"] += 1
        j = len(keys) - 1
        vs = [p for p, x in enumerate(rec["vds"][j]["v"]) if x == "vs"]
        if vs and "exc" not in stack[j][2]:
            # verdict delegated to the consensus specification: hand the concrete spends to the main process
            pend.append(({k: rec[k] for k in ("nin", "nout", "H", "S", "K", "acts", "vds")}, j, stack[j][2],
                         {p: stack[j][1].spend_case(p) for p in vs}))
        else:
            fails += _judge(rec, j, stack[j][2])
        stats["judged"] += 1
        x = rec["acts"][j]
        stats["classes"].add((tuple(rec["S"]), tuple(rec["H"]), tuple(rec["K"]), x["m"], json.dumps(rec["vds"][j]["v"])))
    return fails, stats, pend


def _vs_sig_oracle(c, sig, key, code, sv):
    """does this signature verify under this key for the script code / signature version the interpreter
    specification asks about, in the transaction the case carries (reference ECDSA of vf.drv.script)"""
    from ..drv import script as SC
    spend, idx = SC.spend_tx_of(c)
    return SC.sig_oracle_tx(sig, key, code, sv, spend, idx)


def resolve_delegated(ctx, pend):
    """run the delegated spends through VerifyScript.tla (MC_ScriptRun) and judge the pending steps"""
    from ..scriptrun import spec_run
    uniq = {}
    for rec, j, got, cases in pend:
        for p, cs in cases.items():
            k = json.dumps(cs["tx"], sort_keys=True)
            uniq.setdefault(k, cs)
    keys = sorted(uniq)
    res = spec_run(ctx, [uniq[k] for k in keys], _vs_sig_oracle, label="C06 unlocking-data mutations")
    verdict = {}
    for k, r in zip(keys, res):
        if r["status"] not in ("ok", "fail"):
            raise MachineryError("VerifyScript gave no verdict for a delegated spend: %s" % (r,))
        verdict[k] = r["status"] == "ok"
    fails = []
    nvs = {"ok": 0, "fail": 0}
    for rec, j, got, cases in pend:
        resolved = {p: verdict[json.dumps(cs["tx"], sort_keys=True)] for p, cs in cases.items()}
        for b in resolved.values():
            nvs["ok" if b else "fail"] += 1
        fails += _judge(rec, j, got, resolved)
    return fails, len(keys), nvs


def replay_records(records, procs=NPROC, ctx=None):
    import multiprocessing as mp
    bycase = {}
    for r in records:
        bycase.setdefault(_case_key(r) + "|" + str(r.get("walk")), []).append(r)
    groups = {}
    for ck, rs in bycase.items():
        if len(rs) <= 400:
            groups[ck] = rs
        else:                      # a big case: one chunk per first mutation
            for r in rs:
                groups.setdefault(ck + "|" + _mkey(r["acts"][0]), []).append(r)
    chunks = []
    for k in sorted(groups):
        g = groups[k]
        g.sort(key=lambda r: [_mkey(a) for a in r["acts"]])
        chunks.append(g)
    chunks.sort(key=lambda g: -len(g))
    if procs > 1 and len(chunks) > 1:
        with mp.get_context("fork").Pool(procs) as pool:
            res = pool.map(_replay_chunk, chunks, chunksize=max(1, len(chunks) // (procs * 6)))
    else:
        res = [_replay_chunk(c) for c in chunks]
    fails = []
    tot = {"steps": 0, "judged": 0, "classes": set(), "delegated": 0}
    pend = []
    for f, st, pd in res:
        fails += f
        pend += pd
        tot["steps"] += st["steps"]
        tot["judged"] += st["judged"]
        tot["classes"] |= st["classes"]
    if pend:
        if ctx is None:
            raise MachineryError("delegated verdicts need the TLC context")
        f2, n, nvs = resolve_delegated(ctx, pend)
        fails += f2
        tot["delegated"] = n
        tot["vs"] = nvs
    return fails, tot


# ---------------------------------------------------------------- traces (code -> spec)

MUT_WEIGHTS = [("ver", 2), ("lock", 2), ("oph", 2), ("opi", 2), ("seq", 3), ("spent_amt", 3), ("spent_spk", 2), ("out_amt", 3),
               ("out_spk", 3), ("ins_insert", 1), ("ins_remove", 1), ("ins_swap", 2), ("outs_insert", 1), ("outs_remove", 1),
               ("outs_swap", 2), ("unl_swap", 1), ("forget", 1), ("revert", 3)]


class _Abs(object):
    """the abstract bookkeeping the recorder needs to GENERATE enabled mutations (token values of the
    current state); it never computes a verdict"""

    def __init__(self, nin, nout, nops):
        self.nops = nops
        self.ver = 0
        self.lock = 0
        self.ins = [{"id": k + 1, "oph": 0, "opi": 0, "seq": 0, "amt": 0, "spk": k + 1, "known": True} for k in range(nin)]
        self.outs = [{"amt": j + 1, "spk": j + 1} for j in range(nout)]
        self.orig = json.dumps([self.ver, self.lock, self.ins, self.outs])
        self.inserts = 0

    def candidates(self, rnd, name, max_inserts):
        x = self._candidate(rnd, name, max_inserts)
        if x is None:
            return None
        # (TxValidate.tla: no history leads to a transaction that looks like a coinbase)
        ins = json.loads(json.dumps(self.ins))
        if x["m"] in ("oph", "opi"):
            ins[x["a"] - 1][x["m"]] = x["b"]
        elif x["m"] == "ins_remove":
            del ins[x["a"] - 1]
        if len(ins) == 1 and ins[0]["oph"] == 2 and ins[0]["opi"] == 2:
            return None
        return x

    def short(self):
        return any(r.get("cut") for r in self.ins)

    def _candidate(self, rnd, name, max_inserts):
        n, m = len(self.ins), len(self.outs)
        if name in ("ins_insert", "ins_remove", "ins_swap") and self.short():
            return None
        P = rnd.randint(1, n)
        if name == "ver":
            return {"m": name, "a": 0, "b": 1 - self.ver}
        if name == "lock":
            return {"m": name, "a": 0, "b": 1 - self.lock}
        if name == "oph":
            return {"m": name, "a": P, "b": rnd.choice([v for v in (0, 1, 1, 2) if v != self.ins[P - 1]["oph"]])}
        if name == "opi":
            return {"m": name, "a": P, "b": rnd.choice([v for v in (0, 1, 1, 2) if v != self.ins[P - 1]["opi"]])}
        if name == "seq":
            return {"m": name, "a": P, "b": 1 - self.ins[P - 1][name]}
        if name == "spent_amt":
            return {"m": name, "a": P, "b": 1 - self.ins[P - 1]["amt"]} if self.ins[P - 1]["known"] else None
        if name == "spent_spk":
            r = self.ins[P - 1]
            if r["id"] == 0 or not r["known"]:
                return None
            toks = [r["id"], 10 + r["id"]] + ([30 + r["id"]] if self.nops[r["id"] - 1] else [])
            return {"m": name, "a": P, "b": rnd.choice([v for v in toks if v != r["spk"]])}
        if name in ("out_amt", "out_spk"):
            if m == 0:
                return None
            J = rnd.randint(1, m)
            f = "amt" if name == "out_amt" else "spk"
            return {"m": name, "a": J, "b": rnd.choice([v for v in (1, 2, 3) if v != self.outs[J - 1][f]])}
        if name == "ins_insert":
            if self.inserts >= max_inserts:
                return None
            return {"m": name, "a": rnd.choice([1, n + 1]), "b": 0}
        if name == "ins_remove":
            return {"m": name, "a": P, "b": 0} if n > 1 else None
        if name in ("ins_swap", "unl_swap"):
            if n < 2:
                return None
            a, b = sorted(rnd.sample(range(1, n + 1), 2))
            return {"m": name, "a": a, "b": b}
        if name == "outs_insert":
            if self.inserts >= max_inserts:
                return None
            return {"m": name, "a": rnd.choice([1, m + 1]), "b": 3}
        if name == "outs_remove":
            return {"m": name, "a": rnd.randint(1, m), "b": 0} if m else None
        if name == "outs_swap":
            if m < 2:
                return None
            a, b = sorted(rnd.sample(range(1, m + 1), 2))
            return {"m": name, "a": a, "b": b}
        if name == "forget":
            if not self.ins[P - 1]["known"]:
                return None
            return {"m": name, "a": P, "b": 1 if (not self.short() and rnd.random() < 0.4) else 0}
        if name == "revert":
            return {"m": name, "a": 0, "b": 0} if json.dumps([self.ver, self.lock, self.ins, self.outs]) != self.orig else None
        return None

    def apply(self, x):
        m, a, b = x["m"], x["a"], x["b"]
        if m == "ver":
            self.ver = b
        elif m == "lock":
            self.lock = b
        elif m in ("oph", "opi", "seq"):
            self.ins[a - 1][m] = b
        elif m == "spent_amt":
            self.ins[a - 1]["amt"] = b
        elif m == "spent_spk":
            self.ins[a - 1]["spk"] = b
        elif m == "out_amt":
            self.outs[a - 1]["amt"] = b
        elif m == "out_spk":
            self.outs[a - 1]["spk"] = b
        elif m == "ins_insert":
            self.ins.insert(a - 1, {"id": 0, "oph": 0, "opi": 0, "seq": 0, "amt": 0, "spk": 20, "known": True})
            self.inserts += 1
        elif m == "ins_remove":
            del self.ins[a - 1]
        elif m == "ins_swap":
            self.ins[a - 1], self.ins[b - 1] = self.ins[b - 1], self.ins[a - 1]
        elif m == "outs_insert":
            self.outs.insert(a - 1, {"amt": b, "spk": b})
            self.inserts += 1
        elif m == "outs_remove":
            del self.outs[a - 1]
        elif m == "outs_swap":
            self.outs[a - 1], self.outs[b - 1] = self.outs[b - 1], self.outs[a - 1]
        elif m == "forget":
            for r in (self.ins[a - 1:] if b == 1 else [self.ins[a - 1]]):
                r["known"] = False
                if b == 1:
                    r["cut"] = True
        elif m == "revert":
            self.ver, self.lock, self.ins, self.outs = json.loads(self.orig)
            self.inserts = 0


def _record_random(args):
    seed, count, big = args
    rnd = random.Random(seed)
    names = [n for n, w in MUT_WEIGHTS for _ in range(w)]
    out = []
    given = []
    if count == "repo":
        # the signed transactions the repository's own signing tests produce
        from ..ctx import REPO
        from .c05 import REPO_TEST_MODULES, policy_names_for
        for coin, tx, kinds, hts in drv.repo_signed_txs(REPO, REPO_TEST_MODULES, policy_names_for):
            outs = [(o.coin_value, bytes(o.script)) for o in tx.txs_out]
            if len(set(outs)) != len(outs) or len(outs) > 3 or len(tx.txs_in) > 4 or coin != "BTC":
                continue        # (the token model gives distinct outputs distinct contents)
            given.append((tx, kinds, hts))
        count = len(given)
    for t in range(count):
        if given:
            tx, K, H = given[t]
            nin, nout = len(tx.txs_in), len(tx.txs_out)
            S = ["witness" if kd.split(":")[0] in drv.WITNESS_KINDS else "base" for kd in K]
            try:
                tut = drv.TxUnderTest("BTC", K, H, nout, tx=tx)
            except drv.NotInjective:
                continue            # e.g. two outputs paying the same amount: the token model cannot carry it
        else:
            forkid = rnd.random() < 0.25
            nin = rnd.randint(1, 4 if big else 3)
            nout = rnd.randint(0 if nin > 1 else 1, 3)
            S = ["forkid" if forkid else rnd.choice(["base", "witness"]) for _ in range(nin)]
            H = [rnd.choice([1, 2, 3, 129, 130, 131]) for _ in range(nin)]
            K = [rnd.choice(drv.SV_KINDS[s]) for s in S]
            tut = drv.TxUnderTest(coin_for(S), K, H, nout)
        nops = [kd in drv.NOPABLE for kd in K]
        src = "repo-tests" if given else "random"
        ab = _Abs(nin, nout, nops)
        ev = []
        v0 = tut.verdicts()
        for _ in range(rnd.randint(4, 24 if big else 12)):
            x = None
            for _try in range(20):
                x = ab.candidates(rnd, rnd.choice(names), 2)
                if x is not None:
                    break
            if x is None:
                break
            ab.apply(x)
            try:
                tut.apply(x)
                got = tut.verdicts()
            except drv.NotInjective:
                ev = None           # never log a "mutation" that changed nothing
                break
            except Exception as e:  # noqa
                got = {"exc": "%s: %s" % (type(e).__name__, e)}
            e = {"m": x["m"], "a": x["a"], "b": x["b"], "ok": "exc" not in got}
            if e["ok"]:
                e.update({"checker": [True if v is None else v for v in got["checker"]],
                          "known": [v is not None for v in got["checker"]],
                          "long": got["long"], "fresh": got["fresh"], "again": got["again"],
                          "long_bad": got["long_bad"], "fresh_bad": got["fresh_bad"]})
            else:
                n = len(tut.tx.txs_in)
                e.update({"checker": [False] * n, "known": [True] * n,
                          "long": [False] * n, "fresh": [False] * n, "again": [False] * n, "long_bad": -1, "fresh_bad": -1,
                          "note": got["exc"]})
            ev.append(e)
        if ev is None:
            continue
        out.append({"nin": nin, "nout": nout, "H": H, "S": S, "K": K, "N": nops, "v0": v0.get("long"), "ev": ev, "src": src})
    return out


def validate_traces(ctx, traces):
    data = [{k: v for k, v in t.items() if k not in ("K", "src")} for t in traces]
    for t in data:
        t["ev"] = [{k: v for k, v in e.items() if k != "note"} for e in t["ev"]]
    fd, path = tempfile.mkstemp(prefix="vf-c06-traces-", suffix=".json")
    with os.fdopen(fd, "w") as f:
        json.dump(data, f)
    try:
        r = ctx.tlc("Trace_TxValidate", "Trace_TxValidate", workers=1, env={"TRACE_FILE": path}, count=False, timeout=1500)
    finally:
        os.unlink(path)
    rej = None
    stuck = {}
    for rec in r.records:
        if isinstance(rec, dict) and rec.get("k") == "rejected":
            if rec["n"] != len(traces):
                raise MachineryError("trace run saw %s traces, %d were sent" % (rec["n"], len(traces)))
            rej = sorted(int(x) - 1 for x in rec["ids"])
            stuck = {int(p[0]) - 1: int(p[1]) for p in rec.get("at", [])}
    if rej is None:
        raise MachineryError("trace run printed no verdict: %s" % r.raw_tail[-5:])
    return rej, stuck


def run(ctx):
    q = ctx.quick
    only = getattr(ctx, "only", None)

    def want(stage):
        return only is None or stage in only
    ctx.rule = ("model: every history of <= MaxSteps mutations / validations on the small cases of each cfg (TLC exhaustive); replay: "
                "every history TLC prints is applied to a real signed transaction and validated after every step on the long-lived and "
                "on a fresh object; distinct_nontrivial = distinct (signature versions, hash types, puzzle kinds, last mutation, "
                "verdict vector) classes")
    ctx.assumptions += ["ECDSA unforgeable, SHA-256 collision-free: equal committed views <=> the signature still verifies",
                        "the signed transactions are produced by pycoin's signer (C05) with its sighash code (C04)",
                        "TLC/SANY, CPython, OpenSSL via pycoin's native binding"]
    if want("model"):
        for cfg in (["MC_TxValidate_q"] if q else ["MC_TxValidate_q", "MC_TxValidate_m", "MC_TxValidate_t"]):
            ctx.tlc("MC_TxValidate", cfg, coverage=not q, timeout=3000, require_actions=() if q else ("MNext",))
        r = ctx.tlc("MC_TxValidate", "MC_TxValidate_cached", expect_ok=False, count=False, timeout=900)
        ctx.selftest("model_rejects_cache_keyed_by_hash_type", (not r.ok) and r.violated == "ReportedIsCurrent")

    if want("replay") or any(o.startswith("replay_") for o in (only or ())):
        plans = (["MC_TxReplay_one", "MC_TxReplay_u", "MC_TxReplay_q", "MC_TxReplay_walk_q"] if q else
                 ["MC_TxReplay_one", "MC_TxReplay_u", "MC_TxReplay_u2", "MC_TxReplay_t", "MC_TxReplay_deep", "MC_TxReplay_walk_t"])
        for cfg in plans:
            if only is not None and "replay" not in only and not any(o.startswith("replay_") and o[7:] in cfg for o in only):
                continue
            recs = []
            ctx.tlc("MC_TxValidate", cfg, on_record=lambda rec: recs.append(rec) if rec.get("k") == "hist" else None,
                    keep_records=False, timeout=3000)
            if not recs:
                raise MachineryError("no history printed by %s" % cfg)
            fails, tot = replay_records(recs, ctx=ctx)
            if tot["delegated"]:
                ctx.log("  %d distinct spends with re-encoded / extended unlocking data decided by VerifyScript.tla: %s" % (tot["delegated"], tot["vs"]))
                if tot["vs"]["ok"] == 0 or tot["vs"]["fail"] == 0:
                    raise MachineryError("vacuity: VerifyScript decided every delegated spend the same way: %s" % (tot["vs"],))
            ctx.log("replayed %d histories of %s: %d mutation steps executed and validated (long-lived + fresh object), %d disagreements" % (
                len(recs), cfg, tot["steps"], len(fails)))
            ctx.replayed += len(recs)
            ctx.case(None, tot["steps"])
            ctx.action("replay." + cfg, len(recs))
            for c in tot["classes"]:
                ctx.case(c, 0)
            ctx.sample({"history": recs[len(recs) // 2]})
            for key, what, detail in fails:
                ctx.fail(key, what, detail)
        # binding self-test: a corrupted expectation must be noticed
        rec = {"k": "hist", "nin": 1, "nout": 1, "H": [1], "S": ["witness"], "K": ["p2wpkh"], "walk": 1,
               "acts": [{"m": "spent_amt", "a": 1, "b": 1}], "vds": [{"v": [False], "bad": 1}]}
        f0, _ = replay_records([rec], procs=1)
        bad = json.loads(json.dumps(rec))
        bad["vds"][0] = {"v": [True], "bad": 0}
        f1, _ = replay_records([bad], procs=1)
        ctx.selftest("replay_rejects_corrupted_expectation", (not f0) and bool(f1))

    if want("traces"):
        import multiprocessing as mp
        nchunk = 16 if q else 64
        per = 10 if q else 30
        jobs = [(ctx.seed * 1000003 + 6000 + c, per, (not q) or c % 3 == 0) for c in range(nchunk)]
        jobs.append((ctx.seed * 1000003 + 5999, "repo", False))
        with mp.get_context("fork").Pool(NPROC) as pool:
            traces = [t for part in pool.map(_record_random, jobs, chunksize=1) for t in part]
        bad0 = [t for t in traces if t["v0"] != [True] * t["nin"]]
        for t in bad0:
            ctx.fail("C06|setup|signed-transaction-invalid", "freshly signed transaction does not validate: %s" % (t,), t)
        traces = [t for t in traces if t["v0"] == [True] * t["nin"]]
        rej, stuck = validate_traces(ctx, traces)
        ctx.traces += len(traces) - len(rej)
        nev = sum(len(t["ev"]) for t in traces)
        ctx.case(None, nev)
        ctx.action("trace.events", nev)
        nrepo = len([t for t in traces if t["src"] == "repo-tests"])
        ctx.extra["histories_on_repo_test_transactions"] = nrepo
        ctx.log("recorded %d seeded histories (%d events): %d on random signed transactions, %d on the signed transactions of the "
                "repository's signing tests; %d rejected by Trace_TxValidate" % (len(traces), nev, len(traces) - nrepo, nrepo, len(rej)))
        if nrepo < 20:
            raise MachineryError("only %d signed transactions harvested from the repository's tests" % nrepo)
        ctx.sample({"trace": traces[0]})
        for i in rej:
            t = traces[i]
            j = stuck.get(i, 0)
            e = t["ev"][min(j, len(t["ev"]) - 1)]
            ctx.fail("C06|trace|mut=%s|ok=%s" % (e["m"], e["ok"]),
                     "recorded mutate/validate history is not a behaviour of TxValidate.tla at event %d: case nin=%s nout=%s H=%s S=%s K=%s event=%s" % (
                         j, t["nin"], t["nout"], t["H"], t["S"], t["K"], e), {"trace": t, "event": j})
        good = [t for i, t in enumerate(traces) if i not in set(rej) and len(t["ev"]) >= 3]
        if good:
            g = good[0]
            b1 = json.loads(json.dumps(g))
            b1["ev"][1]["long"][0] = not b1["ev"][1]["long"][0]
            b2 = json.loads(json.dumps(g))
            b2["ev"][-1]["fresh_bad"] += 1
            r2, _ = validate_traces(ctx, [g, b1, b2])
            ctx.selftest("trace_rejects_corrupted_field", r2 == [1, 2])
    ctx.exhaustive = False


def replay(ctx, obj):
    """./check C06 --replay FILE: re-apply the recorded history to a freshly signed transaction"""
    d = obj.get("detail") or {}
    if "trace" in d:
        c = d["trace"]
        acts = [{"m": e["m"], "a": e["a"], "b": e["b"]} for e in c["ev"][:d["event"] + 1]]
    else:
        c = d["case"]
        acts = d["acts"]
    print("key:", obj["key"])
    print("case:", json.dumps({k: c[k] for k in ("nin", "nout", "H", "S", "K")}))
    t = drv.TxUnderTest(coin_for(c["S"]), c["K"], c["H"], c["nout"])
    print("signed:", t.verdicts())
    for x in acts:
        t.apply(x)
        got = t.verdicts()
        print(_mkey(x), "->", json.dumps({k: v for k, v in got.items() if k != "tb"}))
    print("specification:", json.dumps(d.get("spec")))
    print("transaction:", t.tx.as_hex())
    ctx.violations[obj["key"]] = "(replayed)"
