"""C18 - text parsing is total, faithful and keeps kinds apart.

1. Model: spec/ParseDispatch.tla (what every entry point of network.parse must make of a
   text, as a function of the text's structure and of the network's prefix record) is
   checked by TLC on synthetic tables (FaithfulOk, ApartOk, GridOk; a table with two kinds
   on one version byte must violate them) and evaluated over the REAL table.
2. spec -> code: TLC prints, for every network, a grid of text structures (every
   checksummed-Base58 role x payload shapes / contents at the boundaries, segwit texts, colon
   forms, numerals, pairs, SEC texts, scripts, junk) with the outcome of EVERY entry point;
   the harness builds the characters and calls pycoin under try/except: any exception
   violates totality, any other object / None violates the rule; every returned object is
   re-serialised with its own API and parsed again (faithfulness).  Hypothesis-generated
   unicode (derandomized) for totality.
3. code -> spec: seeded sessions - one text built from a real serialisation with mutations
   (length, prefix, content, checksum recomputed), one parseable_str object, every entry
   point - logged as (entry, structure of the text, projection of the result) and validated
   by TLC against Trace_Parse.tla.
"""
from __future__ import annotations

import json
import os
import random

from ..ctx import MachineryError
from ..drv import nets
from ..par import pmap, split, NPROC

CHECKED = ("p2pkh", "p2sh", "wif", "bip32_prv", "bip32_pub", "bip49_prv", "bip49_pub", "bip84_prv", "bip84_pub")
KEY_CATS = ("key", "bip32", "bip49", "bip84", "electrum")


_SIG_FIELDS = {"b58c": ("starts", "fits"), "seg": ("own", "ver", "len", "var"), "bech": ("own", "n", "var"), "colon": ("tag",), "num": ("w", "even", "len", "b0", "on", "se"),
               "pair": ("inrange", "on", "y"), "hexsec": ("own", "len", "on")}


def _cls_sig(cls):
    """compact, stable signature of the class label TLC printed for a text (the part findings are keyed by)"""
    parts = ["f=" + cls["f"]]
    for k in _SIG_FIELDS.get(cls["f"], ()):
        v = cls[k]
        if isinstance(v, list):
            v = "+".join(str(x) for x in sorted(v, key=str)) if not (v and isinstance(v[0], int)) else "".join(map(chr, v))
        parts.append("%s=%s" % (k, v))
    return ",".join(parts)


def _expected_summary(allowed, maynone):
    if not allowed:
        return "none"
    ks = sorted({("any" if o["r"] == "any" else (o["k"] + (":" + o["s"] if o["s"] else "") + (":prv" if o["p"] else ""))) for o in allowed})
    return "+".join(ks) + ("|none" if maynone else "")


def _got_summary(tag, val):
    if tag == "exc":
        return "exc:" + val
    if val is None:
        return "none"
    cat = nets.category(val)
    if cat == "contract":
        return "contract:" + str(val.info().get("type"))
    if cat in KEY_CATS:
        return cat + (":prv" if val.secret_exponent() is not None else ":pub")
    return cat


def _seed_candidates(t, cands):
    """a BIP32 master node offered as the object OSeed(ms) stands for (evaluates the HMAC term)"""
    out = list(cands)
    if t["f"] == "colon":
        for ms in (t["d"], t["d2"]):
            body = list(nets.master_body(ms))
            for c in cands:
                if c["k"] == "bip32" and c["p"] and c["d"] == body:
                    out.append(dict(c, k="seed32", d=list(ms)))
        if t["a"] == [69] and t["w"] == "hex" and len(t["d"]) == 16:
            # an electrum wallet made from a seed is offered as OElectrum("seed", seed) when its master key is the stretched seed
            for c in cands:
                if c["k"] == "electrum" and c["s"] == "prv" and c["d"] == list(nets.electrum_stretch(t["d"])):
                    out.append(dict(c, s="seed", d=list(t["d"])))
    return out


def _matches(o, cand):
    """does candidate projection cand equal the expected outcome record o (as printed by TLC)?"""
    if o["k"] == "contract":
        # o.toks is the script with data id 1 = the hash; compare what the contract denotes
        return cand["k"] == "contract" and cand["s"] == o["s"] and cand["d"] == o["d"]
    return all(cand[f] == o[f] for f in ("r", "k", "p", "d", "d2", "b", "s", "toks"))


def _fam(e):
    """entry point family for finding keys: the six extended-key parsers share their code"""
    if e[:5] in ("bip32", "bip49", "bip84") and e[5:] in ("_prv", "_pub"):
        return "ext" + e[5:]
    return e


def _closure(dispatch, e):
    out = []
    todo = list(dispatch.get(e, []))
    while todo:
        c = todo.pop()
        if c not in out:
            out.append(c)
            todo += dispatch.get(c, [])
    return out


def _case_chunk(recs):
    fails = []
    nev = 0
    classes = set()
    for r in recs:
        N = nets.net(r["n"])
        t = r["t"]
        text = nets.text_of(t)
        if text is None:
            continue
        if t["f"] not in ("junk", "b58bad", "segbad", "pair") and not (t["f"] == "hexsec" and t["w"] == "nothex"):
            # R2: the structure the independent decoders read from the characters is the structure TLC printed
            t2 = nets.structure_of(text)
            if t2 != t:
                return ("machinery", "text %r: structure %s printed by TLC, %s read back" % (text, t, t2))
        if t["f"] in ("b58c", "seg", "bech", "colon", "pair", "hexsec") and all(c in "0123456789abcdefABCDEF" for c in text) and len(text) % 2 == 0:
            continue     # (a Base58 word that happens to be hex would also be a script push: not in the rule's scope)
        sig = _cls_sig(r["cls"])
        ans = {}
        for e, o in r["ans"]:
            ans.setdefault(e, []).append(o)
        objs = {}      # outcome json -> the pycoin object that matched it
        failed = {}    # entry -> got summary (a catch-all that merely forwards a constituent's failure is not reported again)
        for e in r["entries"]:
            allowed = ans.get(e, [])
            maynone = e in r["maynone"] or not allowed
            tag, val = nets.call(nets.entry(N, e), text)
            nev += 1
            if any(o["r"] == "any" for o in allowed):
                ok = tag == "ok"
            elif tag != "ok":
                ok = False
            else:
                try:
                    proj = nets.project(val)
                except Exception as ex:  # noqa: BLE001  the object came back but its own accessors raise: not a usable answer
                    tag, val, proj = "exc", "returned an object whose accessors raise %s" % type(ex).__name__, None
                    ok = False
            if tag == "ok" and not any(o["r"] == "any" for o in allowed):
                cands = _seed_candidates(t, proj)
                if val is None:
                    ok = maynone
                else:
                    ok = False
                    for o in allowed:
                        if any(_matches(o, c) for c in cands):
                            ok = True
                            objs.setdefault(json.dumps(o, sort_keys=True), val)
                    if ok and r["t"]["f"] == "script" and allowed and allowed[0]["k"] == "script":
                        ok = val.script() == nets.script_bytes(t["toks"])
            if not ok:
                gs = _got_summary(tag, val)
                failed[e] = gs
                if any(failed.get(c) == gs for c in _closure(r["dispatch"], e)):
                    continue
                esig = sig
                if t["f"] == "b58c" and e in CHECKED:
                    esig = "f=b58c,own-version=%s,own-length=%s" % (e in r["cls"]["starts"], e in r["cls"]["fits"])
                fails.append({"key": "C18|%s|%s|expected=%s|got=%s" % (_fam(e), esig, _expected_summary(allowed, e in r["maynone"]), _got_summary(tag, val)),
                              "what": "%s.parse%s(%r): the rules give %s, pycoin %s" % (
                                  r["n"], "" if e == "parse" else "." + e, text, _expected_summary(allowed, e in r["maynone"]),
                                  ("raises " + val) if tag == "exc" else ("returns " + repr(val))),
                              "n": r["n"], "entry": e, "text": text, "t": t})
        if r["ans"]:
            classes.add((r["n"], sig))
        # facts about the TABLE the rules expose (on synthetic tables they are invariants of the model)
        if not r["apart"]:
            fails.append({"key": "C18|table|two-kinds-answer|N=%s|%s" % (r["n"], "+".join(sorted(r["answering"]))),
                          "what": "on %s the text %r is a valid text of the checksummed kinds %s" % (r["n"], text, r["answering"]), "n": r["n"], "text": text})
        if not r["faithful"]:
            fails.append({"key": "C18|table|not-faithful|N=%s|%s" % (r["n"], sig),
                          "what": "on %s an object parsed from %r re-serialises to a text that the rules parse to something else (kinds of the table are not apart)" % (r["n"], text),
                          "n": r["n"], "text": text})
        # ---- faithfulness: the rules' re-serialisation is pycoin's, and parses back to the same object
        for rs in r["reser"]:
            val = objs.get(json.dumps(rs["o"], sort_keys=True))
            if val is None:
                continue
            want_text = nets.text_of(rs["t"])
            tag, real_text = nets.call(val.disassemble if rs["o"]["k"] == "script" else (lambda: nets.canonical_text(val)))
            nev += 1
            okind = rs["o"]["k"] + (":" + rs["o"]["s"] if rs["o"]["s"] else "") + (":prv" if rs["o"]["p"] else ":pub" if rs["o"]["k"] in KEY_CATS else "")
            if tag != "ok" or real_text != want_text:
                fails.append({"key": "C18|reserialise|obj=%s|%s" % (okind, "exc:" + str(real_text) if tag != "ok" else "text-differs"),
                              "what": "object parsed from %r on %s re-serialises to %r; the rules give %r" % (text, r["n"], real_text, want_text),
                              "n": r["n"], "text": text})
                continue
            for e in rs["by"]:
                tag, back = nets.call(nets.entry(N, e), real_text)
                nev += 1
                good = tag == "ok" and back is not None and any(_matches(rs["o"], c) for c in nets.project(back))
                if not good:
                    fails.append({"key": "C18|faithful|obj=%s|reparse=%s|got=%s" % (okind, e, _got_summary(tag, back)),
                                  "what": "%s: object parsed from %r re-serialises to %r, and parse%s of that gives %s instead of an equal object" % (
                                      r["n"], text, real_text, "" if e == "parse" else "." + e, ("raises " + str(back)) if tag == "exc" else repr(back)),
                                  "n": r["n"], "text": text, "text2": real_text})
        # ---- ... through EVERY accessor by which the object states (exactly) or prints its text
        for rs in r["reser"]:
            val = objs.get(json.dumps(rs["o"], sort_keys=True))
            if val is None or rs["o"]["k"] == "script":
                continue
            want_text = nets.text_of(rs["t"])
            okind = rs["o"]["k"] + (":" + rs["o"]["s"] if rs["o"]["s"] else "") + (":prv" if rs["o"]["p"] else ":pub" if rs["o"]["k"] in KEY_CATS else "")
            shown = [want_text] + [nets.ev_public_half(h) for h in rs["half"]]
            for acc, kw, tag, got in nets.stated_texts(val, rs["o"]["p"], rs["via"]):
                nev += 1
                # (an accessor that is not told which half to state may state the public one)
                if tag != "ok" or (got != want_text if kw or not rs["half"] else got not in shown):
                    fails.append({"key": "C18|reserialise|obj=%s|via=%s|%s" % (okind, acc, "exc:" + str(got) if tag != "ok" else "text-differs"),
                                  "what": "object parsed from %r on %s states its text through %s() as %r; the rules give %r" % (text, r["n"], acc, got, want_text),
                                  "n": r["n"], "text": text, "accessor": acc})
            for acc, tok in nets.printed_texts(val, rs["printers"], (rs["t"]["f"],)):
                nev += 1
                if tok not in shown:
                    fails.append({"key": "C18|reserialise|obj=%s|via=%s|%s" % (okind, acc, "exc" if tok is None else "prints-other-text"),
                                  "what": "object parsed from %r on %s prints %r in its %s; its text by the rules is %r" % (text, r["n"], tok, acc, want_text),
                                  "n": r["n"], "text": text, "accessor": acc})
        for rs in r["reparse"]:
            # seeds and electrum wallets: their own text API, parsed again, must give the same key material
            val = None
            for e in r["entries"]:
                pass
            val = objs.get(json.dumps(rs["o"], sort_keys=True))
            if val is None:
                continue
            okind = rs["o"]["k"] + (":" + rs["o"]["s"] if rs["o"]["s"] else "")
            tag, real_text = nets.call(nets.canonical_text, val)
            nev += 1
            if tag != "ok" or not isinstance(real_text, str):
                fails.append({"key": "C18|reserialise|obj=%s|%s" % (okind, "exc:" + str(real_text) if tag != "ok" else "no-text"),
                              "what": "object parsed from %r on %s has no text form: %r" % (text, r["n"], real_text), "n": r["n"], "text": text})
                continue
            by = rs["by"] if rs["o"]["k"] == "seed32" else (["parse"] if rs["o"]["p"] else ["public_key"])
            for e in by:
                tag, back = nets.call(nets.entry(N, e), real_text)
                nev += 1
                if rs["o"]["k"] == "seed32":
                    good = tag == "ok" and back is not None and nets.project(back) == nets.project(val)
                else:
                    good = tag == "ok" and back is not None and nets.category(back) in KEY_CATS and nets.material(back) == nets.material(val)
                if not good:
                    fails.append({"key": "C18|faithful|obj=%s|reparse=%s|got=%s" % (okind, e, _got_summary(tag, back)),
                                  "what": "%s: object parsed from %r re-serialises to %r, and parse%s of that gives %s instead of an equal object" % (
                                      r["n"], text, real_text, "" if e == "parse" else "." + e, ("raises " + str(back)) if tag == "exc" else repr(back)),
                                  "n": r["n"], "text": text, "text2": real_text})
    return ("ok", nev, fails, sorted(classes))


def _chunk_with_entries(args):
    recs, entries, dispatch = args
    for r in recs:
        r["entries"] = entries
        r["dispatch"] = dispatch
    return _case_chunk(recs)


# ---------------------------------------------------------------- hypothesis: totality on arbitrary unicode
def _totality_chunk(args):
    seed_idx, n_examples, entries, syms = args
    from hypothesis import given, settings, strategies as st, HealthCheck
    alph = st.sampled_from(list(nets.B58 + "0OIl:/,_[]' \t-+xXEHP.") + ["\udc80", "é", "\U0001F600", "even", "odd", "OP_DUP", "SEC", "bc1", "tb1", "1q"])
    strat = st.one_of(
        st.text(max_size=40),
        st.text(alphabet=st.characters(min_codepoint=0, max_codepoint=0x10FFFF), max_size=30),
        st.lists(alph, max_size=60).map("".join),
        st.tuples(st.sampled_from(["H:", "P:", "E:", "BTCSEC:", "DOGESEC", ":", "0x", ""]), st.text(alphabet="0123456789abcdefABCDEF", max_size=140)).map("".join),
        st.tuples(st.sampled_from(["bc", "tb", "ltc", "grs", "a", "zz", "?", "bcrt", "dgb"]), st.lists(st.integers(min_value=0, max_value=31), max_size=9),
                  st.sampled_from(["bech32", "bech32m"]), st.booleans()).map(lambda x: nets.bech32_text(x[0], x[1], x[2]).upper() if x[3] else nets.bech32_text(x[0], x[1], x[2])),
        st.tuples(st.integers(min_value=-5, max_value=2**260), st.sampled_from(["/", ",", " / ", ""]), st.sampled_from(["even", "odd", "1", "", "0"])).map(
            lambda x: "%d%s%s" % x),
    )
    fails = []
    count = [0]
    nn = [nets.net(s) for s in syms]

    @settings(derandomize=True, max_examples=n_examples, database=None, deadline=None,
              suppress_health_check=list(HealthCheck))
    @given(strat, st.integers(min_value=seed_idx, max_value=seed_idx))
    def run(s, _salt):
        for N, sym in zip(nn, syms):
            for e in entries:
                tag, val = nets.call(nets.entry(N, e), s)
                count[0] += 1
                if tag != "ok":
                    cls = nets.structure_of(s)["f"]
                    fails.append({"key": "C18|totality|%s|f=%s|exc=%s" % (_fam(e), cls, val),
                                  "what": "%s.parse%s(%r) raises %s" % (sym, "" if e == "parse" else "." + e, s, val), "text": s, "n": sym})
    run()
    return count[0], fails


# ---------------------------------------------------------------- traces
def _real_texts(rnd, sym, N, tbl):
    """texts pycoin itself serialises (then mutated by the caller)"""
    out = []
    se = rnd.choice([1, 2, nets.N - 1, rnd.randrange(1, nets.N)])
    k = N.keys.private(se, is_compressed=rnd.random() < 0.5)
    out.append(("wif", k.wif()))
    out.append(("sectext", k.public_copy().as_text()))
    out.append(("sechex", k.sec().hex()))
    if tbl["p2pkh"]:
        out.append(("address", k.address()))
    pt = k.public_pair()
    out.append(("pair", "%d/%d" % pt))
    out.append(("pair", "%d,%s" % (pt[0], "odd" if pt[1] & 1 else "even")))
    out.append(("num", "%d" % se))
    out.append(("num", "%x" % se))
    ms = bytes(rnd.randrange(256) for _ in range(16))
    b = N.keys.bip32_seed(ms)
    if tbl["b32prv"]:
        out.append(("xprv", b.hwif(as_private=True)))
        out.append(("xpub", b.hwif()))
        out.append(("xprv", b.subkey(1).hwif(as_private=True)))
    out.append(("seed", "H:" + ms.hex()))
    out.append(("seed", "P:" + "".join(rnd.choice("abc xyz:") for _ in range(5))))
    out.append(("electrum", "E:" + (se.to_bytes(32, "big")).hex()))
    out.append(("electrum", "E:" + pt[0].to_bytes(32, "big").hex() + pt[1].to_bytes(32, "big").hex()))
    h = bytes(rnd.randrange(256) for _ in range(32))
    for nm, f, hh in (("address", "for_p2sh", h[:20]), ("address", "for_p2pkh_wit", h[:20]), ("address", "for_p2sh_wit", h), ("address", "for_p2tr", h)):
        a = getattr(N.address, f)(hh)
        if a:
            out.append((nm, a))
    toks = rnd.choice([[["op", "DUP"], ["op", "HASH160"], ["push", 20, "min", 3], ["op", "EQUALVERIFY"], ["op", "CHECKSIG"]],
                       [["op", "HASH160"], ["push", 20, "min", 2], ["op", "EQUAL"]],
                       [["op", "1"], ["push", 33, "min", 2], ["op", "1"], ["op", "CHECKMULTISIG"]],
                       [["op", "RETURN"], ["push", 19, "min", 2]]])
    out.append(("script", N.script.disassemble(nets.script_bytes(toks))))
    return out


def _mutate(rnd, kind, text, sym, tbl, alltbl):
    """one mutation of a real serialisation; Base58Check / Bech32 checksums are recomputed"""
    r = rnd.random()
    if r < 0.3:
        return text
    p = nets.b58check_dec(text)
    if p is not None:
        m = rnd.random()
        if m < 0.3:       # length
            dl = rnd.choice([-1, 1, -2, 2, -33, 32])
            p = p[:dl] if dl < 0 else p + bytes(rnd.randrange(256) for _ in range(dl))
        elif m < 0.55:    # version bytes of another kind / network
            t2 = rnd.choice([tbl, tbl, rnd.choice(alltbl)])
            pf = rnd.choice([x for x in (t2["p2pkh"], t2["p2sh"], t2["wif"], t2["b32prv"], t2["b32pub"], t2["b84prv"]) if x])
            old = max((x for x in (tbl["p2pkh"], tbl["p2sh"], tbl["wif"], tbl["b32prv"], tbl["b32pub"]) if x and p[:len(x)] == bytes(x)), key=len, default=[])
            p = bytes(pf) + p[len(old):]
        elif m < 0.85:    # content: zero / order / all ones in the last 32 bytes, flag byte, key byte
            c = rnd.choice(["zero", "n", "ff", "flag", "keybyte", "x"])
            b = bytearray(p)
            if c == "zero" and len(b) >= 33:
                pos = len(b) - 33 if (len(b) in (34, 35) and b[-1] == 1 and len(b) - len(tbl["wif"]) == 33) else len(b) - 32
                b[pos:pos + 32] = b"\0" * 32
            elif c == "n" and len(b) >= 33:
                pos = len(b) - 33 if (b[-1] == 1 and len(b) - len(tbl["wif"]) == 33) else len(b) - 32
                b[pos:pos + 32] = nets.N.to_bytes(32, "big")
            elif c == "ff" and len(b) >= 32:
                b[-32:] = b"\xff" * 32
            elif c == "flag":
                b[-1] = rnd.choice([0, 2, 255])
            elif c == "keybyte" and len(b) == 78:
                b[45] = rnd.choice([0, 1, 2, 3, 4, 5])
            elif c == "x" and len(b) == 78:
                b[46:78] = (10).to_bytes(32, "big")
            p = bytes(b)
        else:
            p = p[:-1] + bytes([p[-1] ^ 1])
        return nets.b58check(p)
    s = nets.segwit_dec(text) if text == text.lower() else None
    if s is not None:
        hrp, ver, prog, var = s
        m = rnd.random()
        if m < 0.3:
            prog = prog[:-1] if rnd.random() < 0.5 else prog + b"\x01"
        elif m < 0.5:
            ver = rnd.choice([0, 1, 2, 16])
        elif m < 0.7:
            var = "bech32m" if var == "bech32" else "bech32"
        else:
            hrp = rnd.choice(["bc", "tb", "ltc", "zz"])
        return nets.segwit(hrp, ver, prog, var)
    if kind in ("sectext", "sechex"):
        i = text.find("SEC")
        pre, hx = (text[:i + 4], text[i + 4:]) if i >= 0 and text[i + 3:i + 4] == ":" else ((text[:i + 3], text[i + 3:]) if i >= 0 else ("", text))
        m = rnd.random()
        if m < 0.3:
            hx = hx[:2] + "%064x" % rnd.choice([10, nets.P + 1, 0, nets.G[0]])
        elif m < 0.5:
            hx = rnd.choice(["04", "05", "00"]) + hx[2:]
        elif m < 0.7:
            hx = hx[:-2]
        else:
            pre = rnd.choice(["ZZZSEC:", "", "BTCSEC:", "DOGESEC"])
        return pre + hx
    if kind == "pair":
        sep = "/" if "/" in text else ","
        x, y = text.split(sep)
        m = rnd.random()
        if m < 0.4:
            x = str(rnd.choice([10, 5, 0, nets.P + 1, int(x) + 1]))
        elif y not in ("even", "odd"):
            y = str(int(y) + rnd.choice([1, nets.P]))
        else:
            y = "odd" if y == "even" else "even"
        return x + sep + y
    if kind == "num":
        return rnd.choice(["0", str(nets.N), "%x" % nets.N, "%x" % (nets.N - 1), text + "0", "f" * 64, str(nets.N - 1)])
    if kind in ("seed", "electrum"):
        tag, rest = text.split(":", 1)
        m = rnd.random()
        if m < 0.3:
            rest = rest[:-1]
        elif m < 0.5:
            rest = rest[:-2]
        elif m < 0.7:
            rest = "00" * (len(rest) // 2)
        elif m < 0.8:
            rest = "ff" * (len(rest) // 2)
        elif m < 0.9:     # the separator again, somewhere in the rest
            i = rnd.randrange(len(rest) + 1)
            rest = rest[:i] + ":" + rest[i:]
        else:
            tag = rnd.choice(["X", "H", "E", "P"])
        return tag + ":" + rest
    if kind == "script":
        parts = text.split(" ")
        i = rnd.randrange(len(parts))
        parts[i] = rnd.choice(["OP_NOP", "OP_1", parts[i]])
        return " ".join(parts)
    return text


def record_traces(seed, count, entries):
    rnd = random.Random(seed)
    allnets = [(s, n) for s, n in nets.networks() if not nets.is_stub(n)]
    alltbl = nets.table()
    tbl = {t["sym"]: t for t in alltbl}
    traces = []
    pool = {}
    for ti in range(count):
        sym, N = rnd.choice(allnets)
        if sym not in pool or rnd.random() < 0.2:
            pool[sym] = _real_texts(rnd, sym, N, tbl[sym])
        kind, text = rnd.choice(pool[sym])
        text = _mutate(rnd, kind, text, sym, tbl[sym], alltbl)
        t = nets.structure_of(text)
        # the reading network: mostly the producer, sometimes another one
        msym, M = (sym, N) if rnd.random() < 0.75 else rnd.choice(allnets)
        ps = M.parseable_str_type(text)
        ev = []
        order = list(entries)
        rnd.shuffle(order)
        for e in order:
            tag, val = nets.call(nets.entry(M, e), ps)
            if tag != "ok":
                ev.append({"n": msym, "e": e, "t": t, "exc": val, "outs": []})
            else:
                ev.append({"n": msym, "e": e, "t": t, "exc": "", "outs": _seed_candidates(t, nets.project(val))})
        traces.append({"text": text, "kind": kind, "ev": ev})
    return traces


BIP173_VALID = ["A12UEL5L", "a12uel5l", "an83characterlonghumanreadablepartthatcontainsthenumber1andtheexcludedcharactersbio1tt5tgs",
                "abcdef1qpzry9x8gf2tvdw0s3jn54khce6mua7lmqqqxw",
                "11qqqqqqqqqqqqqqqqqqqqqqqqqqqqqqqqqqqqqqqqqqqqqqqqqqqqqqqqqqqqqqqqqqqqqqqqqqqqqqqqqqc8247j",
                "split1checkupstagehandshakeupstreamerranterredcaperred2y9e3w", "?1ezyfcl"]
B58_ENTRIES = ["p2pkh", "p2sh", "wif", "bip32_prv", "bip32_pub", "bip49_prv", "bip49_pub", "bip84_prv", "bip84_pub", "bip32", "bip49", "bip84",
               "address", "payable", "private_key", "hierarchical_key", "secret", "parse"]


def bech32_vectors():
    """the valid Bech32 (BIP173, transcribed: each must decode, which certifies it) and Bech32m (BIP350, from pycoin's tests) vectors"""
    import ast
    from ..ctx import REPO
    out = list(BIP173_VALID)
    try:
        tree = ast.parse(open(os.path.join(REPO, "tests", "bech32_test.py")).read())
        for node in ast.walk(tree):
            if isinstance(node, ast.Assign) and getattr(node.targets[0], "id", "") == "VALID":
                for c in ast.walk(node.value):
                    if isinstance(c, ast.Constant) and isinstance(c.value, str):
                        out += c.value.split()
    except (OSError, SyntaxError):
        pass
    for v in out:
        if nets.bech32_dec(v) is None:
            raise MachineryError("not a valid Bech32 vector: %r" % v)
    return out


def _session(text, kind, plan):
    """ONE text object (network.parseable_str_type, as ku's parse_key builds) through plan = [(network symbol, entry)];
    every call is also made with a fresh plain str: the two answers must agree (history independence)"""
    first = nets.net(plan[0][0])
    ps = first.parseable_str_type(text)
    t = nets.structure_of(text)
    ev = []
    for sym, e in plan:
        M = nets.net(sym)
        tag, val = nets.call(nets.entry(M, e), ps)
        ftag, fval = nets.call(nets.entry(M, e), str(text))
        same = (tag == ftag) and (val == fval if tag != "ok" else nets.project(val) == nets.project(fval))
        rec = {"n": sym, "e": e, "t": t, "exc": "" if tag == "ok" else val,
               "outs": [] if tag != "ok" else _seed_candidates(t, nets.project(val))}
        rec["_fresh"] = None if same else (ftag, _got_summary(ftag, fval), _got_summary(tag, val))
        ev.append(rec)
    return {"text": text, "kind": kind, "ev": ev}


def shared_sessions(seed, nrandom, entries):
    """sessions in which one text object is asked by SEVERAL networks in sequence, in different orders:
    (i) real Base58 serialisations of double-SHA256 networks asked by their producer, by every Groestlcoin-family
        network (same version bytes for BTC/GRS and XTN/TGRS/GRSRT) and by a third network: producer first, family
        first, and shuffled;  (ii) texts under the Groestlcoin family's own version bytes with a double-SHA256 checksum;
    (iii) the BIP173 / BIP350 vectors and empty-data Bech32 texts through every entry point of five networks"""
    rnd = random.Random(seed)
    tbl = {t["sym"]: t for t in nets.table()}
    stubs = [s for s, n in nets.networks() if nets.is_stub(n)]
    plain = [s for s, n in nets.networks() if not nets.is_stub(n)]
    out = []

    def plans(producer, others):
        nets_ = [producer] + others
        a = [(m, e) for m in nets_ for e in B58_ENTRIES]
        b = [(m, e) for m in others + [producer] for e in B58_ENTRIES]
        c = list(a)
        rnd.shuffle(c)
        return [a, b, c]
    producers = ["BTC", "XTN"] + rnd.sample([p for p in plain if p not in ("BTC", "XTN")], nrandom)
    for P in producers:
        N = nets.net(P)
        texts = [(k, x) for k, x in _real_texts(rnd, P, N, tbl[P]) if k in ("wif", "address", "xprv", "xpub")]
        for kind, text in texts:
            if nets.b58check_dec(text) is None:
                continue
            for plan in plans(P, stubs + [rnd.choice(plain)]):
                out.append(_session(text, "shared:" + kind, plan))
    for X in stubs:     # the family's own version bytes (where the table knows them), double-SHA256 checksum
        t = tbl[X]
        one = (1).to_bytes(32, "big")
        body = b"\x01" + b"\x01\x02\x03\x04" + b"\0\0\0\x05" + b"\x22" * 32
        for pf, pay in ((t["p2pkh"], bytes(range(20))), (t["p2sh"], bytes(range(20))), (t["wif"], one + b"\x01"),
                        (t["b32prv"], body + b"\0" + one), (t["b32pub"], body + nets.sec_of(nets.G, True))):
            if pf:
                text = nets.b58check(bytes(pf) + pay)
                for plan in plans(rnd.choice(["BTC", "XTN"]), [X]):
                    out.append(_session(text, "shared:grs-version", plan))
    five = ["BTC", "XTN", "LTC", "DOGE"] + stubs[:1]
    vec = bech32_vectors() + [nets.bech32_text(h, [], v) for h in ("bc", "tb", "ltc", "grs", "zz") for v in ("bech32", "bech32m")]
    for v in vec:
        plan = [(m, e) for m in five for e in entries]
        if rnd.random() < 0.5:
            rnd.shuffle(plan)
        out.append(_session(v, "shared:bech32-vector", plan))
    return out


def validate_traces(ctx, traces, env):
    """{trace index: [indices of the events the rules do not allow]}"""
    path = nets.write_json([{"ev": t["ev"]} for t in traces], "vf-c18-traces-")
    try:
        r = ctx.tlc("Trace_Parse", "Trace_Parse", workers=1, env=dict(env, TRACE_FILE=path), count=False, timeout=2400)
    finally:
        os.unlink(path)
    for rec in r.records:
        if isinstance(rec, dict) and rec.get("k") == "rejected":
            if rec["n"] != len(traces) or rec["unfinished"]:
                raise MachineryError("trace run saw %s traces (%d sent), unfinished: %s" % (rec["n"], len(traces), rec["unfinished"][:5]))
            out = {}
            for i, l in rec["at"]:
                out.setdefault(int(i) - 1, []).append(int(l) - 1)
            return out
    raise MachineryError("trace run printed no verdict: %s" % r.raw_tail[-5:])


def _trace_got(e):
    return "exc:" + e["exc"] if e["exc"] else "+".join(sorted({(o["k"] or "none") + (":" + o["s"] if o["s"] else "") for o in e["outs"]}))


def _trace_key(e):
    return "C18|trace|%s|f=%s|got=%s" % (_fam(e["e"]), e["t"]["f"], _trace_got(e))


# ---------------------------------------------------------------- main
def run(ctx):
    q = ctx.quick
    only = getattr(ctx, "only", None)

    def stage(name):
        return only is None or name in only
    ctx.rule = ("grid: every network x every checksummed-Base58 role x payload shapes/contents at the boundaries, segwit shapes, colon forms, "
                "numerals, pairs, SEC texts, scripts, junk, each through every entry point; distinct_nontrivial = (network, class label) pairs "
                "for which some entry point must return an object")
    ctx.assumptions += ["Base58Check and Bech32 are injective on valid texts (C11)", "script text language is property C12: only script texts built from token scripts are judged",
                        "Groestlcoin-family text parsing is stubbed in this sandbox (L3): totality only",
                        "the curve oracle bit of a text is computed by the harness's affine secp256k1 arithmetic"]
    tbl = nets.table()
    tpath = nets.write_json(tbl, "vf-c18-table-")
    env = {"NET_TABLE": tpath}
    try:
        _run(ctx, q, stage, env, tbl)
    finally:
        os.unlink(tpath)


def _check_consts(c):
    if bytes(c["n"]) != nets.N.to_bytes(32, "big") or bytes(c["p"]) != nets.P.to_bytes(32, "big"):
        raise MachineryError("curve constants of NetTable.tla are wrong")
    for e in c["knownx"]:
        x = int.from_bytes(bytes(e["x"]), "big")
        if (x < nets.P and nets.y_for_x(x, 0) is not None) != e["on"]:
            raise MachineryError("KnownX of MC_ParseDispatch.tla is wrong for x=%x" % x)
    for e in c["knownxy"]:
        x, y = (int.from_bytes(bytes(e[k]), "big") for k in ("x", "y"))
        if nets.on_curve(x, y) != e["on"]:
            raise MachineryError("KnownXY of MC_ParseDispatch.tla is wrong for x=%x" % x)


def _run(ctx, q, stage, env, tbl):
    W = 16
    entries = None
    if nets.bech32_text("a", [], "bech32") != "a12uel5l" or nets.bech32_text("a", [], "bech32m") != "a1lqfn3a" or \
            nets.bech32_dec("A12UEL5L") != ("a", [], "bech32"):
        raise MachineryError("Bech32 evaluator disagrees with the BIP173 / BIP350 vectors")
    # ---- 1. model on synthetic tables
    if stage("model"):
        r = ctx.tlc("MC_ParseDispatch", "MC_ParseDispatch_sane_cases", workers=4, env=env, keep_records=True)
        _check_consts(r.by_kind("consts")[0])
        r = ctx.tlc("MC_ParseDispatch", "MC_ParseDispatch_same_clash", workers=2, env=env, expect_ok=False, count=False)
        ctx.selftest("model_rejects_table_with_shared_version_byte", (not r.ok) and r.violated == "TableApart")
        if not q:
            ctx.tlc("MC_ParseDispatch", "MC_ParseDispatch_polis_cases", workers=4, env=env, keep_records=False)
            ctx.tlc("MC_ParseDispatch", "MC_ParseDispatch_polis_clash", workers=2, env=env, keep_records=False)
            r = ctx.tlc("MC_ParseDispatch", "MC_ParseDispatch_same_cases", workers=4, env=env, expect_ok=False, count=False, keep_records=False)
            ctx.selftest("model_rejects_unfaithful_table", (not r.ok) and r.violated in ("FaithfulOk", "ApartOk"))

    # ---- 2a. kinds of checksummed text on every real network
    if stage("clash"):
        r = ctx.tlc("MC_ParseDispatch", "MC_ParseDispatch_realclash", workers=4, env=env)
        strict = {x["n"]: x["strict"] for x in r.by_kind("clash") if x["strict"]}
        loose = {x["n"]: x["loose"] for x in r.by_kind("clash") if x["loose"]}
        ctx.extra["kinds_sharing_prefix_and_length"] = strict
        ctx.extra["kinds_apart_only_by_length"] = loose
        for n, pairs in strict.items():
            for a, b in pairs:
                if a < b:
                    ctx.fail("C18|table|kinds-not-apart|N=%s|%s=%s" % (n, a, b),
                             "on %s the checksummed kinds %s and %s share version bytes and payload length" % (n, a, b), {"n": n, "pair": [a, b]})
        ctx.log("kinds apart by the rules on every network except %s; apart only through the payload length on %s" % (sorted(strict), sorted(loose)))

    # ---- 2b. the grid
    if stage("cases"):
        import multiprocessing as mp
        pool = mp.get_context("fork").Pool(NPROC)
        pending = []
        buf = []
        state = {"n": 0, "entries": None, "sampled": 0}

        def flush():
            if buf:
                pending.append(pool.apply_async(_chunk_with_entries, ((list(buf), state["entries"], state["dispatch"]),)))
                del buf[:]

        def on(rec):
            if rec.get("k") == "consts":
                _check_consts(rec)
                state["entries"] = rec["entries"]
                ctx.extra["entry_points"] = rec["entries"]
                state["dispatch"] = {c[0]: c[1] for c in rec["composite"]}
                ctx.extra["dispatch"] = state["dispatch"]
            elif rec.get("k") == "t":
                buf.append(rec)
                state["n"] += 1
                if state["n"] % 1499 == 7 and rec["ans"]:
                    ctx.sample({"case": {k: rec[k] for k in ("n", "t", "cls", "ans")}, "text": nets.text_of(rec["t"])})
                if len(buf) >= 120:
                    flush()
        ctx.tlc("MC_ParseDispatch", "MC_ParseDispatch_real" if q else "MC_ParseDispatch_real_t", workers=W, env=env,
                on_record=on, keep_records=False, timeout=3000)
        flush()
        nf = 0
        for p in pending:
            res = p.get()
            if res[0] == "machinery":
                raise MachineryError(res[1])
            _, nev, fails, classes = res
            ctx.case(None, nev)
            for c in classes:
                ctx.case(tuple(c), 0)
            for f in fails:
                nf += 1
                ctx.fail(f["key"], f["what"], f)
        pool.close()
        pool.join()
        entries = state["entries"]
        ctx.replayed += state["n"]
        ctx.action("replay.grid", state["n"])
        ctx.log("grid: %d texts x %d entry points, %d disagreements (incl. known)" % (state["n"], len(entries), nf))
        # binding self-test: a corrupted expectation must be noticed
        probe = {"n": "BTC", "t": dict(nets._tx("b58c", d=[0] + [17] * 20, w="sha256d")), "cls": {"f": "b58c", "starts": ["p2pkh"], "fits": ["p2pkh"]}, "maynone": [], "reser": [], "reparse": [], "apart": True, "faithful": True, "answering": [],
                 "ans": [["p2pkh", {"r": "obj", "k": "contract", "p": False, "d": [18] * 20, "d2": [], "b": False, "s": "p2pkh", "toks": []}]],
                 "entries": ["p2pkh"], "dispatch": {}}
        res = _case_chunk([probe])
        ctx.selftest("replay_rejects_corrupted_expectation", res[0] == "ok" and len(res[2]) == 1)
        probe["ans"][0][1]["d"] = [17] * 20
        res = _case_chunk([probe])
        ctx.selftest("replay_accepts_true_expectation", res[0] == "ok" and len(res[2]) == 0)
    if entries is None:
        r = ctx.tlc("MC_ParseDispatch", "MC_ParseDispatch_realclash", workers=2, env=env, count=False)
        entries = r.by_kind("consts")[0]["entries"]
        dispatch = {c[0]: c[1] for c in r.by_kind("consts")[0]["composite"]}
    else:
        dispatch = state["dispatch"]

    # ---- 2c. totality on generated unicode
    if stage("unicode"):
        nex = 150 if q else 1200
        syms = ["BTC", "DCR", "POLIS", "DOGE", "GRS", "XTN", "LTC", "ZEC"]
        jobs = [(i, nex, entries, [syms[i % len(syms)], syms[(i + 3) % len(syms)]]) for i in range(NPROC)]
        tot = 0
        for cnt, fails in pmap(_totality_chunk, jobs, chunk=1):
            tot += cnt
            for f in fails:
                ctx.fail(f["key"], f["what"], f)
        ctx.case(None, tot)
        ctx.extra["hypothesis_calls"] = tot
        ctx.log("hypothesis: %d parser calls on generated unicode" % tot)

    # ---- 3. traces
    if stage("traces"):
        ntr = 300 if q else 2500
        traces = record_traces(ctx.seed * 7927 + 18, ntr, entries)
        shared = shared_sessions(ctx.seed * 6151 + 18, 2 if q else 12, entries)
        ctx.extra["shared_object_sessions"] = len(shared)
        for t in shared:
            for e in t["ev"]:
                fr = e.pop("_fresh")
                if fr is not None:
                    ctx.fail("C18|history|%s|f=%s|shared=%s|fresh=%s" % (_fam(e["e"]), e["t"]["f"], fr[2], fr[1]),
                             "%s.parse.%s(%r) answers %s on a text object that other parsers have seen before, %s on a fresh str" % (
                                 e["n"], e["e"], t["text"], fr[2], fr[1]), {"text": t["text"], "event": e, "n": e["n"], "entry": e["e"]})
        traces = traces + shared
        accepted = []
        nrej = 0
        for chunk in split(traces, max(1, len(traces) // 500)):
            rej = validate_traces(ctx, chunk, env)
            ctx.traces += len(chunk) - len(rej)
            ctx.case(None, sum(len(t["ev"]) for t in chunk))
            for i, t in enumerate(chunk):
                if i not in rej:
                    accepted.append(t)
            for i, ls in sorted(rej.items()):
                nrej += 1
                t = chunk[i]
                failed = {t["ev"][l]["e"]: _trace_got(t["ev"][l]) for l in ls}
                for l in sorted(ls):
                    e = t["ev"][l]
                    # a catch-all that merely forwards a constituent's failure is not reported again
                    if any(failed.get(c) == failed[e["e"]] for c in _closure(dispatch, e["e"])):
                        continue
                    ctx.fail(_trace_key(e), "recorded call is not allowed by ParseDispatch.tla: %s.parse.%s(%r) -> %s" % (
                        e["n"], e["e"], t["text"], e["exc"] or [o["k"] or "none" for o in e["outs"]]), {"text": t["text"], "event": e})
        ctx.log("traces: %d sessions x %d calls, %d rejected (incl. known)" % (len(traces), len(entries), nrej))
        if traces:
            ctx.sample({"trace": {"text": traces[0]["text"], "ev": traces[0]["ev"][:3]}})
        import copy
        good = [t for t in accepted if any(o["r"] == "obj" and o["k"] in ("key", "contract") for e in t["ev"] for o in e["outs"])]
        if good:
            b1 = copy.deepcopy(good[0])
            for e in b1["ev"]:
                hit = [o for o in e["outs"] if o["r"] == "obj" and o["k"] in ("key", "contract")]
                if hit:
                    for o in e["outs"]:
                        if o["d"]:
                            o["d"][-1] = (o["d"][-1] + 1) % 256
                    break
            b2 = copy.deepcopy(good[0])
            b2["ev"][0]["exc"] = "ValueError"
            rej = validate_traces(ctx, [b1, b2, good[0]], env)
            ctx.selftest("trace_rejects_corrupted_field", 0 in rej and rej.get(1) == [0] and 2 not in rej)
    ctx.exhaustive = True


def replay(ctx, obj):
    """./check C18 --replay FILE: re-run the recorded call(s) on the current tree and show what happens"""
    d = obj.get("detail") or {}
    text = d.get("text")
    n = d.get("n") or (d.get("event") or {}).get("n") or "BTC"
    ents = [d["entry"]] if d.get("entry") else ([d["event"]["e"]] if d.get("event") else ["parse"])
    print("key :", obj.get("key"))
    print("what:", obj.get("what"))
    print("structure of the text:", nets.structure_of(text))
    for e in ents:
        tag, val = nets.call(nets.entry(nets.net(n), e), text)
        print("%s.parse%s(%r) -> %s" % (n, "" if e == "parse" else "." + e, text, ("raises " + val) if tag == "exc" else repr(val)))
        if tag == "exc":
            ctx.fail(obj["key"], obj.get("what", ""), d)
