"""X01 - wallet bookkeeping stays consistent with the block chain under reorganisations
(pycoin.wallet.SQLite3Wallet / SQLite3Persistence fed by pycoin.blockchain.BlockChain).

1. model: TLC checks spec/X01_Wallet.tla - the wallet's rule book composed with ChainTrack.tla
   (property C15, reused read-only) - against the property: after every call the records are those of
   a from-scratch replay of the current chain (StateIsReplay), the balances are the sums the statement
   describes (BalanceOk), for every forest, every valid placement of the txs in the blocks, every
   delivery order/batching (reorganisations, re-adds), mempool announcements, sends and rewinds.
   Each named deviation of the rule book (how pycoin behaves today) is shown by TLC to violate it.
2. which rule book does the tree follow: scripted probe runs of the real wallet are validated by TLC
   (X01_Trace_Wallet) under every combination of the named deviations; the deviations found are
   findings, and everything below is judged by exactly that rule book - any other difference is a violation.
3. spec -> code: TLC prints one concrete behaviour per transition of the model (X01_WalletReplay) with
   the state demanded after every call; each is executed on the real wallet twice: fed with the printed
   operations, and through a real BlockChain + the glue a network client provides.
4. code -> spec: seeded random worlds (8 blocks, 5 txs, weights, orphans, duplicates, foreign inputs)
   are run on BlockChain + wallet, every call and the state it left is logged, TLC validates the logs
   against ChainTrack's CTDeliver and the rule book, and - when the tree has no deviation - against the
   property itself.
"""
from __future__ import annotations

import copy
import hashlib
import itertools
import json
import os
import random
import tempfile

from ..ctx import MachineryError, ROOT
from ..drv import x01_wallet as drv
from ..par import NPROC, split

SWITCHES = ("ri", "kc", "km", "uz", "zs")
FAITHFUL = {"ri": True, "kc": True, "km": True, "uz": True, "zs": False}
SWITCH_FINDING = {
    "ri": ("X01|rollback|records-at-the-removed-index-survive",
           "rolling back / rewinding to block index i resets only records above i (SQLite3Persistence.rewind_spendables "
           "uses '>'): outputs and spends of the removed block itself stay confirmed"),
    "kc": ("X01|confirm|resaving-an-output-drops-does_seem_spent",
           "_process_confirmed_tx saves a fresh Spendable over the existing record: a pending spend (does_seem_spent) of "
           "the output is forgotten when the tx that made the output is confirmed (again)"),
    "km": ("X01|mempool|announcement-overwrites-confirmed-record",
           "got_mempool_tx_callback saves a fresh Spendable over the existing record: announcing an already confirmed "
           "tx makes its outputs unconfirmed and unspent again"),
    "uz": ("X01|get_balance(0)|unconfirmed-outputs-not-counted",
           "get_balance(confirmations=0) never counts unconfirmed outputs (unspent_spendables always requires "
           "block_index_available > 0)"),
    "zs": ("X01|index0|block-index-0-is-the-none-sentinel",
           "0 means 'not confirmed' / 'not spent' in the Spendable table: an output confirmed in the block at index 0 "
           "is never counted, a spend in it is never recorded"),
}
API_FINDING = {
    "spendable_class": ("X01|get_balance|raises=TypeError:unspent_spendables-needs-spendable_class",
                        "SQLite3Wallet.get_balance / create_unsigned_send_tx call persistence.unspent_spendables without "
                        "the required spendable_class argument: TypeError on every call"),
    "stopiteration": ("X01|unspent_spendables|raises=RuntimeError:generator-raised-StopIteration",
                      "SQLite3Persistence.unspent_spendables / all_spendables end with next(cursor) inside a generator: "
                      "RuntimeError (PEP 479) when the rows are exhausted"),
    "create_tx_network": ("X01|create_unsigned_send_tx|raises=TypeError:create_tx-needs-network",
                          "SQLite3Wallet.create_unsigned_send_tx calls create_tx(spendables, payables, fee=..) without the "
                          "network argument: TypeError"),
}


# ---------------------------------------------------------------- findings of this extension

class Findings(object):
    """ctx only reads the main findings files: keys listed in ext/X01_findings.json as known are
    reported as KNOWN-FINDING and do not fail the run"""

    def __init__(self, ctx):
        self.ctx = ctx
        self.known = {}
        path = os.path.join(ROOT, "ext", "X01_findings.json")
        if os.path.exists(path):
            for e in json.load(open(path))["findings"]:
                if e.get("property") == "X01" and e.get("status") == "known":
                    self.known[e["key"]] = e

    def fail(self, key, what, detail=None):
        if key in self.known:
            if key not in self.ctx.known_seen:
                self.ctx.known_seen[key] = what
                print("KNOWN-FINDING: property=X01 %s [%s]" % (self.known[key].get("what", what), key), flush=True)
            return False
        return self.ctx.fail(key, what, detail)


# ---------------------------------------------------------------- which calls can be made at all

def detect_api(fnd):
    """make each public call once on a fresh wallet; a call that fails in a known way is reported and
    from then on made through the matching work-around of the driver"""
    drv.SHIMS.clear()
    world = drv.World([[], [1]], [True, False, True, False])
    for attempt in range(4):
        w = drv.Wallet(world, 1)
        try:
            w.ops([("add", 1, 1)], {1: [1]})
            w.project(2)
            w.send(3)          # insufficient funds (1 unit): ValueError expected
            w.send(0)
            return
        except TypeError as e:
            exc = e
            msg = str(e)
            if "spendable_class" in msg and "spendable_class" not in drv.SHIMS:
                which = "spendable_class"
            elif "create_tx" in msg and "create_tx_network" not in drv.SHIMS:
                which = "create_tx_network"
            else:
                raise
        except RuntimeError as e:
            exc = e
            if isinstance(e.__cause__, StopIteration) and "stopiteration" not in drv.SHIMS:
                which = "stopiteration"
            else:
                raise
        key, what = API_FINDING[which]
        fnd.fail(key, what, {"exception": "%s: %s" % (type(exc).__name__, exc)})
        drv.SHIMS.add(which)
    raise MachineryError("the wallet's public calls keep failing with work-arounds %s" % sorted(drv.SHIMS))


# ---------------------------------------------------------------- traces (recorded runs of the real code)

TN, TT, TMAXOUT, TKMAX = 8, 5, 2, 7      # the constants of X01_Trace_Wallet_b*.cfg


def _sw_json(sw):
    return {k: bool(sw[k]) for k in SWITCHES}


class Recorder(object):
    """runs events on BlockChain + wallet and logs them in the format of X01_Trace_Wallet"""

    def __init__(self, par, wt, txin, own, cont, base, label_kind="bytes", salt=0, zero_is_none=True):
        self.par, self.wt, self.cont, self.base = par, wt, cont, base
        self.n = len(par)
        self.world = drv.World(txin, own, TMAXOUT, salt=b"%d" % salt)
        self.wallet = drv.Wallet(self.world, base)
        self.chain = drv.Chain(self.wallet, par, wt, cont, base, drv.labels(self.n, label_kind, salt))
        if salt % 2 == 0:
            self.chain.one_by_one = (TKMAX, zero_is_none)
        self.zero_is_none = zero_is_none
        self.ev = []
        self.problem = None          # something no rule book can explain (exception, malformed result)
        self.cur_chain = []
        self.txin, self.own = txin, own

    def header(self, sw):
        N = TN
        return {"sw": _sw_json(sw),
                "par": [self.par.get(i, -1) for i in range(1, N + 1)],
                "wt": [self.wt.get(i, 1) for i in range(1, N + 1)],
                "txin": [sorted(x) for x in self.txin], "own": list(self.own),
                "cont": [sorted(self.cont.get(i, ())) for i in range(1, N + 1)]}

    def _obs(self, e):
        o = self.wallet.project(TKMAX, self.zero_is_none)
        if o["extra"]:
            self.problem = "the Spendable table holds %d record(s) of outputs that are not ours" % o["extra"]
        e.update({"ws": o["ws"], "lbi": o["lbi"], "bal": o["bal"]})
        self.ev.append(e)

    def do(self, act):
        """act: ("D", [ids]) | ("M", t) | ("S", amt) | ("R", i) | ("A",)   -> False once the run broke"""
        if self.problem:
            return False
        k = act[0]
        try:
            if k == "D":
                rep = self.chain.deliver(act[1])
                self.cur_chain = rep["chain"]
                pad = [-1] * (TN - self.n)
                mid = [{"ws": m["ws"], "lbi": m["lbi"], "bal": m["bal"]} for m in self.chain.mid]
                if any(m["extra"] for m in self.chain.mid):
                    self.problem = "the Spendable table holds records of outputs that are not ours"
                self._obs({"a": "D", "arg": list(act[1]), "chain": rep["chain"], "ops": rep["ops"], "idx": rep["idx"] + pad, "mid": mid})
            elif k == "M":
                self.wallet.mempool(act[1])
                self._obs({"a": "M", "t": act[1]})
            elif k == "S":
                r = self.wallet.send(act[1])
                if r["shape"] != "ok" and r["ok"]:
                    self.problem = "created send: " + r["shape"]
                self._obs({"a": "S", "amt": act[1], "ok": r["ok"], "X": r["X"], "change": r["change"]})
            elif k == "R":
                self.wallet.rewind(act[1])
                self._obs({"a": "R", "i": act[1]})
            elif k == "A":
                i = self.wallet.w.last_block_index() + 1
                b = self.cur_chain[i - self.base]
                self.wallet.ops([("add", b, i)], self.cont)
                self._obs({"a": "A", "b": b, "i": i})
        except Exception as e:  # noqa
            self.problem = "%s raised %s: %s" % (k, type(e).__name__, str(e)[:200])
            self.ev.append({"a": "X", "call": k})
            return False
        return True

    def lbi(self):
        return self.ev[-1]["lbi"] if self.ev else self.base - 1


def _random_forest(rnd, n):
    par = {}
    order = list(range(1, n + 1))
    rnd.shuffle(order)
    placed = []
    for h in order:
        r = rnd.random()
        if not placed or r < 0.15:
            par[h] = 0 if rnd.random() < 0.75 else -1
        else:
            par[h] = placed[-1] if rnd.random() < 0.6 else rnd.choice(placed)
        placed.append(h)
    return par


def _random_world(rnd):
    nop = TT * TMAXOUT
    mode = rnd.random()
    own = [(rnd.random() < 0.6) for _ in range(nop)] if mode < 0.7 else [q % 2 == 0 for q in range(nop)]
    txin = []
    for t in range(1, TT + 1):
        earlier = list(range(1, (t - 1) * TMAXOUT + 1))
        k = rnd.choice([0, 1, 1, 2]) if earlier else 0
        # beyond the enumerated grid: inputs that are not ours appear too
        txin.append(sorted(rnd.sample(earlier, min(k, len(earlier)))))
    return txin, own


def _random_contents(rnd, par, txin):
    """a valid placement: along every path from the anchor no tx twice, inputs created before, no double spend"""
    cont = {}
    done = {}

    def ancestors_txs(b):
        if b in done:
            return done[b]
        p = par[b]
        s = set() if p <= 0 else ancestors_txs(p) | set(cont[p])
        done[b] = s
        return s

    order = sorted(par, key=lambda b: _depth(par, b))
    for b in order:
        before = ancestors_txs(b)
        spent = set(q for t in before for q in txin[t - 1])
        chosen = []
        cand = list(range(1, TT + 1))
        rnd.shuffle(cand)
        for t in sorted(cand[:rnd.choice([0, 1, 2, 2, 3, 3])]):
            if t in before:
                continue
            ok = True
            for q in txin[t - 1]:
                ct = (q - 1) // TMAXOUT + 1
                if ct not in before and ct not in chosen:
                    ok = False
                if q in spent:
                    ok = False
            if ok:
                chosen.append(t)
                spent |= set(txin[t - 1])
        cont[b] = chosen
    return cont


def _depth(par, b):
    d = 0
    while par.get(b, 0) > 0:
        b = par[b]
        d += 1
    return d


def record_random(args):
    seed, base, sw, zero_is_none = args
    rnd = random.Random(seed)
    n = rnd.randint(3, TN)
    par = _random_forest(rnd, n)
    wt = {h: rnd.randint(1, 3) for h in par}
    txin, own = _random_world(rnd)
    cont = _random_contents(rnd, par, txin)
    rec = Recorder(par, wt, txin, own, cont, base, "bytes" if seed % 2 else "int", seed, zero_is_none)
    todo = list(par)
    rnd.shuffle(todo)
    delivered = []
    shown = set()            # txs shown to the wallet so far (environment assumption of Mempool)
    nev = 0
    while nev < 14 and rec.problem is None:
        kinds = [("D", 5 if todo else 1), ("M", 2), ("S", 2), ("R", 1.5 if rec.lbi() >= base else 0)]
        r = rnd.random() * sum(w for _, w in kinds)
        for kind, w in kinds:
            r -= w
            if r < 0:
                break
        if kind == "D" and todo:
            k = rnd.randint(1, min(3, len(todo)))
            b, todo = todo[:k], todo[k:]
            if delivered and rnd.random() < 0.2:
                b = b + [rnd.choice(delivered)]
            delivered += b
            rec.do(("D", sorted(set(b))))
            for x in rec.chain.seen_ops[-1] if rec.chain.seen_ops else ():
                if x[0] == "add":
                    shown |= set(cont.get(x[1].bid, ()))
        elif kind == "D":
            if delivered:
                rec.do(("D", sorted(set(rnd.sample(delivered, min(2, len(delivered)))))))
        elif kind == "M":
            ok = [t for t in range(1, TT + 1)
                  if all((not own[q - 1]) or ((q - 1) // TMAXOUT + 1) in shown for q in txin[t - 1])]
            if ok:
                t = rnd.choice(ok)
                rec.do(("M", t))
                shown.add(t)
        elif kind == "S":
            rec.do(("S", rnd.choice([1, 2, 3, 6, 12, 40, 200])))
        else:
            i = rnd.randint(base, rec.lbi())
            tip = rec.lbi()
            rec.do(("R", i))
            for _ in range(tip - i + 1):
                if rnd.random() < 0.25:
                    rec.do(("S", rnd.choice([1, 3, 12])))
                rec.do(("A",))
        nev += 1
    tr = rec.header(sw)
    tr["ev"] = rec.ev
    return {"trace": tr, "problem": rec.problem, "seed": seed, "base": base}


# scripted probes: each one separates one named deviation (see the counterexamples TLC finds for the
# X01_MC_Wallet_bad_* configurations)
PROBE_PAR = {1: 0, 2: 1, 3: 1, 4: 3, 5: 0, 6: 5}
PROBE_TXIN = [[], [1], [], [], []]
PROBE_OWN = [q % 2 == 0 for q in range(TT * TMAXOUT)]
PROBES = {
    # output only in a removed block; then the same for a spend
    "reorg-output": (1, {1: [1]}, [("D", [1]), ("D", [5, 6])]),
    "reorg-spend": (1, {1: [1], 2: [2]}, [("D", [1, 2]), ("D", [3, 4])]),
    "rewind": (1, {1: [1], 2: [2]}, [("D", [1, 2]), ("R", 2), ("A",)]),
    # a pending spend of an output whose tx is confirmed afterwards
    "confirm-after-pending-spend": (1, {1: [1]}, [("M", 1), ("M", 2), ("D", [1])]),
    # a confirmed tx announced (again) through the mempool callback
    "mempool-after-confirm": (1, {1: [1], 2: [2]}, [("D", [1, 2]), ("M", 1), ("M", 2)]),
    # an unconfirmed output and the balance with 0 confirmations
    "unconfirmed-balance": (1, {}, [("M", 1), ("D", [1])]),
}
PROBE_BASE0 = {"index-0": (0, {1: [1], 2: [2]}, [("D", [1]), ("D", [2]), ("D", [3, 4])])}


def record_probe(name, spec, zero_is_none):
    base, cont, script = spec
    rec = Recorder(PROBE_PAR, {b: 1 for b in PROBE_PAR}, PROBE_TXIN, PROBE_OWN, cont, base, "bytes", 2, zero_is_none)
    for act in script:
        rec.do(act)
    return rec


def run_traces(ctx, traces, base):
    """-> sorted list of rejected positions"""
    if not traces:
        return []
    fd, path = tempfile.mkstemp(prefix="vf-x01-traces-", suffix=".json")
    with os.fdopen(fd, "w") as f:
        json.dump(traces, f)
    try:
        r = ctx.tlc("X01_Trace_Wallet", "X01_Trace_Wallet_b%d" % base, workers=1, env={"TRACE_FILE": path},
                    count=False, timeout=1500, jvm=("-Dtlc2.tool.queue.IStateQueue=StateDeque",))
    finally:
        os.unlink(path)
    for rec in r.records:
        if isinstance(rec, dict) and rec.get("k") == "rejected":
            if rec["n"] != len(traces):
                raise MachineryError("trace run saw %s traces, %d were sent" % (rec["n"], len(traces)))
            return sorted(int(x) - 1 for x in rec["ids"])
    raise MachineryError("trace run printed no verdict: %s" % r.raw_tail[-5:])


def first_bad_events(ctx, traces, base):
    """validate every prefix of each rejected trace (one TLC run): for each trace the index of the
    first event TLC does not accept"""
    pre, owner = [], []
    for ti, trace in enumerate(traces):
        for m in range(1, len(trace["ev"]) + 1):
            t = dict(trace)
            t["ev"] = trace["ev"][:m]
            pre.append(t)
            owner.append((ti, m - 1))
    rej = run_traces(ctx, pre, base)
    first = {}
    for r in rej:
        ti, j = owner[r]
        first[ti] = min(first.get(ti, j), j)
    return [first.get(ti, len(t["ev"]) - 1) for ti, t in enumerate(traces)]


def detect_rule_book(ctx, fnd):
    """which combination of the named deviations explains the probe runs"""
    zin = drv.zero_is_sentinel()
    recs = {name: record_probe(name, spec, True) for name, spec in PROBES.items()}
    for name, rec in recs.items():
        if rec.problem:
            fnd.fail("X01|probe|%s|%s" % (name, rec.problem.split(":")[0]), "probe %s: %s" % (name, rec.problem), rec.ev)
    combos = []
    for bits in itertools.product([True, False], repeat=4):
        sw = dict(zip(SWITCHES[:4], bits))
        sw["zs"] = False
        combos.append(sw)
    names = sorted(recs)
    traces = []
    for sw in combos:
        for name in names:
            t = recs[name].header(sw)
            t["ev"] = recs[name].ev
            traces.append(t)
    rej = set(run_traces(ctx, traces, 1))
    ok = [sw for ci, sw in enumerate(combos) if not any((ci * len(names) + j) in rej for j in range(len(names)))]
    ctx.case(("probes", 1), len(traces))
    if not ok:
        per = {name: [("".join(k for k in SWITCHES[:4] if not sw[k]) or "faithful") for ci, sw in enumerate(combos)
                      if (ci * len(names) + j) not in rej] for j, name in enumerate(names)}
        stuck = sorted(n for n, v in per.items() if not v)
        fnd.fail("X01|probes|no-rule-book-explains|%s" % ",".join(stuck),
                 "the wallet's behaviour on the scripted probes %s matches the rule book of X01_Wallet under no combination of its "
                 "named deviations" % stuck, {"accepted_under": per, "events": {n: recs[n].ev for n in stuck}})
        # judge the rest by the rule book that explains most probes (keeps the report short)
        score = [sum(1 for j in range(len(names)) if (ci * len(names) + j) not in rej) for ci in range(len(combos))]
        best = max(range(len(combos)), key=lambda ci: (score[ci], sum(1 for k in SWITCHES[:4] if combos[ci][k])))
        sw = dict(combos[best])
    else:
        ok.sort(key=lambda s: -sum(1 for k in SWITCHES[:4] if s[k]))
        sw = dict(ok[0])
    # block index 0
    rec0 = {name: record_probe(name, spec, zin) for name, spec in PROBE_BASE0.items()}
    tr0 = []
    for zs in (False, True):
        s2 = dict(sw)
        s2["zs"] = zs
        for name in sorted(rec0):
            t = rec0[name].header(s2)
            t["ev"] = rec0[name].ev
            tr0.append(t)
    rej0 = set(run_traces(ctx, tr0, 0))
    ctx.case(("probes", 0), len(tr0))
    n0 = len(rec0)
    if not any(j in rej0 for j in range(n0)):
        sw["zs"] = False
    elif not any((n0 + j) in rej0 for j in range(n0)):
        sw["zs"] = True
    else:
        if ok:
            fnd.fail("X01|probes|index-0|no-rule-book-explains",
                     "with the first block at index 0 the wallet matches the rule book neither with nor without the index-0 sentinel deviation",
                     {n: r.ev for n, r in rec0.items()})
        sw["zs"] = zin
    for k in SWITCHES:
        if sw[k] != FAITHFUL[k]:
            key, what = SWITCH_FINDING[k]
            fnd.fail(key, what, {"probe_events": {n: r.ev for n, r in list(recs.items()) + list(rec0.items())}})
    return sw, zin, recs


# ---------------------------------------------------------------- spec -> code

def _cmp_obs(want, got):
    """first difference between the state the spec demands and the projection of the real one"""
    if got["lbi"] != want["lbi"]:
        return "lbi", "last_block_index %r, spec %r" % (got["lbi"], want["lbi"])
    if got.get("extra"):
        return "extra-records", "%d record(s) of outputs that are not ours" % got["extra"]
    cols = ("known", "available", "spent", "seems_spent")
    for q, (w, g) in enumerate(zip(want["ws"], got["ws"])):
        w, g = list(w), list(g)
        if w != g:
            for c in range(4):
                if w[c] != g[c]:
                    cls = "spec=%s,got=%s" % ("none" if w[c] == -1 else "set", "none" if g[c] == -1 else "set") if c in (1, 2) \
                        else "spec=%s,got=%s" % (w[c], g[c])
                    return "record." + cols[c] + ":" + cls, "outpoint %d: %s is %r, spec %r" % (q + 1, cols[c], g[c], w[c])
    if list(got["bal"]) != list(want["bal"]):
        c = [i for i in range(len(want["bal"])) if got["bal"][i] != want["bal"][i]][0]
        return "balance(%s)" % ("0" if c == 0 else ">=1"), "get_balance(%d) = %r units, spec %r" % (c, got["bal"][c], want["bal"][c])
    return None


def _judge(rec, obs, feed):
    """-> (steps compared, None | (key fragment, text, step))"""
    acts, outs = rec["acts"], rec["outs"]
    for j, o in enumerate(obs):
        a = acts[j]
        if "diverged" in o:
            return j, None
        if "exc" in o:
            return j, ("act=%s|exception=%s" % (a["a"], o["exc"].split(":")[0]), "%s raised %s" % (a["a"], o["exc"]), j)
        if a["a"] == "S":
            s = o["send"]
            if bool(s["ok"]) != bool(a["ok"]):
                return j, ("act=S|ok:spec=%s,got=%s" % (a["ok"], bool(s["ok"])),
                           "create_unsigned_send_tx(%d units): %s, spec: %s" % (a["amt"], s["shape"], "succeeds" if a["ok"] else "insufficient funds"), j)
            if s["ok"]:
                if s["shape"] != "ok":
                    return j, ("act=S|tx-shape", "created send: " + s["shape"], j)
                if sorted(s["X"]) not in [sorted(x) for x in a["allowed"]]:
                    return j, ("act=S|inputs-not-allowed", "created send spends outpoints %s; the spec allows one of %s" % (s["X"], a["allowed"]), j)
                if sorted(s["X"]) != sorted(a["X"]):
                    return j, None          # another allowed selection: the sibling behaviour judges the rest
                if s["change"] != a["change"]:
                    return j, ("act=S|change", "created send leaves %r units of change, spec %r" % (s["change"], a["change"]), j)
        for m, (wm, gm) in enumerate(zip(outs[j].get("mid", ()), o.get("mid", ()))):
            d = _cmp_obs(wm, gm)
            if d:
                return j, ("act=D.%s|%s" % (a["ops"][m][0], d[0]), "after operation %d %s: %s" % (m + 1, a["ops"][m], d[1]), j)
        d = _cmp_obs(outs[j], o)
        if d:
            return j, ("act=%s|%s" % (a["a"], d[0]), d[1], j)
    return len(obs), None


def _visible(rec):
    """what the wallet gets to see when it is fed with the printed operations"""
    cont = rec["cont"]
    v = [rec["base"], rec["txin"], rec["own"]]
    for a in rec["acts"]:
        if a["a"] == "D":
            v.append(("D", [(o[0], o[2], cont[o[1] - 1]) for o in a["ops"]]))
        elif a["a"] == "A":
            v.append(("A", a["i"], cont[a["b"] - 1]))
        elif a["a"] == "S":
            v.append(("S", a["amt"], a["X"]))
        else:
            v.append((a["a"], a.get("t"), a.get("i")))
    return hashlib.blake2b(json.dumps(v).encode(), digest_size=10).digest()


_WORLDS = {}


def _world(rec):
    k = json.dumps([rec["txin"], rec["own"]])
    if k not in _WORLDS:
        _WORLDS[k] = drv.World(rec["txin"], rec["own"], 2)
    return _WORLDS[k]


def _replay_one(rec, feed, kmax, zin):
    n = len(rec["par"])
    par = {i + 1: rec["par"][i] for i in range(n)}
    wt = {i + 1: rec["wt"][i] for i in range(n)}
    cont = {i + 1: [t for t in rec["cont"][i] if t > 0] for i in range(n)}
    label = drv.labels(n, "bytes" if feed == "chain-bytes" else "int", 0) if feed != "ops" else None
    zero_is_none = True if rec["base"] > 0 else zin
    return drv.run_acts(_world(rec), rec["base"], par, wt, cont, rec["acts"], kmax,
                        "ops" if feed == "ops" else "chain", label, zero_is_none)


def _replay_chunk(args):
    recs, feeds, kmax, zin = args
    res = []
    for rec, fs in zip(recs, feeds):
        for feed in fs:
            obs = _replay_one(rec, feed, kmax, zin)
            steps, bad = _judge(rec, obs, feed)
            res.append((feed, steps, len(rec["acts"]), bad, rec if bad else None,
                        [{k: v for k, v in o.items() if k != "tb"} for o in obs] if bad else None))
    return res


class Replayer(object):
    def __init__(self, ctx, fnd, kmax, zin, chain_every=1):
        import multiprocessing as mp
        self.ctx, self.fnd, self.kmax, self.zin = ctx, fnd, kmax, zin
        self.pool = mp.get_context("fork").Pool(NPROC)
        self.buf, self.bfeeds, self.pending = [], [], []
        self.seen = set()
        self.n = self.runs = self.full = self.steps = self.dedup = 0
        self.bad = {}
        self.chain_every = chain_every
        self.kinds = {}

    def feed(self, rec):
        if rec.get("k") != "beh":
            return
        self.n += 1
        fs = []
        v = _visible(rec)
        if v in self.seen:
            self.dedup += 1
        else:
            self.seen.add(v)
            fs.append("ops")
        if any(a["a"] == "D" for a in rec["acts"]) and self.n % self.chain_every == 0:
            fs.append("chain-bytes" if self.n % 2 else "chain-int")
        last = rec["acts"][-1]["a"]
        self.kinds[last] = self.kinds.get(last, 0) + 1
        if self.n % 9973 == 1:
            self.ctx.sample({"behaviour": rec})
        if not fs:
            return
        self.buf.append(rec)
        self.bfeeds.append(fs)
        if len(self.buf) >= 300:
            self._flush()

    def _flush(self):
        if self.buf:
            self.pending.append(self.pool.apply_async(_replay_chunk, ((self.buf, self.bfeeds, self.kmax, self.zin),)))
            self.buf, self.bfeeds = [], []
        while len(self.pending) > 4 * NPROC:
            self._collect(self.pending.pop(0))

    def _collect(self, ar):
        for feed, steps, total, bad, rec, obs in ar.get():
            self.runs += 1
            self.steps += steps
            if steps == total and not bad:
                self.full += 1
            if bad:
                key = "X01|replay|feed=%s|%s" % ("ops" if feed == "ops" else "chain", bad[0])
                if key not in self.bad:
                    self.bad[key] = (bad, rec, obs, feed)

    def finish(self):
        self._flush()
        for ar in self.pending:
            self._collect(ar)
        self.pending = []
        self.pool.close()
        self.pool.join()
        for key, (bad, rec, obs, feed) in sorted(self.bad.items()):
            self.fnd.fail(key, "SQLite3Wallet disagrees with X01_Wallet at call %d (%s): %s | world txin=%s own=%s cont=%s acts=%s" % (
                bad[2] + 1, rec["acts"][bad[2]]["a"], bad[1], rec["txin"], rec["own"], rec["cont"],
                [{k: v for k, v in a.items() if k != "allowed"} for a in rec["acts"]]),
                {"record": rec, "feed": feed, "observed": obs, "step": bad[2], "shims": sorted(drv.SHIMS)})


def _sw_env(sw):
    return {"X01_RI": int(sw["ri"]), "X01_KC": int(sw["kc"]), "X01_KM": int(sw["km"]),
            "X01_UZ": int(sw["uz"]), "X01_ZS": int(sw["zs"])}


# ---------------------------------------------------------------- the check

def run(ctx):
    q = ctx.quick
    fnd = Findings(ctx)
    only = getattr(ctx, "only", None) or {"model", "replay", "trace"}
    ctx.rule = ("model: every forest of N blocks (canonical labelling) x every valid placement of T txs (<= 2 per block) x every "
                "input structure over our outputs x delivery orders/batchings incl. moves between tied chains x mempool/send/rewind "
                "interleavings, TLC exhaustive within each cfg; replay: one concrete behaviour per transition of the model, executed on "
                "SQLite3Wallet (operations fed directly; and through a real BlockChain); distinct_nontrivial = replayed behaviours whose "
                "operations contain a removal, by (sequence of call kinds, number of removals, number of additions, records known at the end)")
    ctx.assumptions += ["an unconfirmed tx is announced only after the txs whose outputs of ours it spends were shown to the wallet",
                        "block contents keep every chain valid (no tx twice, inputs created earlier, no double spend)",
                        "the wallet is driven from one thread; sqlite3 ':memory:'",
                        "the header tracker satisfies ChainTrack.tla (property C15)"]
    # 0. which calls work at all
    detect_api(fnd)
    ctx.extra["driver_workarounds"] = sorted(drv.SHIMS)
    ctx.log("work-arounds needed to call the wallet: %s" % (sorted(drv.SHIMS) or "none"))

    # 1. the model
    if "model" in only:
        cfgs = ["q_all", "q_reorg", "q_base0"] if q else ["q_all", "q_reorg", "q_mix", "q_base0", "t_all", "t_reorg", "t_own"]
        for cfg in cfgs:
            cov = (not q) and cfg in ("q_all", "q_mix")
            ctx.tlc("X01_Wallet", "X01_MC_Wallet_" + cfg, coverage=cov, timeout=6000,
                    require_actions=() if not cov else ("Pick", "Deliver", "ProcAdd", "ProcRemove", "Mempool", "SendOk", "SendFail", "Rewind"))
        # teeth of the model: each named deviation (today's pycoin) violates the property
        for dev, inv in (("ri", ("StateIsReplay",)), ("kc", ("StateIsReplay",)), ("km", ("StateIsReplay",)),
                         ("uz", ("BalanceOk",)), ("zs", ("StateIsReplay", "BalanceOk"))):
            r = ctx.tlc("X01_Wallet", "X01_MC_Wallet_bad_" + dev, expect_ok=False, count=False, timeout=600)
            ctx.selftest("model_rejects_deviation_" + dev, (not r.ok) and r.violated in inv)

    # 2. which rule book the tree follows
    sw, zin, probe_recs = detect_rule_book(ctx, fnd)
    ctx.extra["rule_book_switches"] = _sw_json(sw)
    ctx.log("rule book of this tree: %s (deviations: %s)" % (_sw_json(sw), [k for k in SWITCHES if sw[k] != FAITHFUL[k]] or "none"))

    # 3. spec -> code
    if "replay" in only:
        exports = (["rp_reorg", "rp_mem", "rp_send", "rp_rew", "rp_base0"] if q else
                   ["rp_reorg", "rp_mem", "rp_send", "rp_rew", "rp_base0", "rp_t_send", "rp_t_reorg"])
        nontriv = set()
        for cfg in exports:
            rp = Replayer(ctx, fnd, 3, zin)

            def on(rec, rp=rp):
                if rec.get("k") == "beh":
                    if "allowed" not in rec["acts"][-1] and rec["acts"][-1]["a"] == "S":
                        raise MachineryError("export without the allowed selections")
                    rp.feed(rec)
                    ops = [o[0] for a in rec["acts"] if a["a"] == "D" for o in a["ops"]]
                    if "remove" in ops:
                        nontriv.add(("".join(a["a"] for a in rec["acts"]), ops.count("remove"), ops.count("add"),
                                     sum(1 for r in rec["outs"][-1]["ws"] if r[0])))
            env = _sw_env(sw)
            ctx.tlc("X01_WalletReplay", "X01_WalletReplay_" + cfg, on_record=on, keep_records=False, timeout=6000,
                    env=env, workers=8)
            rp.finish()
            ctx.log("replayed %d behaviours of %s: %d real runs (%d followed to the end, %d calls compared, %d identical feeds skipped): %d disagreement class(es)" % (
                rp.n, cfg, rp.runs, rp.full, rp.steps, rp.dedup, len(rp.bad)))
            if rp.n and rp.full == 0:
                raise MachineryError("no behaviour of %s could be followed to its end" % cfg)
            ctx.replayed += rp.n
            ctx.case(None, rp.runs)
            ctx.action("replay." + cfg, rp.n)
            for k, v in rp.kinds.items():
                ctx.action("replay.last_call." + k, v)
            ctx.extra["real_calls_compared"] = ctx.extra.get("real_calls_compared", 0) + rp.steps
        for k in nontriv:
            ctx.case(k, 0)
        _replay_selftest(ctx, zin)

    # 4. code -> spec
    if "trace" in only:
        ntr = 3000 if q else 16000
        for base, share in ((1, 0.8), (0, 0.2)):
            cnt = int(ntr * share)
            seeds = [ctx.seed * 1000003 + base * 500009 + i for i in range(cnt)]
            import multiprocessing as mp
            with mp.get_context("fork").Pool(NPROC) as pool:
                got = pool.map(record_random, [(s, base, sw, zin if base == 0 else True) for s in seeds], chunksize=16)
            kinds = {}
            for g in got:
                for e in g["trace"]["ev"]:
                    kinds[e["a"]] = kinds.get(e["a"], 0) + 1
            for k, v in kinds.items():
                ctx.action("trace.event." + k, v)
            accepted = []
            for chunk in split(got, max(1, len(got) // 1500)):
                rej = run_traces(ctx, [g["trace"] for g in chunk], base)
                ctx.case(None, len(chunk))
                rejset = set(rej)
                hard = [i for i in rej if not chunk[i]["problem"]][:40]      # located with one more TLC run
                where = dict(zip(hard, first_bad_events(ctx, [chunk[i]["trace"] for i in hard], base))) if hard else {}
                ctx.extra["traces_rejected"] = ctx.extra.get("traces_rejected", 0) + len(rejset | {i for i, g in enumerate(chunk) if g["problem"]})
                for i, g in enumerate(chunk):
                    if i not in rejset and not g["problem"]:
                        ctx.traces += 1
                        accepted.append(g)
                        continue
                    tr = g["trace"]
                    if g["problem"]:
                        at = tr["ev"][-1].get("call", tr["ev"][-1]["a"]) if tr["ev"] else "?"
                        key = "X01|trace|base=%d|at=%s|%s" % (base, at, g["problem"].split(":")[0][:60])
                        what = g["problem"]
                    elif i in where:
                        j = where[i]
                        e = tr["ev"][j]
                        key = "X01|trace|base=%d|rejected-at=%s" % (base, e["a"])
                        what = "event %d (%s) of a recorded run is not a step of ChainTrack + X01_Wallet: %s" % (
                            j + 1, e["a"], {k: v for k, v in e.items()})
                    else:
                        continue
                    fnd.fail(key, "recorded BlockChain+SQLite3Wallet run (seed %d, base %d): %s" % (g["seed"], base, what),
                             {"trace": tr, "problem": g["problem"], "seed": g["seed"]})
            if base == 1:
                ctx.sample({"trace": got[0]["trace"]})
                _trace_selftest(ctx, accepted, base)
    ctx.exhaustive = True


def _replay_selftest(ctx, zin):
    """a corrupted expectation must be noticed (canned observation: independent of the tree under test)"""
    rec = {"k": "beh", "base": 1, "par": [0], "wt": [1], "txin": [[]], "own": [True, False], "cont": [[1]],
           "acts": [{"a": "D", "B": [1], "chain": [1], "ops": [["add", 1, 0]]}],
           "outs": [{"ws": [[1, 1, -1, 0], [0, -1, -1, 0]], "lbi": 1, "bal": [1, 1, 0, 0],
                     "mid": [{"ws": [[1, 1, -1, 0], [0, -1, -1, 0]], "lbi": 1, "bal": [1, 1, 0, 0]}]}]}
    good = [{"ws": [[1, 1, -1, 0], [0, -1, -1, 0]], "lbi": 1, "bal": [1, 1, 0, 0], "extra": 0,
             "mid": [{"ws": [[1, 1, -1, 0], [0, -1, -1, 0]], "lbi": 1, "bal": [1, 1, 0, 0], "extra": 0}]}]
    ok1 = _judge(rec, good, "ops")[1] is None
    bad = copy.deepcopy(rec)
    bad["outs"][0]["ws"][0][1] = 2
    ok2 = _judge(bad, good, "ops")[1] is not None
    bad = copy.deepcopy(rec)
    bad["outs"][0]["bal"][1] = 0
    ok3 = _judge(bad, good, "ops")[1] is not None
    bad = copy.deepcopy(rec)
    bad["outs"][0]["mid"][0]["lbi"] = 0
    ok4 = _judge(bad, good, "ops")[1] is not None
    ctx.selftest("replay_rejects_corrupted_expectation", ok1 and ok2 and ok3 and ok4)


def _trace_selftest(ctx, accepted, base):
    """corrupt one logged field of an accepted trace: TLC must reject exactly the corrupted copies"""
    good = [g["trace"] for g in accepted[:300]
            if len(g["trace"]["ev"]) >= 3 and any(r[0] for e in g["trace"]["ev"] for r in e["ws"])
            and any(e["a"] == "D" and e["ops"] for e in g["trace"]["ev"])]
    if not good:
        return
    t0 = good[0]
    b1 = copy.deepcopy(t0)
    j = max(i for i, e in enumerate(b1["ev"]) if any(r[0] for r in e["ws"]))
    qi = [i for i, r in enumerate(b1["ev"][j]["ws"]) if r[0]][0]
    b1["ev"][j]["ws"][qi][1] = b1["ev"][j]["ws"][qi][1] + 1 if b1["ev"][j]["ws"][qi][1] >= 0 else 1
    b2 = copy.deepcopy(t0)
    b2["ev"][-1]["bal"][0] += 1
    b3 = copy.deepcopy(t0)
    jd = [i for i, e in enumerate(b3["ev"]) if e["a"] == "D" and e["ops"]][0]
    b3["ev"][jd]["ops"] = b3["ev"][jd]["ops"][:-1]
    rej = run_traces(ctx, [t0, b1, b2, b3], base)
    ctx.selftest("trace_rejects_corrupted_field", rej == [1, 2, 3])


def replay(ctx, obj):
    """./check X01 --replay FILE : run the stored case again and print both sides"""
    fnd = Findings(ctx)
    detect_api(fnd)
    d = obj.get("detail") or {}
    print(json.dumps({k: v for k, v in obj.items() if k != "detail"}, indent=1))
    if "record" in d:
        rec = d["record"]
        zin = drv.zero_is_sentinel()
        obs = _replay_one(rec, d.get("feed", "ops"), len(rec["outs"][0]["bal"]) - 1, zin)
        for j, o in enumerate(obs):
            print("call %d %s" % (j + 1, {k: v for k, v in rec["acts"][j].items() if k != "allowed"}))
            print("   spec:", rec["outs"][j])
            print("   real:", {k: v for k, v in o.items() if k != "tb"})
        steps, bad = _judge(rec, obs, d.get("feed", "ops"))
        if bad:
            ctx.fail(obj["key"], bad[1], d)
    elif "trace" in d:
        print(json.dumps(d["trace"], indent=1)[:6000])
        ctx.fail(obj["key"], obj.get("what", ""), d)
