"""X05 - key-recovery helpers recover exactly the key the algebra determines, and refuse when it does not;
unit conversion and the recommended fee are exact (extension specification).

spec/X05_Crack.tla          the attacker's algebra (two signing equations, solution set, closed form, outcome), the case
                            analysis on classes, BIP32 ascent as the inverse of BIP32.tla's CKDpriv (terms + toy group)
spec/X05_MC_Crack.tla       one toy curve: lemmas on every (d, k, z1, z2, low-s pattern); rows for the replay
spec/X05_MC_CrackProd.tla   secp256k1: class cases (ECDSA), term lemmas + requests by name (BIP32)
spec/X05_Units.tla          decimal amounts as digit sequences, addition, the fee, the "standard"-fee build
spec/X05_MC_Units.tla       lemmas against TLC's integers; conversion / addition / fee / build cases
spec/X05_Trace_*.tla        recorded seeded sessions are runs of the same operators

Stages (./check X05 --only a,b): model, sigtoy, b32toy, prod, units, traces, selftest.
"""
from __future__ import annotations

import json
import os
import random
import subprocess
import tempfile

from vf.ctx import MachineryError, ROOT, REPO
from vf.drv import bip32 as D
from vf.drv import x05_crack as X
from vf.ecutil import CURVES, tlc_many
from vf.par import NPROC, pmap, split

PID = "X05"
# (X05_FINDINGS=<file> substitutes another list, e.g. an empty one for a tree that has the proposed repairs)
FINDINGS = os.environ.get("X05_FINDINGS") or os.path.join(ROOT, "ext", "X05_findings.json")
_G = {}


def _only(ctx, name):
    return getattr(ctx, "only", None) is None or name in ctx.only


# ---------------------------------------------------------------- findings of an extension live in ext/
def _wrap_fail(ctx):
    known = {}
    if os.path.exists(FINDINGS):
        for e in json.load(open(FINDINGS))["findings"]:
            if e.get("property") == PID and e.get("status") == "known":
                known[e["key"]] = e
    real = ctx.fail

    def fail(key, what, detail=None):
        if key in known:
            if key not in ctx.known_seen:
                ctx.known_seen[key] = what
                print("KNOWN-FINDING: property=%s %s [%s]" % (PID, known[key].get("what", what), key), flush=True)
            return False
        return real(key, what, detail)
    ctx.fail = fail
    return known


def _report(ctx, results, what):
    tot = 0
    for r in results:
        if r.get("machinery"):
            raise MachineryError(r["machinery"])
        tot += r["n"]
        ctx.case(None, r["n"])
        for c in r.get("classes", ()):
            ctx.case(what + "|" + c, 0)
        for key, msg, det in r["fails"]:
            ctx.fail(key, msg, det)
    return tot


# ================================================================ toy curves: ECDSA rows
PATS = ((1, 1), (1, -1), (-1, 1), (-1, -1))


def _pat_class(e1, e2):
    return "as-signed" if (e1, e2) == (1, 1) else "both-normalised" if (e1, e2) == (-1, -1) else "one-normalised"


def _sig_worker(arg):
    """replay a chunk of rows of one toy curve on pycoin.crack.ecdsa"""
    curve, rows, lift_seed = arg
    from pycoin.crack.ecdsa import crack_k_from_sigs, crack_secret_exponent_from_k
    g = X.toy_generator(curve)
    ref = X.ref_curve(curve)
    n = ref.n
    rnd = random.Random(lift_seed)
    fails, ncalls, classes = [], 0, set()
    xr_tab = {}

    def xr(k):
        if k not in xr_tab:
            xr_tab[k] = X.ref_xr(ref, k)
        return xr_tab[k]

    def flip(s, e):
        return s if e == 1 else (n - s) % n

    def check(cls, sig1, z1, sig2, z2, must, may, ctxt):
        nonlocal ncalls
        # R2: the reference agrees with TLC on this row (it will stand in as a guard on 256-bit numbers)
        rm, ry = X.ref_outcome(ref, sig1[0], sig1[1], z1, sig2[0], sig2[1], z2)
        if (rm, ry) != (must, set(may)):
            raise MachineryError("reference outcome (%r, %r) differs from TLC's (%r, %r) on %s %r" % (rm, ry, must, may, curve, ctxt))
        # the digests as given and lifted by multiples of the order (only z mod n enters the algebra)
        for (l1, l2) in ((0, 0), (rnd.randrange(1, 4), rnd.randrange(0, 3) << 200))[:2 if rnd.random() < 0.125 else 1]:
            got = X.call(crack_k_from_sigs, g, sig1, z1 + l1 * n, sig2, z2 + l2 * n)
            ncalls += 1
            j = X.judge_k(got, must, set(may))
            if j:
                kind = j[1] if got[0] == "exc" else "a-number-that-" + X.describe_number(xr, n, sig1[0], got[1])
                fails.append(["X05|crack_k|toy|%s|expected=%s|got=%s" % (cls, j[0], kind),
                              "crack_k_from_sigs on %s: sig1=%r z1=%d sig2=%r z2=%d (%s): got %r, TLC: must=%d may=%r" % (
                                  curve, sig1, z1 + l1 * n, sig2, z2 + l2 * n, ctxt, got, must, sorted(may)),
                              {"curve": curve, "sig1": sig1, "z1": z1 + l1 * n, "sig2": sig2, "z2": z2 + l2 * n, "must": must, "may": sorted(may)}])
                return
            if must and got[0] == "ret":
                # the key through the second helper, from either signature (both were made with the recovered nonce)
                for sg, zz in ((sig1, z1), (sig2, z2)):
                    gd = X.call(crack_secret_exponent_from_k, g, zz, sg, got[1])
                    ncalls += 1
                    want = X.ref_from_k(n, sg[0], sg[1], zz, got[1])
                    if gd != ("ret", want) or (ctxt.get("d") is not None and want != ctxt["d"]):
                        fails.append(["X05|from_k|toy|after crack_k|expected=the-key|got=%s" % ("refusal" if gd[0] == "exc" else "another-number"),
                                      "key from the recovered nonce on %s %r: %r (the algebra: %d)" % (curve, ctxt, gd, want), None])

    for row in rows:
        if row["k"] == "sig":
            d, k, z1 = row["d"], row["kk"], row["z1"]
            if not row["usable"]:
                continue
            r, s1 = row["r"], row["s1"]
            # the library's own signing path with the nonce forced (composition with C01): it makes TLC's signature
            got = X.call(g.sign, d, z1, lambda *a: k)
            ncalls += 1
            if got != ("ret", (r, s1)):
                fails.append(["X05|sign|toy|forced nonce|differs from SigOf", "%s: sign(%d, %d, k=%d) = %r, TLC: (%d, %d)" % (curve, d, z1, k, got, r, s1), None])
            # one signature, nonce known
            for (sg, kk, want, nm) in (((r, s1), k, row["fromk"], "as-signed"), ((r, (n - s1) % n), n - k, row["fromkflip"], "normalised, its own nonce"),
                                       ((r, s1), k + n, row["fromk"], "nonce + n")):
                if want != d:
                    raise MachineryError("TLC's FromK does not return the key")
                for zz in (z1, z1 + n * rnd.randrange(1, 1 << 40)):
                    gd = X.call(crack_secret_exponent_from_k, g, zz, sg, kk)
                    ncalls += 1
                    classes.add("from_k|" + nm)
                    if gd != ("ret", d):
                        fails.append(["X05|from_k|toy|%s|expected=the-key|got=%s" % (nm, "refusal" if gd[0] == "exc" else "another-number"),
                                      "%s: crack_secret_exponent_from_k(z=%d, %r, k=%d) = %r, the key is %d" % (curve, zz, sg, kk, gd, d), None])
            for iz, ent in enumerate(row["same"], start=1):
                if not ent:
                    continue
                s2, outs = ent
                for ip, (e1, e2) in enumerate(PATS):
                    must, may, coinc = outs[ip]
                    cls = X.input_class("same-key-same-nonce", (iz - z1) % n == 0, e1, e2)
                    classes.add("crack_k|%s|%d%d%s" % (cls, e1, e2, "|coincidence" if coinc else ""))
                    check(cls, (r, flip(s1, e1)), z1, (r, flip(s2, e2)), iz, must, may, {"d": d if (must and not coinc) else None, "k": k, "pattern": (e1, e2)})
            for d2, iz, s2, o11, o1m in row["otherkey"]:
                for e2, o in ((1, o11), (-1, o1m)):
                    if s2 == 0:
                        continue
                    cls = X.input_class("other-key-same-nonce", (iz - z1) % n == 0, 1, e2)
                    classes.add("crack_k|%s|%d" % (cls, e2))
                    check(cls, (r, s1), z1, (r, flip(s2, e2)), iz, o[0], o[1], {"d2": d2, "k": k})
            for k2, r2, s2, o in row["othernonce"]:
                if r2 == 0 or s2 == 0:
                    continue
                cls = "same-key-other-nonce" + ("" if r2 != r else "|same-r")
                classes.add("crack_k|" + cls)
                check(cls, (r, s1), z1, (r2, s2), (z1 % n) + 1, o[0], o[1], {"k2": k2})
            for iz, o in enumerate(row["copy"], start=1):
                if not o:
                    continue
                cls = X.input_class("copied-signature", (iz - z1) % n == 0, 1, 1)
                classes.add("crack_k|" + cls)
                check(cls, (r, s1), z1, (r, s1), iz, o[0], o[1], {})
        elif row["k"] == "obs":
            r, s1, z1 = row["r"], row["s1"], row["z1"]
            for s2, zrow in enumerate(row["rows"], start=1):
                for iz, o in enumerate(zrow, start=1):
                    cls = "arbitrary-pair|" + ("consistent-as-given" if o[0] else "consistent-up-to-low-s" if o[1] else "inconsistent")
                    classes.add("crack_k|" + cls)
                    check(cls, (r, s1), z1, (r, s2), iz, o[0], o[1], {})
    return {"fails": fails, "n": ncalls, "classes": sorted(classes)}


def judge_ascend(got, want, kpar):
    """want: TLC's ToyAscend (0 = refused).  A number that IS the parent's key is never a wrong answer, whatever BIP32 says
    about the index (R1)."""
    return (got == ("ret", want)) if want else (got[0] == "exc" or got == ("ret", kpar))


def judge_to_sat(got, exact, allowed):
    """-> None or the kind of disagreement"""
    if got[0] == "ret":
        if type(got[1]) is not int:
            return "not-an-int"
        return None if got[1] in allowed else "another-count"
    return "refusal" if exact else None


# ================================================================ toy curves: BIP32 rows
def _b32_worker(arg):
    curve, M, rows, seed = arg
    from pycoin.crack.bip32 import ascend_bip32, crack_bip32
    g = X.toy_generator(curve)
    n = CURVES[curve][4]
    Toy = X.toy_node_class(g)
    rnd = random.Random(seed)
    fails, ncalls, classes = [], 0, set()
    for row in rows:
        kpar = row["kpar"]
        cc = bytes(rnd.randrange(256) for _ in range(32))
        meta = dict(depth=rnd.randrange(0, 255), parent_fingerprint=bytes(rnd.randrange(256) for _ in range(4)),
                    child_index=rnd.choice([0, 1, 0x80000000, 0x7fffffff, rnd.randrange(1 << 32)]))
        par = Toy(chain_code=cc, secret_exponent=kpar, **meta)
        if tuple(par.public_pair()) != tuple(row["K"]):
            fails.append(["X05|b32toy|public key of the parent|differs", "%s: %d*G = %r, TLC: %r" % (curve, kpar, tuple(par.public_pair()), row["K"]), None])
            continue
        sec = X.sec_of(row["K"])
        for e in row["rows"]:
            il = e["il"]
            i = rnd.choice([0, 1, 2, 0x7fffffff, rnd.randrange(1 << 31)])
            force = {(cc, sec + X.ser32(i)): il}
            icls = "valid-index" if e["valid"] else ("IL>=n" if il >= n else "child-key-would-be-0")
            # every claimed child key, straight from TLC's table
            for kc, want in enumerate(e["asc"]):
                pub = par.public_copy()
                with X.HmacOracle(M, force):
                    got = X.call(ascend_bip32, pub, kc, i)
                ncalls += 1
                ccls = "%s|%s" % (icls, "the-child" if want else "not-the-child")
                classes.add("ascend|" + ccls + ("|key-0" if kc == 0 else "|key-n" if kc == n else ""))
                if not judge_ascend(got, want, kpar):
                    fails.append(["X05|ascend|toy|%s|expected=%s|got=%s" % (ccls, "the-parent-key" if want else "refusal",
                                                                             "refusal" if got[0] == "exc" else "the-parent-key" if got[1] == kpar else "a-wrong-key"),
                                  "%s: ascend_bip32(K=%d*G, child key %d, i=%d) with IL=%d: %r, TLC: %s" % (curve, kpar, kc, i, il, got, want or "refused"),
                                  {"curve": curve, "kpar": kpar, "kc": kc, "i": i, "il": il}])
            # the library's own derivation followed by the ascent (and by crack_bip32, which also gives the node and its text)
            with X.HmacOracle(M, force) as orc:
                fresh = Toy(chain_code=cc, secret_exponent=kpar, **meta)
                child = X.call(lambda: fresh.subkey(i).secret_exponent())
                ncalls += 1
                if e["valid"] and child != ("ret", e["child"]):
                    fails.append(["X05|b32toy|derive|valid-index|differs", "%s: subkey(%d) of %d with IL=%d has key %r, BIP32: %d" % (curve, i, kpar, il, child, e["child"]), None])
                if child[0] == "ret":
                    up = X.call(ascend_bip32, fresh.public_copy(), child[1], i)
                    ck = X.call(crack_bip32, fresh.public_copy(), child[1], str(i))
                    ncalls += 2
                    classes.add("ascend|library-child|" + icls)
                    if e["valid"]:
                        ok = up == ("ret", kpar)
                        okc = ck[0] == "ret" and ck[1].secret_exponent() == kpar and ck[1].hwif(as_private=True) == fresh.hwif(as_private=True) \
                            and D.project(ck[1]) == D.project(fresh)
                    else:       # BIP32: no child at this index; a library that hands one out owes the parent or a refusal (R1)
                        ok = up[0] == "exc" or up == ("ret", kpar)
                        okc = ck[0] == "exc" or (ck[1].secret_exponent() == kpar and ck[1].hwif(as_private=True) == fresh.hwif(as_private=True))
                    if not ok:
                        fails.append(["X05|ascend|toy|library-child|%s|expected=%s|got=%s" % (
                            icls, "the-parent-key" if e["valid"] else "the-parent-key-or-refusal", "refusal" if up[0] == "exc" else "a-wrong-key"),
                            "%s: subkey(%d) of %d (IL=%d) then ascend_bip32: %r" % (curve, i, kpar, il, up), {"curve": curve, "kpar": kpar, "i": i, "il": il}])
                    if not okc:
                        fails.append(["X05|crack_bip32|toy|library-child|%s|expected=%s|got=%s" % (
                            icls, "the-parent-node" if e["valid"] else "the-parent-node-or-refusal", "refusal" if ck[0] == "exc" else "another-node"),
                            "%s: subkey(%d) of %d (IL=%d) then crack_bip32: %r" % (curve, i, kpar, il, ck[0] if ck[0] == "exc" else ck[1].hwif(as_private=True)),
                            {"curve": curve, "kpar": kpar, "i": i, "il": il}])
    return {"fails": fails, "n": ncalls, "classes": sorted(classes)}


def stage_toy(ctx, cfgs, tl):
    results = [tl["X05_MC_Crack_" + c] for c in cfgs]
    sig_jobs, b32_jobs = [], []
    nrows = 0
    for c, r in zip(cfgs, results):
        curve = c.split("_")[0]
        rows = [x for x in r.records if isinstance(x, dict)]
        sig = [x for x in rows if x.get("k") in ("sig", "obs")]
        b32 = [x for x in rows if x.get("k") == "b32"]
        if not sig or not b32:
            raise MachineryError("X05_MC_Crack_%s printed no rows" % c)
        M = len(b32[0]["rows"])
        nrows += len(sig) + len(b32)
        coinc = sum(1 for x in sig if x.get("k") == "sig" and x.get("usable") for ent in x["same"] if ent for o in ent[1] if o[2])
        ctx.extra.setdefault("toy_coincidences", {})[c] = coinc
        for i, ch in enumerate(split(sig, NPROC * 2)):
            sig_jobs.append((curve, ch, ctx.seed * 1009 + i))
        for i, ch in enumerate(split(b32, 4)):
            b32_jobs.append((curve, M, ch, ctx.seed * 2003 + i))
        _G.setdefault("first_sig_row", next(x for x in sig if x.get("k") == "sig" and x.get("usable")))
        _G.setdefault("first_b32_row", (curve, M, b32[0]))
    n1 = n2 = 0
    if _only(ctx, "sigtoy"):
        n1 = _report(ctx, pmap(_sig_worker, sig_jobs, chunk=1), "sigtoy")
    if _only(ctx, "b32toy"):
        n2 = _report(ctx, pmap(_b32_worker, b32_jobs, chunk=1), "b32toy")
    ctx.replayed += nrows
    ctx.action("replay.toy.rows", nrows)
    ctx.log("toy curves %s: %d rows, %d calls of the ECDSA helpers, %d of the BIP32 helpers" % (",".join(cfgs), nrows, n1, n2))


# ================================================================ secp256k1
def _run_prod_backend(backend, job):
    d = tempfile.mkdtemp(prefix="x05-")
    fin, fout = os.path.join(d, "in.json"), os.path.join(d, "out.json")
    json.dump(job, open(fin, "w"))
    env = dict(os.environ, PYTHONPATH=REPO + ":" + os.path.join(ROOT, "harness"), PYTHONHASHSEED="0", PYCOIN_NATIVE=backend)
    p = subprocess.run(["/venv/bin/python", "-m", "vf.drv.x05_crack", "prod", fin, fout], env=env, capture_output=True, text=True)
    if p.returncode != 0 or not os.path.exists(fout):
        # a broken tree may fail to import or crash: that is a finding about the tree, not about the harness
        return {"fails": [["X05|prod|%s|worker crashed" % backend, (p.stderr or p.stdout)[-1500:], None]], "n": 0, "classes": []}
    out = json.load(open(fout))
    for f in (fin, fout):
        os.unlink(f)
    os.rmdir(d)
    return out


def _prod_sig_worker(arg):
    return _run_prod_backend(*arg)


def _bip_worker(arg):
    """BIP32 on secp256k1: the nodes evaluated from TLC's terms, requests by name"""
    seed, netfam, recs, shuffle_seed = arg
    from vf.props.c09 import eval_paths, _tp
    from pycoin.networks.registry import network_for_netcode
    from pycoin.crack.bip32 import ascend_bip32, crack_bip32
    netsym, fam = netfam
    net = network_for_netcode(netsym)
    root = [r for r in recs if r["k"] == "root"][0]
    ver = {(v["net"], v["fam"]): (bytes(v["prv"]), bytes(v["pub"])) for v in root["versions"]}
    prvv, pubv = ver[(netsym, fam)]
    tree = eval_paths(recs, seed)
    parse = {"bip32": net.parse.bip32, "bip49": getattr(net.parse, "bip49", None), "bip84": getattr(net.parse, "bip84", None)}[fam]
    fails, ncalls, classes = [], 0, set()
    rnd = random.Random(shuffle_seed)

    def pubnode(p):
        """the public extended key of the node at path p, from the text the SPEC prescribes (no derivation by pycoin)"""
        nd = parse(D.b58check(pubv + tree[p]["ser"]["pub"]))
        if nd is None:
            raise MachineryError("pycoin does not read the public text of %s/%s" % (netsym, fam))
        return nd

    def cls_of(p):
        return "depth%d" % len(p)

    for r in sorted((r for r in recs if r["k"] == "path"), key=lambda r: json.dumps(r["path"])):
        p = _tp(r["path"])
        h, v = p[-1]
        i = v + (0x80000000 if h else 0)
        kc = int.from_bytes(tree[p]["prv"]["k"], "big")
        par = tree[p[:-1]]
        kpar = int.from_bytes(par["prv"]["k"], "big")
        det = {"seed": seed.hex(), "net": netsym, "fam": fam, "path": D.path_str(p)}
        # one step up
        got = X.call(ascend_bip32, pubnode(p[:-1]), kc, i)
        ncalls += 1
        c = "%s|%s" % ("hardened" if h else "normal", cls_of(p))
        classes.add("ascend|" + c)
        if r["ascend"] == "parent":
            if got != ("ret", kpar):
                fails.append(["X05|ascend|secp256k1|%s|expected=the-parent-key|got=%s" % (c, "refusal" if got[0] == "exc" else "a-wrong-key"),
                              "ascend_bip32(public parent, child key, %d) at %s: %r" % (i, det["path"], got if got[0] == "exc" else hex(got[1])), det])
        elif got[0] != "exc":
            fails.append(["X05|ascend|secp256k1|%s|expected=refusal|got=%s" % (c, "the-parent-key" if got[1] == kpar else "a-wrong-key"),
                          "ascend_bip32 from a HARDENED child %d at %s returned %x" % (i, det["path"], got[1]), det])
        # from every ancestor: the whole node and its text
        for nn, want in enumerate(r["crack"]):
            anc = p[:nn]
            suffix = p[nn:]
            if not suffix:
                continue          # crack_bip32 with an empty path is not a request of the spec (pycoin: int('') fails)
            mark = rnd.choice(["H", "p", "'"])
            sfx = D.path_str(suffix, mark)
            got = X.call(crack_bip32, pubnode(anc), kc, sfx)
            ncalls += 1
            c = "%s|up%d|%s" % (want, len(suffix), cls_of(anc))
            classes.add("crack_bip32|" + c)
            if want == "node":
                e = tree[anc]
                text = D.b58check(prvv + e["ser"]["prv"])
                if got[0] == "exc":
                    fails.append(["X05|crack_bip32|secp256k1|%s|expected=the-node|got=refusal" % c, "crack_bip32(%s, key at %s, %r): %r" % (D.path_str(anc), det["path"], sfx, got), det])
                    continue
                nd = got[1]
                bad = D.diff_fields(e["prv"], D.project(nd))
                if bad:
                    fails.append(["X05|crack_bip32|secp256k1|%s|expected=the-node|differs=%s" % (c, ",".join(bad)),
                                  "crack_bip32(%s, key at %s, %r): fields %s differ" % (D.path_str(anc), det["path"], sfx, bad), det])
                else:
                    texts = {"hwif(as_private=True)": X.call(lambda: nd.hwif(as_private=True)), "as_text(as_private=True)": X.call(lambda: nd.as_text(as_private=True))}
                    for nm, t in texts.items():
                        ncalls += 1
                        if t != ("ret", text):
                            fails.append(["X05|crack_bip32|secp256k1|text|%s|%s" % (fam, nm), "the cracked node prints %r, the %s text of that node is %s" % (t, fam, text), det])
                    if type(nd) is not type(pubnode(anc)):
                        fails.append(["X05|crack_bip32|secp256k1|class of the node|%s" % fam, "cracked node is a %s, the public node a %s" % (type(nd).__name__, type(pubnode(anc)).__name__), det])
            elif got[0] != "exc":
                fails.append(["X05|crack_bip32|secp256k1|%s|expected=refusal|got=a-node" % c,
                              "crack_bip32 through a hardened step (%r) returned %s" % (sfx, got[1].hwif(as_private=True)), det])
        # the same key offered under another index / to another node
        for s in r["strangers"]:
            q = _tp(s["pub"])
            jv = s["ix"]["v"]
            got = X.call(ascend_bip32, pubnode(q), kc, jv)
            ncalls += 1
            c = "stranger|" + ("other-index" if q == p[:-1] else "own-node" if q == p else "other-node")
            classes.add("ascend|" + c)
            if got[0] != "exc":
                fails.append(["X05|ascend|secp256k1|%s|expected=refusal|got=%s" % (c, "a-wrong-key"),
                              "ascend_bip32(public node %s, key of %s, %d) returned %x: it is not the private key of that node" % (
                                  D.path_str(q) or "m", det["path"], jv, got[1]), det])
    return {"fails": fails, "n": ncalls, "classes": sorted(classes)}


def _prod_any_worker(arg):
    return _prod_sig_worker(arg[1:]) if arg[0] == "sig" else _bip_worker(arg[1:])


def stage_prod(ctx, cfg, tl):
    r = tl[cfg]
    items = [x for x in r.records if isinstance(x, dict) and x.get("k") == "sigcases"]
    recs = [x for x in r.records if isinstance(x, dict) and x.get("k") in ("root", "path")]
    if not items or len(recs) < 2:
        raise MachineryError("X05_MC_CrackProd printed nothing")
    ncases = sum(len(x["cases"]) + len(x["fromk"]) for x in items)
    jobs = []
    for backend in ("python", "openssl"):
        for ch in split(items, 4 if ctx.quick else 8):
            jobs.append(("sig", backend, {"seed": ctx.seed, "items": ch}))
    rnd = random.Random(ctx.seed * 77 + 1)
    seeds = [bytes.fromhex("000102030405060708090a0b0c0d0e0f")] + [bytes(rnd.randrange(256) for _ in range(rnd.choice([16, 32, 64]))) for _ in range(3 if ctx.quick else 11)]
    netfams = [("BTC", "bip32"), ("BTC", "bip49"), ("BTC", "bip84"), ("XTN", "bip32"), ("LTC", "bip32"), ("DOGE", "bip32"), ("XTN", "bip84")]
    bjobs = [(s, netfams[i % len(netfams)], recs, ctx.seed * 13 + i) for i, s in enumerate(seeds)]
    if ctx.quick:
        bjobs += [(seeds[0], nf, recs, ctx.seed * 17 + i) for i, nf in enumerate(netfams[1:3])]
    else:
        bjobs += [(seeds[1], nf, recs, ctx.seed * 17 + i) for i, nf in enumerate(netfams)]
    allj = jobs + [("bip",) + b for b in bjobs]
    res = pmap(_prod_any_worker, allj, chunk=1, procs=min(NPROC, len(allj)))
    n1 = _report(ctx, res[:len(jobs)], "prod")
    n2 = _report(ctx, res[len(jobs):], "prod")
    ctx.replayed += ncases * 2 + (len(recs) - 1) * len(bjobs)
    ctx.action("replay.prod.sigcases", ncases * 2)
    ctx.action("replay.prod.bip32paths", (len(recs) - 1) * len(bjobs))
    _G["prod_items"] = items
    _G["prod_recs"] = recs
    ctx.log("secp256k1: %d ECDSA cases x 2 backends (%d calls), %d paths x %d (seed, network, family) (%d calls)" % (ncases, n1, len(recs) - 1, len(bjobs), n2))



# ================================================================ units, fee, "standard"-fee builds
def _units_worker(arg):
    kind, recs = arg
    import decimal
    from fractions import Fraction
    from vf.drv import x05_units as U
    fails, ncalls, classes = [], 0, set()

    def conv_to_sat(D, neg, ints, frac, exact, counts, how):
        """one text -> satoshis, as str and as Decimal; `counts`: the allowed results"""
        nonlocal ncalls
        allowed = {U.count_of(c) for c in counts}
        tail = "whole" if exact else "over-precise"
        cls = "unit=1e-%d|%s|%s%s" % (D, tail, "negative" if neg else "non-negative", "|" + how if how else "")
        classes.add("to_satoshi|" + cls)
        for form in ("str", "Decimal"):
            for point in (("auto", "always") if not frac else ("auto",)):
                t = U.text_of(neg, ints, frac, point)
                arg = t if form == "str" else decimal.Decimal(t)
                got = U.call(U.TO_SAT[D], arg)
                ncalls += 1
                j = judge_to_sat(got, exact, allowed)
                if j:
                    fails.append(["X05|to_satoshi|%s|%s|got=%s" % (cls, form, j),
                                  "%s(%r): %r, allowed %s%s" % (U.TO_SAT[D].__name__, arg, got[1], sorted(allowed), "" if exact else " or a refusal"), {"text": t, "D": D}])

    for r in recs:
        if kind == "conv":
            D = r["D"]
            n = int("".join(r["sat"]))
            coin = "".join(r["coin"])
            for sg in (1, -1):
                got = U.call(U.FROM_SAT[D], sg * n)
                ncalls += 1
                cls = "unit=1e-%d|%s" % (D, "negative" if sg < 0 and n else "non-negative")
                classes.add("from_satoshi|" + cls)
                want = Fraction(decimal.Decimal(coin)) * sg
                val = U.exact_fraction(got[1]) if got[0] == "ret" else None
                if got[0] != "ret" or not isinstance(got[1], decimal.Decimal) or val != want:
                    fails.append(["X05|from_satoshi|%s|got=%s" % (cls, "refusal" if got[0] == "exc" else "not-a-Decimal" if not isinstance(got[1], decimal.Decimal) else "another-amount"),
                                  "%s(%d) = %r, the amount is %s%s" % (U.FROM_SAT[D].__name__, sg * n, got[1], "-" if sg < 0 else "", coin), {"sat": sg * n, "D": D}])
                elif got[1].as_tuple().exponent < -D:
                    fails.append(["X05|from_satoshi|%s|got=more-than-%d-places" % (cls, D), "%s(%d) = %r" % (U.FROM_SAT[D].__name__, sg * n, got[1]), None])
            for t in r["texts"]:
                how = "leading-zeros" if len(t["int"]) > 1 and t["int"][0] == "0" else ""
                conv_to_sat(D, t["neg"], t["int"], t["frac"], t["exact"], t["counts"], how)
        elif kind == "add":
            ta, tb, ts = (U.text_of(False, r[x]["int"], r[x]["frac"]) for x in ("a", "b", "sum"))
            for u in r["units"]:
                D = u["D"]
                a, b, sm = (int("".join(u[x])) for x in ("a", "b", "sum"))
                f, g = U.TO_SAT[D], U.FROM_SAT[D]
                classes.add("add|unit=1e-%d" % D)
                checks = [("to_satoshi(a)+to_satoshi(b)", lambda: f(ta) + f(tb), sm), ("to_satoshi(a+b)", lambda: f(ts), sm),
                          ("to_satoshi(Decimal a + Decimal b)", lambda: f(decimal.Decimal(ta) + decimal.Decimal(tb)), sm),
                          ("from_satoshi(a)+from_satoshi(b)", lambda: Fraction(g(a) + g(b)), Fraction(decimal.Decimal(ts))),
                          ("from_satoshi(a+b)", lambda: Fraction(g(a + b)), Fraction(decimal.Decimal(ts))),
                          ("to_satoshi(from_satoshi(a)+from_satoshi(b))", lambda: f(g(a) + g(b)), sm)]
                for nm, fn, want in checks:
                    got = U.call(fn)
                    ncalls += 1
                    if got != ("ret", want):
                        fails.append(["X05|add|unit=1e-%d|%s|differs" % (D, nm), "%s with a=%s b=%s: %r, exact: %s" % (nm, ta, tb, got, want), None])
        elif kind == "fee":
            tx = U.shape_tx(r["ins"], r["outs"])
            size = len(tx.as_bin())
            got = U.call(U.tx_fee.recommended_fee_for_tx, tx)
            ncalls += 1
            bcls = "size%%1000=%s" % ({0: "0", 1: "1", 999: "999"}.get(r["size"] % 1000, "inner"))
            classes.add("fee|%s|%s|%dk" % (r["kind"], bcls, r["size"] // 1000))
            if size != r["size"]:
                fails.append(["X05|fee|%s|serialised-size|differs" % r["kind"], "shape %r serialises to %d bytes, TxWire: %d" % (r["ins"], size, r["size"]), None])
            elif got != ("ret", r["fee"]):
                fails.append(["X05|fee|%s|%s|differs" % (r["kind"], bcls), "recommended fee of a %d-byte transaction: %r, %d per started 1000 bytes: %d" % (size, got, 10000, r["fee"]), None])
        elif kind == "std":
            for c in r["cases"]:
                if not c["ok"]:
                    raise MachineryError("TLC: StdOK does not hold for an exported case")
                nu = sum(1 for p in c["pays"] if p["amt"] == 0)
                bcls = "fee=%dk|%s" % (c["fee"] // 10000, "insufficient" if c["res"]["err"] else "built")
                classes.add("std|" + bcls + "|nu=%d" % nu)
                for entry in ("network", "core", "manual"):
                    got = U.std_build(c, entry)
                    ncalls += 1
                    if c["res"]["err"]:
                        if "exc" not in got:
                            fails.append(["X05|std|%s|%s|expected=error|got=tx" % (entry, bcls), "inputs %s cannot pay fee %d and one satoshi to each of %d outputs: built %r" % (
                                [s["amt"] for s in c["sps"]], c["fee"], nu, got), c])
                        continue
                    want = [o["amt"] for o in c["res"]["tx"]["outs"]]
                    if "exc" in got:
                        fails.append(["X05|std|%s|%s|expected=tx|got=error" % (entry, bcls), "raised %s; outputs should be %r (fee %d)" % (got["exc"], want, c["fee"]), c])
                        continue
                    bad = [f for f, ok in (("size", got["size"] == c["size"]), ("fee", got["fee"] == c["fee"]), ("outs", got["outs"] == want),
                                           ("scripts", got["scripts"] == c["scripts"]), ("recommended", got["rec"] == c["fee"]),
                                           ("conservation", got["tin"] == got["tout"] + got["fee"])) if not ok]
                    if bad:
                        fails.append(["X05|std|%s|%s|differs=%s" % (entry, bcls, ",".join(bad)), "built %r; TLC: size %d fee %d outs %r" % (got, c["size"], c["fee"], want), c])
    return {"fails": fails, "n": ncalls, "classes": sorted(classes)}


def _units_cfgs(q):
    sfx = "_q" if q else "_t"
    return ["X05_MC_Units_" + c for c in ("lem" + sfx, "conv", "add", "fee" + sfx, "std" + sfx)]


def stage_units(ctx, tl):
    results = [tl[c] for c in _units_cfgs(ctx.quick)]
    wjobs = []
    nrec = 0
    for kind, r in zip(("lem", "conv", "add", "fee", "std"), results):
        recs = [x for x in r.records if isinstance(x, dict) and x.get("k") == kind]
        if kind == "lem":
            continue
        if not recs:
            raise MachineryError("X05_MC_Units printed no %s records" % kind)
        nrec += len(recs) if kind != "std" else sum(len(x["cases"]) for x in recs)
        _G["units_" + kind] = recs
        for ch in split(recs, 8):
            wjobs.append((kind, ch))
    n = _report(ctx, pmap(_units_worker, wjobs, chunk=1), "units")
    # the fee as a function of the size: monotone over everything TLC printed
    fees = sorted((x["size"], x["fee"]) for x in _G["units_fee"])
    if any(a[1] > b[1] for a, b in zip(fees, fees[1:])):
        raise MachineryError("TLC's fee table is not monotone")
    ctx.replayed += nrec
    ctx.action("replay.units.records", nrec)
    ctx.log("units: %d records, %d calls on pycoin" % (nrec, n))


# ================================================================ traces (code -> spec)
def record_crack_traces(curve, seed, count):
    """seeded sessions on a toy curve beyond the grid: sign twice through the library with a forced nonce, (normalise,) crack, compare;
    toy BIP32: derive, ascend, compare.  Every event carries `cls` (ignored by TLC): its input class, for reporting."""
    from pycoin.crack.ecdsa import crack_k_from_sigs, crack_secret_exponent_from_k
    from pycoin.crack.bip32 import ascend_bip32
    g = X.toy_generator(curve)
    ref = X.ref_curve(curve)
    n = CURVES[curve][4]
    M = n + n // 3
    Toy = X.toy_node_class(g)
    rnd = random.Random(seed)
    traces = []

    def ret(got, name):
        return {"raised": 1, name: 0} if got[0] == "exc" else {"raised": 0, name: got[1] if isinstance(got[1], int) and 0 <= got[1] < 2 ** 31 else -1}

    for t in range(count):
        ev = []
        d = rnd.randrange(1, n)
        Q = d * g
        ev.append({"op": "victim", "d": d, "Q": [Q[0], Q[1]]})
        kind = rnd.choice(["reuse", "reuse", "reuse", "reuse", "otherkey", "othernonce", "samedigest", "copy", "knownk", "bip32", "bip32"])
        if kind == "bip32":
            for _ in range(rnd.randrange(1, 4)):
                kpar = rnd.randrange(1, n)
                cc = bytes(rnd.randrange(256) for _ in range(32))
                par = Toy(chain_code=cc, secret_exponent=kpar, depth=rnd.randrange(200), child_index=rnd.randrange(1 << 32))
                K = par.public_pair()
                i = rnd.choice([0, 1, 0x7fffffff, rnd.randrange(1 << 31)])
                with X.HmacOracle(M) as orc:
                    ch = X.call(lambda: par.subkey(i).secret_exponent())
                    ils = [int.from_bytes(o[:32], "big") for k_, m_, o in orc.calls]
                e = {"op": "derive", "kpar": kpar, "i": i, "ils": ils, "cls": "derive"}
                e.update(ret(ch, "kc"))
                ev.append(e)
                kcs = [ch[1]] if ch[0] == "ret" else []
                kcs += [rnd.randrange(0, n + 1), (kcs[0] + 1) % n if kcs else 1]
                for kc in kcs:
                    j = i if rnd.random() < 0.8 else (i + 1) % (1 << 31)
                    with X.HmacOracle(M) as orc:
                        up = X.call(ascend_bip32, par.public_copy(), kc, j)
                        il = int.from_bytes(orc.calls[0][2][:32], "big") if orc.calls else -1
                    if il < 0:
                        continue
                    valid = il < n and (il + kpar) % n != 0
                    e = {"op": "ascend", "K": [K[0], K[1]], "kc": kc, "i": j, "il": il,
                         "cls": ("valid-index" if valid else "IL>=n" if il >= n else "child-key-would-be-0") + "|" +
                                ("the-child" if valid and (kpar + il) % n == kc else "not-the-child")}
                    e.update(ret(up, "k"))
                    ev.append(e)
            traces.append({"ev": ev})
            continue
        k = rnd.randrange(1, n)
        z1 = rnd.randrange(1, 2 ** 31 - 1)
        z2 = z1 if kind == "samedigest" else rnd.randrange(1, 2 ** 31 - 1)
        if kind == "samedigest" and rnd.random() < 0.5 and z1 + n < 2 ** 31:
            z2 = z1 + n

        def sign(dd, z, kk, log=True):
            got = X.call(g.sign, dd, z, lambda *a: kk)
            if got[0] != "ret":
                return None
            if log and dd == d:
                ev.append({"op": "sign", "z": z, "k": kk, "r": got[1][0], "s": got[1][1], "cls": "sign"})
            xr_ = X.ref_xr(ref, kk)
            if not xr_ or (z + xr_ * dd) % n == 0:
                return None         # r or s would be 0: the library moved on to another nonce (C01's business); the session ends here
            return got[1]
        sig1 = sign(d, z1, k)
        if kind == "knownk":
            if sig1:
                e1 = rnd.choice([1, -1])
                sg = (sig1[0], sig1[1] if e1 == 1 else n - sig1[1])
                kk = k if e1 == 1 else n - k
                if rnd.random() < 0.15:
                    sg = (rnd.choice([0, n]), sg[1])
                gd = X.call(crack_secret_exponent_from_k, g, z1, sg, kk)
                e = {"op": "fromk", "r": sg[0], "s": sg[1], "z": z1, "k": kk, "cls": "r=0-mod-n" if sg[0] % n == 0 else "known-nonce"}
                e.update(ret(gd, "d"))
                ev.append(e)
                if gd[0] == "ret" and sg[0] % n:
                    ev.append({"op": "claim", "d": gd[1], "cls": "claim"})
            traces.append({"ev": ev})
            continue
        origin = {"reuse": "same-key-same-nonce", "samedigest": "same-key-same-nonce", "otherkey": "other-key-same-nonce",
                  "othernonce": "same-key-other-nonce", "copy": "copied-signature"}[kind]
        if kind == "otherkey":
            sig2 = sign(rnd.choice([x for x in range(1, n) if x != d]), z2, k, log=False)
        elif kind == "othernonce":
            sig2 = sign(d, z2, rnd.choice([x for x in range(1, n) if x not in (k, n - k)]))
        elif kind == "copy":
            sig2 = sig1
        else:
            sig2 = sign(d, z2, k)
        if not sig1 or not sig2:
            traces.append({"ev": ev})
            continue
        # the observer sees signatures as published: low-s normalised by the rule of BIP62 (s <= n/2) or at random
        if rnd.random() < 0.5:
            e1, e2 = (1 if 2 * sig1[1] <= n else -1), (1 if 2 * sig2[1] <= n else -1)
        else:
            e1, e2 = rnd.choice([1, -1]), rnd.choice([1, -1])
        o1 = (sig1[0], sig1[1] if e1 == 1 else n - sig1[1])
        o2 = (sig2[0], sig2[1] if e2 == 1 else n - sig2[1])
        gk = X.call(crack_k_from_sigs, g, o1, z1, o2, z2)
        e = {"op": "crackk", "r1": o1[0], "s1": o1[1], "z1": z1, "r2": o2[0], "s2": o2[1], "z2": z2,
             "cls": X.input_class(origin, (z1 - z2) % n == 0, e1, e2) + ("|same-r" if kind == "othernonce" and o1[0] == o2[0] else "")}
        e.update(ret(gk, "k"))
        ev.append(e)
        if gk[0] == "ret":
            claimed = None
            for sg, zz in ((o1, z1), (o2, z2)):
                gd = X.call(crack_secret_exponent_from_k, g, zz, sg, gk[1])
                e = {"op": "fromk", "r": sg[0], "s": sg[1], "z": zz, "k": gk[1] if isinstance(gk[1], int) and 0 <= gk[1] < 2 ** 31 else 0, "cls": "after-crack_k"}
                e.update(ret(gd, "d"))
                ev.append(e)
                if gd[0] == "ret" and isinstance(gd[1], int) and 0 < gd[1] < n and tuple(gd[1] * g) == tuple(Q):
                    claimed = gd[1]
            if claimed is not None:
                ev.append({"op": "claim", "d": claimed, "cls": "claim"})
        traces.append({"ev": ev})
    return traces


def _acc_run(ctx, module, cfg, traces, workers=4):
    """validate a batch; -> (accepted ids (0-based), {tid: events explained})"""
    fd, path = tempfile.mkstemp(prefix="vf-x05-traces-", suffix=".json")
    with os.fdopen(fd, "w") as f:
        json.dump(traces, f)
    try:
        r = ctx.tlc(module, cfg, workers=workers, env={"TRACE_FILE": path}, count=False, timeout=2400)
    finally:
        os.unlink(path)
    hdr = [x for x in r.records if isinstance(x, dict) and x.get("k") == "hdr"]
    if not hdr or hdr[0]["n"] != len(traces):
        raise MachineryError("trace run %s/%s did not load the %d traces sent" % (module, cfg, len(traces)))
    acc = {int(x["tid"]) - 1 for x in r.records if isinstance(x, dict) and x.get("k") == "acc"}
    prog = {}
    for x in r.records:
        if isinstance(x, dict) and x.get("k") == "l":
            prog[int(x["tid"]) - 1] = max(prog.get(int(x["tid"]) - 1, 0), int(x["l"]))
    return acc, prog


def _judge_traces(ctx, what, traces, acc, prog, keyf):
    n_ok = 0
    for i, t in enumerate(traces):
        if i in acc or not t["ev"]:
            n_ok += 1
            continue
        at = prog.get(i, 0)              # events explained; the next one is not
        e = t["ev"][at] if at < len(t["ev"]) else {"op": "?", "cls": "?"}
        ctx.fail(keyf(e), "%s trace %d: event %d (%s) is not a step of the specification: %s" % (
            what, i, at + 1, e.get("op"), json.dumps({k: v for k, v in e.items() if k != "facts"})[:600]), {"trace": i, "event": at + 1, "prefix": t["ev"][:at + 1] if what != "secp256k1" else None})
    ctx.traces += n_ok
    return n_ok


def stage_traces_crack(ctx):
    q = ctx.quick
    plan = [("p251a", 250 if q else 1500), ("p251b", 250 if q else 1500)] + ([] if q else [("p1019", 400)])
    for i, (curve, cnt) in enumerate(plan):
        traces = record_crack_traces(curve, ctx.seed * 4001 + i, cnt)
        acc, prog = _acc_run(ctx, "X05_Trace_Crack", "X05_Trace_Crack_" + curve, traces)
        ok = _judge_traces(ctx, curve, traces, acc, prog, lambda e: "X05|trace|%s|toy|%s" % (e.get("op"), e.get("cls")))
        for t in traces:
            for e in t["ev"]:
                ctx.case("trace|%s|%s" % (e["op"], e.get("cls")), 1)
        ctx.log("traces %s: %d sessions (%d events), %d accepted" % (curve, len(traces), sum(len(t["ev"]) for t in traces), ok))
        _G.setdefault("crack_trace", (curve, next(t for j, t in enumerate(traces) if j in acc and any(e["op"] == "crackk" for e in t["ev"]))))


def record_ascend_traces(seed, count):
    """secp256k1: derive (private chain), public copy of an ancestor, ascend / crack from a descendant, print - with C09's HMAC tap and facts"""
    from vf.props import c09
    from pycoin.networks.registry import network_for_netcode
    from pycoin.crack.bip32 import ascend_bip32, crack_bip32
    rnd = random.Random(seed)
    tap = c09._HmacTap()
    traces = []
    netfams = [("BTC", "bip32"), ("BTC", "bip32"), ("XTN", "bip32"), ("LTC", "bip32"), ("BTC", "bip49"), ("BTC", "bip84")]

    def rindex(hard_ok=True):
        v = rnd.choice([0, 1, 2, 65536, 2 ** 24, 2 ** 31 - 1]) if rnd.random() < 0.4 else rnd.randrange(2 ** 31)
        return (hard_ok and rnd.random() < 0.3, v)

    def kb(x):
        return int(x).to_bytes(32, "big")
    tap.install()
    try:
        for t in range(count):
            netsym, fam = rnd.choice(netfams)
            net = network_for_netcode(netsym)
            sd = bytes(rnd.randrange(256) for _ in range(rnd.choice([16, 32, 64])))
            objs, ev = [], []

            def number(o):
                objs.append(o)
                return len(objs)
            rf, M, calls = tap.run(lambda: net.keys.bip32_seed(sd))
            if fam != "bip32":
                # the same key material as a BIP49 / BIP84 node (text family differs, derivation does not)
                M = getattr(net.keys, fam + "_deserialize")(b"\0\0\0\0" + M.serialize(as_private=True))
            ev.append({"op": "master", "seed": list(sd), "res": number(M), "node": c09._conc(M), "facts": c09._facts([], calls, [bytes(c09._conc(M)["k"])])})
            cur = 1
            for _ in range(rnd.randrange(0, 4)):           # go down a little (hardened steps allowed)
                h, v = rindex()
                obj = objs[cur - 1]
                parent = c09._conc(obj)
                rf, res, calls = tap.run(lambda: obj.subkey(i=v, is_hardened=h))
                c = c09._conc(res)
                ev.append({"op": "derive", "o": cur, "ix": [1 if h else 0, v], "want": "dflt", "res": number(res), "node": c,
                           "facts": c09._facts([parent], calls, [bytes(c["k"])])})
                cur = len(objs)
            anc = cur
            A = objs[anc - 1]
            P = A.public_copy()
            pnum = number(P)
            ev.append({"op": "copy", "o": anc, "res": pnum, "node": c09._conc(P), "facts": c09._facts([c09._conc(A)], [])})
            # a private chain below the ancestor
            depth = rnd.randrange(1, 4)
            hard_at = rnd.randrange(depth) if rnd.random() < 0.2 else -1
            path, privs = [], [A]
            for j in range(depth):
                h, v = rindex(False)
                h = j == hard_at
                obj = privs[-1]
                parent = c09._conc(obj)
                rf, res, calls = tap.run(lambda: obj.subkey(i=v, is_hardened=h))
                c = c09._conc(res)
                ev.append({"op": "derive", "o": anc if j == 0 else len(objs), "ix": [1 if h else 0, v], "want": "dflt", "res": number(res), "node": c,
                           "facts": c09._facts([parent], calls, [bytes(c["k"])])})
                path.append((h, v))
                privs.append(res)
            # (a) one step: the public copy of the last parent, the last child's key (requests that are not the child come last)
            par, child = privs[-2], privs[-1]
            h, v = path[-1]
            if len(privs) == 2:
                ppar, ppar_num = P, pnum
            else:
                ppar = par.public_copy()
                ppar_num = number(ppar)
                ev.append({"op": "copy", "o": len(objs) - 2, "res": ppar_num, "node": c09._conc(ppar), "facts": c09._facts([c09._conc(par)], [])})
            variants = [("the-child", child.secret_exponent(), v)]
            if rnd.random() < 0.2:
                variants.append(("not-the-child|other-index", child.secret_exponent(), (v + 1) % 2 ** 31))
            if rnd.random() < 0.2:
                variants.append(("not-the-child|other-key", par.secret_exponent(), v))
            for cls, kc, jv in variants:
                ji = jv + (0x80000000 if h else 0)
                rf, res, calls = tap.run(lambda: ascend_bip32(ppar, kc, ji))
                pc = c09._conc(ppar)
                cands = [kb((kc - int.from_bytes(o[:32], "big")) % D.N) for k_, m_, o in calls if k_ == bytes(pc["chain"])]
                e = {"op": "ascend", "o": ppar_num, "kc": list(kb(kc)), "ix": [1 if h else 0, jv], "raised": 1 if rf else 0,
                     "k": list(kb(res)) if not rf and isinstance(res, int) and 0 <= res < 2 ** 256 else [],
                     "facts": c09._facts([pc], calls, cands + ([kb(res)] if not rf and isinstance(res, int) and 0 < res < D.N else [])),
                     "cls": ("hardened|" if h else "") + cls}
                ev.append(e)
            # (b) all the way up to the ancestor, with the node and its text
            sfx = "/".join("%d%s" % (v_, rnd.choice("Hp'") if h_ else "") for h_, v_ in path)
            kc = child.secret_exponent() if rnd.random() < 0.85 else par.secret_exponent()
            ccls = ("hardened-step|" if hard_at >= 0 else "") + ("the-descendant" if kc == child.secret_exponent() else "not-the-descendant")
            rf, res, calls = tap.run(lambda: crack_bip32(P, kc, sfx))
            # the public nodes along the path, through the public API (their HMAC calls are part of the facts)
            pubs, node = [c09._conc(P)], P
            for h_, v_ in path[:-1]:
                rf2, node, more = tap.run(lambda: node.subkey(i=v_, is_hardened=h_))
                if rf2:
                    break
                calls = calls + more
                pubs.append(c09._conc(node))
            cands, kk = [], kc
            for pc in reversed(pubs):
                ils = [int.from_bytes(o[:32], "big") for k_, m_, o in calls if k_ == bytes(pc["chain"])]
                if not ils:
                    break
                kk = (kk - ils[-1]) % D.N
                cands += [kb((kc - x) % D.N) for x in ils] + [kb(kk)]
            e = {"op": "crack", "o": pnum, "kc": list(kb(kc)), "s": list(sfx), "cls": ccls}
            if rf:
                e.update(res=0, node=c09._DUMMY, facts=c09._facts(pubs, calls, cands))
            else:
                c = c09._conc(res)
                e.update(res=number(res), node=c, facts=c09._facts(pubs, calls, cands + [bytes(c["k"])]))
            ev.append(e)
            if not rf:
                text = res.hwif(as_private=True)
                ev.append({"op": "text", "o": len(objs), "net": netsym, "fam": fam, "prv": True, "blob": list(c09._b58decode_check(text)),
                           "facts": c09._facts([c09._conc(res)], []), "cls": "text-of-cracked-node"})
            traces.append({"net": netsym, "ev": ev})
    finally:
        tap.uninstall()
    return traces


def record_units_traces(seed, count):
    """seeded calls of the conversions / the fee / the standard-fee build on values beyond the grid"""
    import decimal
    from vf.drv import x05_units as U
    rnd = random.Random(seed)
    traces = []

    def digits(n):
        return [int(c) for c in str(n)]

    def rand_count():
        r = rnd.random()
        if r < 0.3:
            return rnd.randrange(0, 10 ** rnd.randrange(1, 9))
        if r < 0.8:
            return rnd.randrange(0, 21 * 10 ** 14 + 1)
        return rnd.randrange(0, 10 ** rnd.randrange(16, 24))

    def dec_digits(v):
        """exact digits of a finite Decimal"""
        sign, ds, exp = v.as_tuple()
        ds = list(ds)
        if exp >= 0:
            return bool(sign), (ds + [0] * exp) or [0], []
        ip, fp = ds[:exp] if len(ds) > -exp else [], ([0] * (-exp - len(ds)) + ds)[exp:]
        return bool(sign), ip or [0], fp
    for t in range(count):
        ev = []
        for _ in range(rnd.randrange(4, 10)):
            kind = rnd.choice(["tosat", "tosat", "tosat", "float", "fromsat", "sum", "fee", "std"])
            D = rnd.choice([8, 5])
            if kind in ("tosat", "float"):
                n = rand_count()
                neg = rnd.random() < 0.25
                if kind == "float":
                    x = (-1 if neg else 1) * n / 10 ** D * rnd.choice([1, 1, 1.0000001, 0.1, 3])
                    if rnd.random() < 0.3:
                        x = round(x, rnd.randrange(0, 10))
                    neg_, ip, fp = U.float_digits(x)
                    arg = x
                else:
                    s_ = str(n).rjust(D + 1, "0")
                    ip, fp = [int(c) for c in s_[:-D]], [int(c) for c in s_[-D:]]
                    r = rnd.random()
                    if r < 0.35:
                        fp = fp + [rnd.randrange(10) for _ in range(rnd.choice([1, 2, 3, 12, 25]))]
                    elif r < 0.5:
                        while fp and fp[-1] == 0:
                            fp.pop()
                    if rnd.random() < 0.2:
                        ip = [0, 0] + ip
                    neg_ = neg
                    text = U.text_of(neg, [str(c) for c in ip], [str(c) for c in fp])
                    arg = text if rnd.random() < 0.6 else decimal.Decimal(text)
                got = U.call(U.TO_SAT[D], arg)
                e = {"op": "tosat", "D": D, "neg": bool(neg_), "int": ip, "frac": fp, "cls": "%s|unit=1e-%d" % (type(arg).__name__, D)}
                if got[0] == "exc" or type(got[1]) is not int:
                    e.update(raised=1, rneg=False, rmag=[0], bad=got[0] == "ret")
                else:
                    e.update(raised=0, rneg=got[1] < 0, rmag=digits(abs(got[1])))
                ev.append(e)
            elif kind == "fromsat":
                n = rand_count()
                neg = rnd.random() < 0.25 and n > 0
                got = U.call(U.FROM_SAT[D], -n if neg else n)
                if got[0] == "ret" and isinstance(got[1], decimal.Decimal) and got[1].is_finite():
                    cn, ci, cf = dec_digits(got[1])
                    ev.append({"op": "fromsat", "D": D, "neg": neg, "mag": digits(n), "cneg": cn, "cint": ci, "cfrac": cf, "cls": "unit=1e-%d" % D})
                else:
                    ev.append({"op": "fromsat", "D": D, "neg": neg, "mag": digits(n), "cneg": False, "cint": [], "cfrac": [], "cls": "unit=1e-%d|no-Decimal" % D})
            elif kind == "sum":
                a, b = rand_count(), rand_count()
                got = U.call(lambda: U.FROM_SAT[D](a) + U.FROM_SAT[D](b))
                back = U.call(lambda: U.TO_SAT[D](U.FROM_SAT[D](a) + U.FROM_SAT[D](b)))
                if got[0] == "ret" and isinstance(got[1], decimal.Decimal) and back[0] == "ret" and type(back[1]) is int and back[1] >= 0:
                    cn, ci, cf = dec_digits(got[1])
                    ev.append({"op": "sum", "D": D, "a": digits(a), "b": digits(b), "cint": ci, "cfrac": cf, "back": digits(back[1]), "cls": "unit=1e-%d" % D})
                else:
                    ev.append({"op": "sum", "D": D, "a": digits(a), "b": digits(b), "cint": [], "cfrac": [], "back": [], "cls": "unit=1e-%d|no-result" % D})
            elif kind == "fee":
                nin = rnd.choice([1, 1, 2, 3, 7, 25])
                ins = []
                for _ in range(nin):
                    L = rnd.choice([0, 0, 106, 107, 252, 253, rnd.randrange(0, 1200)])
                    wit = [rnd.choice([0, 33, 71, 72, 73, rnd.randrange(0, 600)]) for _ in range(rnd.choice([0, 0, 2, 3]))] if L < 30 else []
                    ins.append({"script": L, "wit": wit})
                outs = [rnd.choice([22, 23, 25, 34, rnd.randrange(0, 300)]) for _ in range(rnd.randrange(1, 6))]
                tx = U.shape_tx(ins, outs)
                got = U.call(U.tx_fee.recommended_fee_for_tx, tx)
                ev.append({"op": "fee", "ins": ins, "outs": outs, "size": len(tx.as_bin()), "fee": got[1] if got[0] == "ret" and type(got[1]) is int else -1,
                           "cls": "witness" if any(x["wit"] for x in ins) else "plain"})
            else:
                nin = rnd.choice([1, 2, 3, 19, 20, 21, 30, 47])
                nout = rnd.randrange(1, 7)
                scripts = [rnd.choice([22, 23, 25, 34]) for _ in range(nout)]
                nu = rnd.randrange(1, nout + 1)
                unspec = set(rnd.sample(range(nout), nu))
                pays = [{"to": j + 1, "amt": 0 if j in unspec else rnd.randrange(1, 50000)} for j in range(nout)]
                fixed = sum(p["amt"] for p in pays)
                feeguess = 10000 * ((10 + 41 * nin + sum(9 + x for x in scripts) + 999) // 1000)
                total = fixed + feeguess + nu + rnd.choice([-1, 0, 1, 2, rnd.randrange(0, 10 ** 8), -rnd.randrange(1, 5000)])
                amts = [1 + rnd.randrange(0, 300) for _ in range(nin - 1)]
                first = total - sum(amts)
                if first < 1:
                    first = 1
                sps = [{"src": i + 1, "idx": rnd.randrange(4), "amt": a, "scr": 25} for i, a in enumerate([first] + amts)]
                case = {"sps": sps, "pays": pays, "scripts": scripts}
                got = U.std_build(case, rnd.choice(["network", "core", "manual"]))
                e = {"op": "std", "sps": sps, "pays": pays, "scripts": scripts, "cls": "nin=%s" % ("1-3" if nin <= 3 else "19-21" if nin <= 21 else ">21")}
                if "exc" in got:
                    e.update(err=1, outs=[], fee=0, size=0)
                else:
                    e.update(err=0, outs=got["outs"], fee=got["fee"], size=got["size"])
                ev.append(e)
        traces.append({"ev": ev})
    return traces


def stage_traces_units(ctx):
    cnt = 300 if ctx.quick else 3000
    traces = record_units_traces(ctx.seed * 8009 + 11, cnt)
    acc, prog = _acc_run(ctx, "X05_Trace_Units", "X05_Trace_Units", traces)
    ok = _judge_traces(ctx, "units", traces, acc, prog, lambda e: "X05|trace|%s|%s" % (e.get("op"), e.get("cls")))
    for t in traces:
        for e in t["ev"]:
            ctx.case("trace|units|%s|%s" % (e["op"], e.get("cls")), 1)
    ctx.log("traces units: %d sessions (%d events), %d accepted" % (len(traces), sum(len(t["ev"]) for t in traces), ok))
    _G["units_trace"] = traces[0]


def _ascend_validate(ctx, traces):
    fd, path = tempfile.mkstemp(prefix="vf-x05-atraces-", suffix=".json")
    with os.fdopen(fd, "w") as f:
        json.dump(traces, f)
    try:
        r = ctx.tlc("X05_Trace_Ascend", "X05_Trace_Ascend", workers=1, env={"TRACE_FILE": path}, count=False, timeout=2400)
    finally:
        os.unlink(path)
    for rec in r.records:
        if isinstance(rec, dict) and rec.get("k") == "rejected":
            if rec["n"] != len(traces):
                raise MachineryError("trace run saw %s traces, %d were sent" % (rec["n"], len(traces)))
            return sorted(int(x) - 1 for x in rec["ids"])
    raise MachineryError("trace run printed no verdict: %s" % r.raw_tail[-8:])


def stage_traces_ascend(ctx):
    cnt = 60 if ctx.quick else 600
    traces = record_ascend_traces(ctx.seed * 6007 + 3, cnt)
    rej = _ascend_validate(ctx, traces)
    if rej:
        # first unexplained event of each rejected trace: validate all proper prefixes in one more run
        pre, owner = [], []
        for i in rej:
            for m in range(1, len(traces[i]["ev"]) + 1):
                pre.append(dict(traces[i], ev=traces[i]["ev"][:m]))
                owner.append((i, m))
        bad = set(_ascend_validate(ctx, pre))
        first = {}
        for j, (i, m) in enumerate(owner):
            if j in bad and i not in first:
                first[i] = m
        for i in rej:
            e = traces[i]["ev"][first.get(i, 1) - 1]
            ctx.fail("X05|trace|%s|secp256k1|%s" % (e.get("op"), e.get("cls", "c09-event")),
                     "secp256k1 trace %d: event %d (%s) is not a step of the specification: %s" % (
                         i, first.get(i, 1), e.get("op"), json.dumps({k: v for k, v in e.items() if k not in ("facts", "node")})[:500]),
                     {"trace": i, "event": first.get(i, 1)})
    ctx.traces += len(traces) - len(rej)
    for t in traces:
        for e in t["ev"]:
            if "cls" in e:
                ctx.case("trace|secp256k1|%s|%s" % (e["op"], e["cls"]), 1)
    ctx.log("traces secp256k1: %d sessions (%d events), %d accepted" % (len(traces), sum(len(t["ev"]) for t in traces), len(traces) - len(rej)))
    _G["ascend_trace"] = next((t for i, t in enumerate(traces) if i not in rej and any(e["op"] == "crack" and e["res"] for e in t["ev"])), None)

# ================================================================ model teeth
BAD = (("X05_MC_Crack", "X05_MC_Crack_bad_patd", "LemmasHold"), ("X05_MC_Crack", "X05_MC_Crack_bad_flip", "LemmasHold"),
           ("X05_MC_Crack", "X05_MC_Crack_bad_toy", "LemmasHold"), ("X05_MC_CrackProd", "X05_MC_CrackProd_bad_cancel", "AscentLemmas"),
           ("X05_MC_CrackProd", "X05_MC_CrackProd_bad_pubpath", "AscentLemmas"), ("X05_MC_Units", "X05_MC_Units_bad_fee", "LemmasHold"),
       ("X05_MC_Units", "X05_MC_Units_bad_ceil", "LemmasHold"), ("X05_MC_Units", "X05_MC_Units_bad_add", "LemmasHold"))


def stage_model(ctx, tl):
    """deliberately wrong definitions must violate the lemmas (the lemmas are not vacuous)"""
    for (m, c, inv) in BAD:
        r = tl[c]
        ctx.selftest("model_rejects_" + c.split("_bad_")[1], (not r.ok) and r.violated == inv)


# ================================================================ binding self-tests (canned observations only)
def stage_selftest(ctx):
    # spec -> code: a corrupted expectation is noticed (the observation is canned: TLC's own value)
    row = _G.get("first_sig_row")
    if row:
        ent = next(e for e in row["same"] if e and e[1][0][0])
        must, may, _c = ent[1][0]
        ctx.selftest("replay_rejects_corrupted_nonce", X.judge_k(("ret", must), must, set(may)) is None
                     and X.judge_k(("ret", must), must % (CURVES["p11"][4] - 1) + 1, set(may)) is not None
                     and X.judge_k(("ret", must), 0, set()) is not None and X.judge_k(("exc", "ValueError"), must, set(may)) is not None)
    b = _G.get("first_b32_row")
    if b:
        curve, M, r = b
        e = next(x for x in r["rows"] if x["valid"])
        kc = e["child"]
        ctx.selftest("replay_rejects_corrupted_parent_key", judge_ascend(("ret", r["kpar"]), e["asc"][kc], r["kpar"])
                     and not judge_ascend(("ret", r["kpar"]), e["asc"][kc] % (CURVES[curve][4] - 1) + 1, r["kpar"])
                     and not judge_ascend(("ret", r["kpar"] % (CURVES[curve][4] - 1) + 1), 0, r["kpar"])
                     and not judge_ascend(("exc", "ValueError"), e["asc"][kc], r["kpar"]))
    conv = _G.get("units_conv")
    if conv:
        from vf.drv import x05_units as U
        t = next(x for x in conv[0]["texts"] if x["exact"])
        allowed = {U.count_of(c) for c in t["counts"]}
        v = next(iter(allowed))
        ctx.selftest("replay_rejects_corrupted_count", judge_to_sat(("ret", v), True, allowed) is None and judge_to_sat(("ret", v), True, {v + 1}) is not None
                     and judge_to_sat(("ret", float(v)), True, allowed) is not None and judge_to_sat(("exc", "X"), True, allowed) is not None)
    # code -> spec: a canned session built from TLC's own rows is accepted, each corruption of one field is rejected
    if row and b and b[0] == "p11":
        n = CURVES["p11"][4]
        d, k, z1 = row["d"], row["kk"], row["z1"]
        z2, ent = next((i + 1, e) for i, e in enumerate(row["same"]) if e and e[1][0][0])
        Q = None
        import vf.refec as refec
        ref = refec.RefCurve(*CURVES["p11"])
        Q = ref.mul(d, ref.G)
        base = [{"op": "victim", "d": d, "Q": list(Q)}, {"op": "sign", "z": z1, "k": k, "r": row["r"], "s": row["s1"]},
                {"op": "sign", "z": z2, "k": k, "r": row["r"], "s": ent[0]},
                {"op": "crackk", "r1": row["r"], "s1": row["s1"], "z1": z1, "r2": row["r"], "s2": ent[0], "z2": z2, "raised": 0, "k": ent[1][0][0]},
                {"op": "fromk", "r": row["r"], "s": row["s1"], "z": z1, "k": k, "raised": 0, "d": d}, {"op": "claim", "d": d}]
        kpar, e = b[2]["kpar"], next(x for x in b[2]["rows"] if x["valid"])
        base += [{"op": "derive", "kpar": kpar, "i": 0, "ils": [e["il"]], "raised": 0, "kc": e["child"]},
                 {"op": "ascend", "K": b[2]["K"], "kc": e["child"], "i": 0, "il": e["il"], "raised": 0, "k": kpar}]

        def mut(i, **kw):
            ev = [dict(x) for x in base]
            ev[i].update(kw)
            return {"ev": ev}
        batch = [{"ev": base}, mut(3, k=base[3]["k"] % (n - 1) + 1), mut(3, raised=1, k=0), mut(2, s=(n - base[2]["s"]) % n), mut(4, d=d % (n - 1) + 1),
                 mut(5, d=d % (n - 1) + 1), mut(6, kc=base[6]["kc"] % (n - 1) + 1), mut(7, k=kpar % (n - 1) + 1), mut(7, raised=1, k=0)]
        acc, prog = _acc_run(ctx, "X05_Trace_Crack", "X05_Trace_Crack_p11", batch, workers=1)
        ctx.selftest("trace_accepts_canned_session", 0 in acc)
        ctx.selftest("trace_rejects_corrupted_field", not (acc & set(range(1, len(batch)))))
    fee = _G.get("units_fee")
    if conv and fee:
        t = next(x for x in conv[0]["texts"] if x["exact"] and not x["neg"])
        c = t["counts"][0]
        f = fee[0]
        base = [{"op": "tosat", "D": conv[0]["D"], "neg": False, "int": [int(x) for x in t["int"]], "frac": [int(x) for x in t["frac"]], "raised": 0,
                 "rneg": False, "rmag": [int(x) for x in c["mag"]]},
                {"op": "fee", "ins": f["ins"], "outs": f["outs"], "size": f["size"], "fee": f["fee"]}]

        def mutu(i, **kw):
            ev = [dict(x) for x in base]
            ev[i].update(kw)
            return {"ev": ev}
        last = base[0]["rmag"][:-1] + [(base[0]["rmag"][-1] + 1) % 10]
        batch = [{"ev": base}, mutu(0, rmag=last if last != [0] or len(last) == 1 else [1]), mutu(0, raised=1), mutu(1, fee=f["fee"] + 10000), mutu(1, size=f["size"] + 1)]
        acc, prog = _acc_run(ctx, "X05_Trace_Units", "X05_Trace_Units", batch, workers=1)
        ctx.selftest("units_trace_accepts_canned", 0 in acc)
        ctx.selftest("units_trace_rejects_corrupted_field", not (acc & set(range(1, len(batch)))))
    tr = _G.get("ascend_trace")
    if tr:
        # a recorded secp256k1 session that TLC accepted: flip one byte of the cracked node's private key / of the ascent's answer
        import copy
        muts = []
        for i, e in enumerate(tr["ev"]):
            if e["op"] == "crack" and e["res"]:
                m = copy.deepcopy(tr)
                m["ev"] = m["ev"][:i + 1]
                m["ev"][i]["node"]["k"][31] ^= 1
                muts.append(m)
                m = copy.deepcopy(tr)
                m["ev"] = m["ev"][:i + 1]
                m["ev"][i]["node"]["depth"] = (m["ev"][i]["node"]["depth"] + 1) % 256
                muts.append(m)
            if e["op"] == "ascend" and not e["raised"]:
                m = copy.deepcopy(tr)
                m["ev"] = m["ev"][:i + 1]
                m["ev"][i]["k"][31] ^= 1
                muts.append(m)
        if muts:
            rej = _ascend_validate(ctx, [tr] + muts)
            ctx.selftest("ascend_trace_rejects_corrupted_field", rej == list(range(1, len(muts) + 1)))


# ================================================================ entry points
def replay(ctx, obj):
    print(json.dumps(obj, indent=1))
    print("(re-run `./check X05 --only <stage>`; the record above is the failing case)")


def run(ctx):
    _wrap_fail(ctx)
    ctx.rule = ("a class is (helper, curve class, how the inputs came about [same key and nonce / other key / other nonce / copied / arbitrary; "
                "which signatures are low-s normalised; same digest], index class for BIP32 [valid / IL>=n / child key 0; the child / not the child; "
                "depth; hardened], unit x sign x fractional-tail class for conversions, size boundary class for fees)")
    ctx.assumptions += ["no hash collisions (equality of BIP32 terms stands for equality of values)",
                        "on secp256k1 the class analysis of X05_Crack Part 2 is exact (coincidences have probability ~2^-255; guarded: the harness recomputes "
                        "the outcome with the reference validated on the toy rows and stops with a machinery failure if they differ)",
                        "toy BIP32: the left half of HMAC-SHA512 is replaced by an arbitrary value below M > n (the HMAC is an oracle for the spec)"]
    q = ctx.quick
    toy = ["p11_q", "p23_q", "p43_q"] if q else ["p11_t", "p23_t", "p43_t", "p67_t", "p83_t"]
    prod = "X05_MC_CrackProd_q" if q else "X05_MC_CrackProd_t"
    # every model run of the enabled stages, launched together (a few at a time)
    jobs = []
    if _only(ctx, "model"):
        jobs += [dict(module=m, cfg=c, workers=2, timeout=900, expect_ok=False, count=False, keep_records=False) for m, c, i in BAD]
    if _only(ctx, "sigtoy") or _only(ctx, "b32toy"):
        jobs += [dict(module="X05_MC_Crack", cfg="X05_MC_Crack_" + c, workers=4, timeout=3000) for c in toy]
    if _only(ctx, "prod"):
        jobs += [dict(module="X05_MC_CrackProd", cfg=prod, workers=4, timeout=3000)]
    if _only(ctx, "units"):
        jobs += [dict(module="X05_MC_Units", cfg=c, workers=4, timeout=3000) for c in _units_cfgs(q)]
    jobs.sort(key=lambda j: 0 if ("MC_Crack_p" in j["cfg"] or "lem" in j["cfg"]) else 1)        # the long ones first
    tl = {j["cfg"]: r for j, r in zip(jobs, tlc_many(ctx, jobs, threads=5 if q else 6))}
    if _only(ctx, "model"):
        stage_model(ctx, tl)
    if _only(ctx, "sigtoy") or _only(ctx, "b32toy"):
        stage_toy(ctx, toy, tl)
    if _only(ctx, "prod"):
        stage_prod(ctx, prod, tl)
    if _only(ctx, "units"):
        stage_units(ctx, tl)
    if _only(ctx, "traces"):
        stage_traces_crack(ctx)
        stage_traces_ascend(ctx)
        stage_traces_units(ctx)
    if _only(ctx, "selftest"):
        stage_selftest(ctx)
    ctx.exhaustive = False
